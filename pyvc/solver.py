"""Discharging verification conditions: z3 first, cvc5 (CLI) for z3's unknowns."""
from __future__ import annotations

import os
import subprocess
import tempfile
import time

import z3

CVC5 = "/usr/bin/cvc5"
TIER = os.environ.get("VERIF_TIER", "quick")
CROSS_CHECK_MS = None        # cap (ms) for the thorough tier's cvc5 cross-check of a VC z3 has already discharged; None = the VC budget
CROSS_TIMEOUT_BUDGET_S = 90  # per family: once cross-checks that did NOT conclude have used this much time, later ones get CROSS_SHORT_MS
CROSS_SHORT_MS = 1000        # (the cross-check never changes a verdict by timing out: the VC stays discharged by z3, the backend label says so)
_cross_wasted = 0.0


def reset_cross_budget():
    global _cross_wasted
    _cross_wasted = 0.0


def budget_ms():
    return 60000 if os.environ.get("VERIF_TIER", TIER) == "thorough" else 20000


class Verdict:
    __slots__ = ("status", "backend", "ms", "model", "reason")

    def __init__(self, status, backend, ms, model=None, reason=""):
        self.status = status      # 'discharged' | 'failed' | 'undecided'
        self.backend = backend
        self.ms = ms
        self.model = model        # dict name -> python value (on failed)
        self.reason = reason


def _model_dict(m):
    out = {}
    for d in m.decls():
        v = m[d]
        try:
            if z3.is_int_value(v):
                out[d.name()] = v.as_long()
            elif z3.is_rational_value(v):
                n, dn = v.numerator_as_long(), v.denominator_as_long()
                out[d.name()] = n / dn if dn != 1 else float(n)
            elif z3.is_true(v) or z3.is_false(v):
                out[d.name()] = z3.is_true(v)
            else:
                out[d.name()] = str(v)
        except Exception:
            out[d.name()] = str(v)
    return out


def _cvc5(hyps, goal, timeout_ms):
    s = z3.Solver()
    for h in hyps:
        s.add(h)
    s.add(z3.Not(goal))
    text = "(set-logic ALL)\n" + s.to_smt2()
    with tempfile.NamedTemporaryFile("w", suffix=".smt2", delete=False, dir=os.environ.get("TMPDIR", "/tmp")) as f:
        f.write(text)
        name = f.name
    try:
        r = subprocess.run([CVC5, "--lang=smt2", f"--tlimit={timeout_ms}", name],
                           capture_output=True, text=True, timeout=timeout_ms / 1000 + 5)
        out = r.stdout.strip().splitlines()
        return out[0] if out else "unknown"
    except Exception:
        return "unknown"
    finally:
        try:
            os.unlink(name)
        except OSError:
            pass


def prove(hyps, goal, timeout_ms=None, both=None):
    """Is ``And(hyps) => goal`` valid?"""
    timeout_ms = timeout_ms or budget_ms()
    if both is None:
        both = os.environ.get("VERIF_TIER", TIER) == "thorough"
    t0 = time.time()
    g = z3.simplify(goal) if isinstance(goal, z3.ExprRef) else z3.BoolVal(bool(goal))
    if z3.is_true(g):
        return Verdict("discharged", "z3-simplify", (time.time() - t0) * 1000)
    s = z3.Solver()
    s.set("timeout", timeout_ms)
    for h in hyps:
        s.add(h)
    s.add(z3.Not(g))
    r = s.check()
    ms = (time.time() - t0) * 1000
    if r == z3.unsat:
        if both:
            global _cross_wasted
            cap = min(timeout_ms, CROSS_CHECK_MS) if CROSS_CHECK_MS else timeout_ms
            if _cross_wasted > CROSS_TIMEOUT_BUDGET_S:
                cap = min(cap, CROSS_SHORT_MS)
            tc = time.time()
            c = _cvc5(hyps, g, cap)
            if c not in ("sat", "unsat"):
                _cross_wasted += time.time() - tc
            if c == "sat":
                return Verdict("undecided", "z3+cvc5", ms, reason="z3 says valid, cvc5 finds a counter-model (solver disagreement)")
            return Verdict("discharged", "z3+cvc5" if c == "unsat" else "z3", (time.time() - t0) * 1000)
        return Verdict("discharged", "z3", ms)
    if r == z3.sat:
        return Verdict("failed", "z3", ms, model=_model_dict(s.model()))
    c = _cvc5(hyps, g, timeout_ms)
    ms = (time.time() - t0) * 1000
    if c == "unsat":
        return Verdict("discharged", "cvc5", ms)
    return Verdict("undecided", "z3,cvc5", ms, reason=f"z3: {s.reason_unknown()}; cvc5: {c}")


def satisfiable(conds, timeout_ms=5000):
    s = z3.Solver()
    s.set("timeout", timeout_ms)
    for c in conds:
        s.add(c)
    return s.check() == z3.sat
