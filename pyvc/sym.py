"""Proxy values and the path explorer.

The real code objects of /repo are executed by CPython.  Numbers the contract
leaves symbolic are SymInt / SymReal / SymBool proxies carrying z3 terms; every
branch on symbolic data passes through ``__bool__`` / ``__index__`` and is
decided by the path oracle (``Ctx.decide``), which forks by re-execution with a
recorded decision prefix.
"""
from __future__ import annotations

import fractions
import os
import time
import z3

z3.set_param("model.completion", True)


class Infeasible(BaseException):
    """The current path condition became unsatisfiable."""


class Unsupported(BaseException):
    """A proxy was used in a way the encoding does not model.  BaseException so
    that no ``except Exception`` in the code under test can swallow it; the
    obligation becomes *undecided*, never discharged."""


class PathLimit(BaseException):
    pass


_FEAS_TIMEOUT_MS = 3000


MAX_DECISIONS = 20000


class Ctx:
    """One execution of the code under contract along one path."""

    current: "Ctx | None" = None

    def __init__(self, prefix=()):
        self.prefix = list(prefix)
        self.decisions = []
        self.pc = []          # quantifier-free path condition (z3 BoolRefs)
        self.facts = []       # extra (possibly quantified) hypotheses, used only when proving
        self.pending = []
        self.solver = z3.Solver()
        self.solver.set("timeout", _FEAS_TIMEOUT_MS)
        self.names = {}
        self.ghost = {}
        self.log = []
        self._dm = {}

    # -- fresh symbols (names are stable across re-executions) -------------
    def _name(self, base):
        n = self.names.get(base, 0)
        self.names[base] = n + 1
        return base if n == 0 else f"{base}#{n}"

    def int(self, name):
        return SymInt(z3.Int(self._name(name)))

    def real(self, name):
        return SymReal(z3.Real(self._name(name)))

    def bool(self, name):
        return SymBool(z3.Bool(self._name(name)))

    # -- path condition -----------------------------------------------------
    def assume(self, cond):
        c = _tobool(cond)
        c = z3.simplify(c)
        if z3.is_true(c):
            return
        self.pc.append(c)
        self.solver.add(c)
        if z3.is_false(c) or self.solver.check() == z3.unsat:
            raise Infeasible()

    def fact(self, cond):
        """Hypothesis used only for validity proofs (may be quantified)."""
        self.facts.append(cond)

    def _feasible(self, c):
        self.solver.push()
        try:
            self.solver.add(c)
            r = self.solver.check()
        finally:
            self.solver.pop()
        return r != z3.unsat      # unknown counts as feasible (over-approximation)

    def decide(self, cond):
        c = z3.simplify(_tobool(cond))
        if z3.is_true(c):
            return True
        if z3.is_false(c):
            return False
        i = len(self.decisions)
        self.ndecide = getattr(self, "ndecide", 0) + 1
        if self.ndecide > MAX_DECISIONS:
            raise Unsupported(f"more than {MAX_DECISIONS} branch decisions on one path (non-termination of the code under contract suspected)")
        if i < len(self.prefix):
            v = self.prefix[i]
        else:
            t = self._feasible(c)
            f = self._feasible(z3.Not(c))
            if t and f:
                v = True
                self.pending.append(self.decisions + [False])
            elif t:
                v = True
            elif f:
                v = False
            else:
                raise Infeasible()
        self.decisions.append(v)
        lit = c if v else z3.Not(c)
        self.pc.append(lit)
        self.solver.add(lit)
        return v

    def divmod_const(self, t, m):
        """Definitional extension: fresh q, r with t == m*q + r, 0 <= r < m
        (Python floor semantics for a positive constant m).  Keeps VCs in linear
        integer arithmetic; sound because q, r are uniquely determined by t."""
        assert isinstance(m, int) and m > 0
        t = z3.simplify(t)
        if z3.is_int_value(t):
            v = t.as_long()
            return z3.IntVal(v // m), z3.IntVal(v % m)
        key = (t.get_id(), m)
        hit = self._dm.get(key)
        if hit is not None:
            return hit[1], hit[2]
        n = len(self._dm)
        q, r = z3.Int(f"q!{n}"), z3.Int(f"r!{n}")
        d = z3.And(t == m * q + r, r >= 0, r < m)
        self._dm[key] = (t, q, r)
        self.pc.append(d)
        self.solver.add(d)
        return q, r

    def concretize(self, term, limit=64):
        """Value-fork: return a concrete int for an Int term, enumerating all
        feasible values over the re-executions (complete when the solver says no
        further value is feasible -- the unwinding assertion)."""
        t = z3.simplify(term)
        if z3.is_int_value(t):
            return t.as_long()
        for _ in range(limit):
            i = len(self.decisions)
            if i < len(self.prefix):
                _, v, b = self.prefix[i]
            else:
                r = self.solver.check()
                if r == z3.unsat:
                    raise Infeasible()
                if r != z3.sat:
                    raise Unsupported("cannot enumerate values of " + str(t))
                v = self.solver.model().eval(t, model_completion=True).as_long()
                b = True
                if self._feasible(t != v):
                    self.pending.append(self.decisions + [("v", v, False)])
            self.decisions.append(("v", v, b))
            lit = (t == v) if b else (t != v)
            self.pc.append(lit)
            self.solver.add(lit)
            if b:
                return v
        raise Unsupported("value enumeration limit for " + str(t))


class _Active:
    def __init__(self, ctx):
        self.ctx = ctx

    def __enter__(self):
        self.prev = Ctx.current
        Ctx.current = self.ctx
        return self.ctx

    def __exit__(self, *a):
        Ctx.current = self.prev
        return False


def cur() -> Ctx:
    c = Ctx.current
    if c is None:
        raise Unsupported("symbolic value used outside a path context")
    return c


class Path:
    __slots__ = ("kind", "out", "pc", "facts", "decisions", "ghost", "exc")

    def __init__(self, ctx, kind, out):
        self.kind = kind          # 'ok' | 'raise' | 'unsupported'
        self.out = out
        self.pc = list(ctx.pc)
        self.facts = list(ctx.facts)
        self.decisions = list(ctx.decisions)
        self.ghost = ctx.ghost
        self.exc = out if kind != "ok" else None

    def cond(self):
        return z3.And(*self.pc) if self.pc else z3.BoolVal(True)


class PathTimeout(BaseException):
    """One path of the code under contract ran longer than the per-path budget."""


PATH_BUDGET_S = float(os.environ.get("VERIF_PATH_BUDGET", "20"))
EXPLORE_DEADLINE = None      # absolute time.time() after which explore() gives up with PathLimit (set by sampled families per program)


def _on_alarm(signum, frame):
    raise PathTimeout()


def explore(run, max_paths=4000):
    """Run ``run(ctx)`` once per feasible path.  Returns list[Path].
    Each path has a wall-clock budget (the code under contract is real code and may not terminate on a changed tree -- e.g. a loop whose
    increment was lost): a path that exceeds it is recorded as unsupported (-> UNDECIDED), never as held or violated."""
    import signal
    import threading
    use_alarm = threading.current_thread() is threading.main_thread() and PATH_BUDGET_S > 0
    pending = [[]]
    paths = []
    while pending:
        if EXPLORE_DEADLINE is not None and time.time() > EXPLORE_DEADLINE:
            raise PathLimit("exploration deadline of the caller exceeded")
        prefix = pending.pop()
        ctx = Ctx(prefix)
        with _Active(ctx):
            if use_alarm:
                prev = signal.signal(signal.SIGALRM, _on_alarm)
                signal.setitimer(signal.ITIMER_REAL, PATH_BUDGET_S)
            try:
                out = run(ctx)
                kind = "ok"
            except Infeasible:
                pending.extend(ctx.pending)
                continue
            except Unsupported as e:
                kind, out = "unsupported", e
            except PathTimeout:
                kind, out = "unsupported", Unsupported(f"one path ran longer than {PATH_BUDGET_S:g} s (non-termination of the code under contract suspected)")
                ctx.pending = []
            except (KeyboardInterrupt, PathLimit):
                raise
            except BaseException as e:  # the code under test raised
                kind, out = "raise", e
            finally:
                if use_alarm:
                    signal.setitimer(signal.ITIMER_REAL, 0)
                    signal.signal(signal.SIGALRM, prev)
        pending.extend(ctx.pending)
        paths.append(Path(ctx, kind, out))
        if len(paths) > max_paths:
            raise PathLimit(f"more than {max_paths} paths")
    return paths


# ---------------------------------------------------------------------------
# conversions

def _q(f):
    fr = fractions.Fraction(f)
    return z3.Q(fr.numerator, fr.denominator)


def _tobool(x):
    if isinstance(x, SymBool):
        return x.t
    if isinstance(x, bool):
        return z3.BoolVal(x)
    if isinstance(x, z3.BoolRef):
        return x
    if isinstance(x, SymInt) or isinstance(x, SymReal):
        return x.t != 0
    raise Unsupported(f"not a boolean: {x!r}")


def is_sym(x):
    return isinstance(x, (SymInt, SymReal, SymBool))


def term(x):
    """z3 term of a Python or proxy number."""
    if isinstance(x, (SymInt, SymReal, SymBool)):
        return x.t
    if isinstance(x, bool):
        return z3.IntVal(1 if x else 0)
    if isinstance(x, int):
        return z3.IntVal(x)
    if isinstance(x, float):
        return _q(x)
    if isinstance(x, z3.ExprRef):
        return x
    raise Unsupported(f"no term for {type(x).__name__}")


def _lift(a, b):
    """Bring two numeric operands to a common z3 sort.  Returns (ta, tb, isreal)."""
    ta, tb = term(a), term(b)
    if z3.is_bool(ta):
        ta = z3.If(ta, 1, 0)
    if z3.is_bool(tb):
        tb = z3.If(tb, 1, 0)
    ra, rb = ta.sort() == z3.RealSort(), tb.sort() == z3.RealSort()
    if ra or rb:
        if not ra:
            ta = z3.ToReal(ta)
        if not rb:
            tb = z3.ToReal(tb)
        return ta, tb, True
    return ta, tb, False


def _num(t, real):
    t = z3.simplify(t)
    return SymReal(t) if real else SymInt(t)


def _okother(o):
    return isinstance(o, (int, float, SymInt, SymReal, SymBool)) and not isinstance(o, complex)


def floordiv_int(a, b):
    """Python floor division on Int terms (z3's div is Euclidean: floor for a
    positive divisor)."""
    bs = z3.simplify(b) if z3.is_expr(b) else z3.IntVal(b)
    if z3.is_int_value(bs):
        bv = bs.as_long()
        if bv > 0:
            return a / bs
        if bv < 0:
            return (-a) / z3.IntVal(-bv)
    return z3.If(b > 0, a / b, (-a) / (-b))


def mod_int(a, b):
    bs = z3.simplify(b) if z3.is_expr(b) else z3.IntVal(b)
    if z3.is_int_value(bs) and bs.as_long() > 0:
        return a % bs
    return a - b * floordiv_int(a, b)


def trunc_real(r):
    """Truncation toward zero of a Real term, as an Int term."""
    return z3.If(r >= 0, z3.ToInt(r), -z3.ToInt(-r))


class FormatTrace:
    """Opt-in tracing of number formatting: inside `with FormatTrace() as ft:` a
    symbolic number formats as the token \u27e6k\u27e7 and ft.terms[k] is its term.  Only
    for obligations about *formatted output* of code that does not compare strings."""
    active = None

    def __init__(self):
        self.terms = []

    def __enter__(self):
        self.prev = FormatTrace.active
        FormatTrace.active = self
        return self

    def __exit__(self, *a):
        FormatTrace.active = self.prev
        return False

    def token(self, t):
        self.terms.append(t)
        return "\u27e6%d\u27e7" % (len(self.terms) - 1)

    def parse(self, text):
        """-> list of str / z3 terms alternating"""
        import re
        out = []
        for part in re.split("(\u27e6\\d+\u27e7)", text):
            if part.startswith("\u27e6"):
                out.append(self.terms[int(part[1:-1])])
            elif part:
                out.append(part)
        return out


class FloatUF:
    """Opt-in IEEE view of float arithmetic: inside `with FloatUF():` the four float operators are UNINTERPRETED functions fadd / fsub /
    fmul / fdiv over the reals instead of the real operators.  Two results are then provably equal only if they are the same operator
    applied to the same operands -- x * (1 / s) is not x / s, (a + b) + c is not a + (b + c) -- which is what "computed as written"
    means for IEEE doubles.  Kept: commutativity of + and * (operands are put in a canonical order), x + 0 = x, x - 0 = x, x * 1 = x,
    x / 1 = x (exact in IEEE up to the sign of zero).  Comparisons, negation and int <-> float conversion stay exact."""
    active = False

    def __enter__(self):
        self.prev = FloatUF.active
        FloatUF.active = True
        return self

    def __exit__(self, *a):
        FloatUF.active = self.prev
        return False


_FUF = {}


def fop(name, a, b):
    """Result term of the float operator `name` (add, sub, mul, div) on two Real terms, under the current float model."""
    if not FloatUF.active:
        return {"add": lambda: a + b, "sub": lambda: a - b, "mul": lambda: a * b, "div": lambda: a / b}[name]()
    a, b = z3.simplify(a), z3.simplify(b)

    def isnum(t, v):
        return z3.is_rational_value(t) and t.numerator_as_long() == v * t.denominator_as_long()
    if name == "add":
        if isnum(a, 0):
            return b
        if isnum(b, 0):
            return a
    if name == "sub" and isnum(b, 0):
        return a
    if name == "mul":
        if isnum(a, 1):
            return b
        if isnum(b, 1):
            return a
    if name == "div" and isnum(b, 1):
        return a
    if name not in _FUF:
        _FUF[name] = z3.Function("f" + name, z3.RealSort(), z3.RealSort(), z3.RealSort())
    if name in ("add", "mul") and str(a) > str(b):
        a, b = b, a
    return _FUF[name](a, b)


class _Num:
    __slots__ = ("t",)
    _real = False

    def __hash__(self):
        raise Unsupported("symbolic number used as a hash key")

    def __deepcopy__(self, memo):
        return self          # immutable

    def __copy__(self):
        return self

    def __repr__(self):
        if FormatTrace.active is not None:
            return FormatTrace.active.token(self.t)
        raise Unsupported("symbolic number stringified")

    __str__ = __repr__

    def __format__(self, spec):
        if FormatTrace.active is not None and spec == "":
            return FormatTrace.active.token(self.t)
        raise Unsupported("symbolic number formatted")

    # arithmetic ----------------------------------------------------------
    def _bin(self, o, f, swap=False, name=None):
        if not _okother(o):
            return NotImplemented
        a, b = (o, self) if swap else (self, o)
        ta, tb, real = _lift(a, b)
        if real and FloatUF.active and name is not None:
            return SymReal(fop(name, ta, tb))
        return _num(f(ta, tb), real)

    def __add__(self, o):
        return self._bin(o, lambda a, b: a + b, name="add")

    def __radd__(self, o):
        return self._bin(o, lambda a, b: a + b, True, name="add")

    def __sub__(self, o):
        return self._bin(o, lambda a, b: a - b, name="sub")

    def __rsub__(self, o):
        return self._bin(o, lambda a, b: a - b, True, name="sub")

    def __mul__(self, o):
        return self._bin(o, lambda a, b: a * b, name="mul")

    def __rmul__(self, o):
        return self._bin(o, lambda a, b: a * b, True, name="mul")

    def _truediv(self, o, swap):
        if not _okother(o):
            return NotImplemented
        a, b = (o, self) if swap else (self, o)
        ta, tb, _ = _lift(a, b)
        if ta.sort() != z3.RealSort():
            ta, tb = z3.ToReal(ta), z3.ToReal(tb)
        if cur().decide(tb == 0):
            raise ZeroDivisionError("division by zero")
        if FloatUF.active:
            return SymReal(fop("div", ta, tb))
        return SymReal(z3.simplify(ta / tb))

    def __truediv__(self, o):
        return self._truediv(o, False)

    def __rtruediv__(self, o):
        return self._truediv(o, True)

    def _floordiv(self, o, swap, mod):
        if not _okother(o):
            return NotImplemented
        a, b = (o, self) if swap else (self, o)
        ta, tb, real = _lift(a, b)
        if cur().decide(tb == 0):
            raise ZeroDivisionError("integer division or modulo by zero")
        if real:
            q = z3.ToReal(z3.ToInt(ta / tb))        # floor
            return SymReal(z3.simplify(ta - tb * q if mod else q))
        return SymInt(z3.simplify(mod_int(ta, tb) if mod else floordiv_int(ta, tb)))

    def __floordiv__(self, o):
        return self._floordiv(o, False, False)

    def __rfloordiv__(self, o):
        return self._floordiv(o, True, False)

    def __mod__(self, o):
        return self._floordiv(o, False, True)

    def __rmod__(self, o):
        return self._floordiv(o, True, True)

    def __neg__(self):
        return _num(-self.t, self._real)

    def __pos__(self):
        return self

    def __abs__(self):
        return _num(z3.If(self.t >= 0, self.t, -self.t), self._real)

    # comparisons ---------------------------------------------------------
    def _cmp(self, o, f):
        if not _okother(o):
            return NotImplemented
        ta, tb, _ = _lift(self, o)
        return SymBool(z3.simplify(f(ta, tb)))

    def __lt__(self, o):
        return self._cmp(o, lambda a, b: a < b)

    def __le__(self, o):
        return self._cmp(o, lambda a, b: a <= b)

    def __gt__(self, o):
        return self._cmp(o, lambda a, b: a > b)

    def __ge__(self, o):
        return self._cmp(o, lambda a, b: a >= b)

    def __eq__(self, o):
        if not _okother(o):
            return False if o is None or not isinstance(o, z3.ExprRef) else NotImplemented
        return self._cmp(o, lambda a, b: a == b)

    def __ne__(self, o):
        if not _okother(o):
            return True if o is None or not isinstance(o, z3.ExprRef) else NotImplemented
        return self._cmp(o, lambda a, b: a != b)

    def __bool__(self):
        return cur().decide(self.t != 0)


class SymInt(_Num):
    __slots__ = ()
    _real = False

    def __init__(self, t):
        self.t = t

    def __index__(self):
        return cur().concretize(self.t)

    def __int__(self):
        return cur().concretize(self.t)

    def __trunc__(self):
        return self

    def __floor__(self):
        return self

    def __ceil__(self):
        return self

    def __round__(self, n=None):
        return self

    def bit_length(self):
        """Case split on the bit length (complete: the path oracle proves that
        no further length is feasible).  Returns a concrete int per path."""
        c = cur()
        a = self.t if c.decide(self.t >= 0) else -self.t    # case split on the sign
        if c.decide(a == 0):
            return 0
        for k in range(1, 65):
            if c.decide(a < 2 ** k):
                return k
        raise Unsupported("bit_length of a value not bounded by 2^64")

    # bit operations, through div/mod by powers of two (Python floor semantics)
    @staticmethod
    def _pow2mask(c):
        return isinstance(c, int) and not isinstance(c, bool) and c >= 0 and (c & (c + 1)) == 0

    def __and__(self, o):
        if isinstance(o, SymInt):
            o2 = z3.simplify(o.t)
            if z3.is_int_value(o2):
                o = o2.as_long()
        if self._pow2mask(o):
            return SymInt(cur().divmod_const(self.t, o + 1)[1])
        if isinstance(o, int) and o >= 0 and bin(o).count("1") == 1:
            # single bit 2^k:  ((v >> k) mod 2) * 2^k
            k = o.bit_length() - 1
            q = cur().divmod_const(self.t, 2 ** k)[0]
            return SymInt(z3.simplify(cur().divmod_const(q, 2)[1] * o))
        raise Unsupported(f"& with non-mask operand {o!r}")

    __rand__ = __and__

    def __or__(self, o):
        if isinstance(o, SymInt):
            o2 = z3.simplify(o.t)
            if z3.is_int_value(o2):
                o = o2.as_long()
        if isinstance(o, int) and o >= 0 and bin(o).count("1") == 1:
            k = o.bit_length() - 1
            q = cur().divmod_const(self.t, 2 ** k)[0]
            bit = cur().divmod_const(q, 2)[1]
            return SymInt(z3.simplify(self.t + z3.If(bit == 0, o, 0)))
        if o == 0:
            return self
        raise Unsupported(f"| with operand {o!r}")

    __ror__ = __or__

    def __rshift__(self, o):
        if isinstance(o, int) and o >= 0:
            return SymInt(cur().divmod_const(self.t, 2 ** o)[0])
        raise Unsupported(">> with symbolic shift")

    def __lshift__(self, o):
        if isinstance(o, int) and o >= 0:
            return SymInt(z3.simplify(self.t * (2 ** o)))
        raise Unsupported("<< with symbolic shift")

    def __invert__(self):
        return SymInt(z3.simplify(-self.t - 1))

    def __xor__(self, o):
        raise Unsupported("^ on symbolic int")

    def __pow__(self, o):
        if isinstance(o, int) and 0 <= o <= 4:
            r = SymInt(z3.IntVal(1))
            for _ in range(o):
                r = r * self
            return r
        raise Unsupported("** on symbolic int")


class SymReal(_Num):
    __slots__ = ()
    _real = True

    def __init__(self, t):
        self.t = t

    def __trunc__(self):
        return SymInt(z3.simplify(trunc_real(self.t)))

    def __floor__(self):
        return SymInt(z3.simplify(z3.ToInt(self.t)))

    def __ceil__(self):
        return SymInt(z3.simplify(-z3.ToInt(-self.t)))

    def __round__(self, n=None):
        raise Unsupported("round() of a symbolic real")

    def __index__(self):
        raise TypeError("'float' object cannot be interpreted as an integer")

    def is_integer(self):
        return SymBool(z3.simplify(z3.ToReal(z3.ToInt(self.t)) == self.t))


class SymBool:
    __slots__ = ("t",)

    def __init__(self, t):
        self.t = t

    def __bool__(self):
        return cur().decide(self.t)

    def __hash__(self):
        raise Unsupported("symbolic bool used as a hash key")

    def __repr__(self):
        raise Unsupported("symbolic bool stringified")

    def __invert__(self):
        return SymBool(z3.simplify(z3.Not(self.t)))

    def __and__(self, o):
        return SymBool(z3.simplify(z3.And(self.t, _tobool(o))))

    __rand__ = __and__

    def __or__(self, o):
        return SymBool(z3.simplify(z3.Or(self.t, _tobool(o))))

    __ror__ = __or__

    def __eq__(self, o):
        if isinstance(o, (SymBool, bool)):
            return SymBool(z3.simplify(self.t == _tobool(o)))
        if isinstance(o, (int, SymInt)):
            return SymBool(z3.simplify(z3.If(self.t, 1, 0) == term(o)))
        return False

    def __ne__(self, o):
        r = self.__eq__(o)
        return ~r if isinstance(r, SymBool) else not r

    # bools are ints in Python
    def _asint(self):
        return SymInt(z3.If(self.t, z3.IntVal(1), z3.IntVal(0)))

    def __add__(self, o):
        return self._asint() + o

    __radd__ = __add__

    def __mul__(self, o):
        return self._asint() * o

    __rmul__ = __mul__

    def __index__(self):
        return 1 if cur().decide(self.t) else 0


# ---------------------------------------------------------------------------
# builtin shims (bound into the globals of the module under verification)

_real_float, _real_int, _real_isinstance, _real_len, _real_bytes = float, int, isinstance, len, bytes
_real_abs, _real_bool = abs, bool


def sym_float(x=0.0):
    if isinstance(x, SymReal):
        return x
    if isinstance(x, SymInt):
        return SymReal(z3.simplify(z3.ToReal(x.t)))
    if isinstance(x, SymBool):
        return SymReal(z3.simplify(z3.ToReal(z3.If(x.t, 1, 0))))
    return _real_float(x)


def sym_int(x=0, *a):
    if isinstance(x, SymInt):
        return x
    if isinstance(x, SymReal):
        return x.__trunc__()
    if isinstance(x, SymBool):
        return x._asint()
    return _real_int(x, *a)


class _IntMeta(type):
    def __instancecheck__(cls, o):
        return _real_isinstance(o, (int, SymInt, SymBool))


class _FloatMeta(type):
    def __instancecheck__(cls, o):
        return _real_isinstance(o, (float, SymReal))


def sym_isinstance(o, cls):
    """isinstance that treats SymInt as int and SymReal as float."""
    if _real_isinstance(o, SymInt):
        return _sub(int, cls)
    if _real_isinstance(o, SymReal):
        return _sub(float, cls)
    if _real_isinstance(o, SymBool):
        return _sub(bool, cls)
    return _real_isinstance(o, cls)


def _sub(base, cls):
    if _real_isinstance(cls, tuple):
        return any(_sub(base, c) for c in cls)
    try:
        return issubclass(base, cls)
    except TypeError:
        import typing
        args = typing.get_args(cls)
        return any(_sub(base, c) for c in args)


class SymBytes:
    """Result of bytes([...]) with symbolic elements: a list of byte terms."""

    def __init__(self, items):
        self.items = list(items)

    def __len__(self):
        return len(self.items)

    def __iter__(self):
        return iter(self.items)

    def __getitem__(self, i):
        return self.items[i]

    def __eq__(self, o):
        raise Unsupported("comparison of symbolic bytes")

    __hash__ = None


def sym_bytes(x=b"", *a):
    if _real_isinstance(x, (list, tuple)) and any(is_sym(e) for e in x):
        return SymBytes(x)
    return _real_bytes(x, *a)


class SymList:
    """A list of SYMBOLIC LENGTH with integer elements: a z3 array Int -> Int plus a length term.  Supports what the loops under
    contract do to their accumulators: append, element reads with symbolic indices (Python semantics: negative indices count from
    the end, out of range raises IndexError).  len() needs the `sym_len` shim (CPython insists on a machine int from __len__);
    iteration and slicing are unsupported (-> UNDECIDED, never a verdict)."""

    def __init__(self, arr, n):
        self.arr = arr
        self.n = term(n)

    def append(self, v):
        if not (is_sym(v) or _real_isinstance(v, int)):
            raise Unsupported(f"SymList.append of {type(v).__name__}")
        self.arr = z3.Store(self.arr, self.n, term(v))
        self.n = self.n + 1

    def __getitem__(self, i):
        if _real_isinstance(i, slice):
            raise Unsupported("slice of a symbolic-length list")
        it = term(i)
        c = cur()
        if c.decide(it < 0):
            it = it + self.n
        if not c.decide(z3.And(it >= 0, it < self.n)):
            raise IndexError("list index out of range")
        return SymInt(z3.Select(self.arr, it))

    def __len__(self):
        raise Unsupported("len() of a symbolic-length list without the sym_len shim")

    def __iter__(self):
        raise Unsupported("iteration over a symbolic-length list")

    def __deepcopy__(self, memo):
        return SymList(self.arr, self.n)

    __hash__ = None


def sym_len(x):
    if _real_isinstance(x, SymList):
        return SymInt(x.n)
    n = getattr(x, "sym_length", None)
    if n is not None:
        return n
    return len(x)


def seq_view(x):
    """(z3 array, z3 length) of a SymList or of a concrete list of ints / SymInts."""
    if _real_isinstance(x, SymList):
        return x.arr, x.n
    if _real_isinstance(x, list):
        a = z3.K(z3.IntSort(), z3.IntVal(0))
        for i, v in enumerate(x):
            if not (is_sym(v) or _real_isinstance(v, int)):
                raise Unsupported(f"sequence element of type {type(v).__name__}")
            a = z3.Store(a, i, term(v))
        return a, z3.IntVal(len(x))
    raise Unsupported(f"not a list: {type(x).__name__}")


class All:
    """forall i in [lo, hi): body(i).  Used WITHOUT quantifiers: a hypothesis is instantiated explicitly (`at`), a goal is proved for a
    fresh, unconstrained index (skolemisation).  Both are sound; the instantiation points are proof hints listed in the contract."""

    def __init__(self, lo, hi, body):
        self.lo, self.hi, self.body = term(lo), term(hi), body

    def at(self, t):
        t = term(t)
        return z3.Implies(z3.And(self.lo <= t, t < self.hi), self.body(t))
