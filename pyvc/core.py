"""Obligation families, recorder, and the registry."""
from __future__ import annotations

import contextlib
import io
import os
import sys
import time
import traceback

import z3

from . import solver
from .sym import Unsupported, PathLimit

FAMILIES = {}


class Family:
    def __init__(self, name, props, fn, functions, assumptions, doc, tier):
        self.name = name
        self.props = props
        self.fn = fn
        self.functions = functions
        self.assumptions = assumptions
        self.doc = doc
        self.tier = tier


def family(name, props, functions=(), assumptions=(), tier="quick"):
    """Register an obligation family.  ``props``: property ids it serves.
    ``functions``: 'module::QualName' of the real functions under contract."""

    def deco(fn):
        FAMILIES[name] = Family(name, tuple(props), fn, tuple(functions), tuple(assumptions), fn.__doc__ or "", tier)
        return fn

    return deco


class Missing(Exception):
    """A contract target no longer resolves -> undecided, never a violation."""


def resolve(path):
    """'nsl.VM::ExecutionContext.__Execute' -> object (private names mangled)."""
    import importlib

    mod, _, qual = path.partition("::")
    try:
        o = importlib.import_module(mod)
    except Exception as e:  # pragma: no cover
        raise Missing(f"{mod}: {e}")
    cls = None
    for part in qual.split(".") if qual else []:
        name = part
        if part.startswith("__") and not part.endswith("__") and cls is not None:
            name = "_" + cls.lstrip("_") + part
        try:
            o = o.__dict__[name] if isinstance(o, type) and name in o.__dict__ else getattr(o, name)
        except AttributeError:
            raise Missing(f"{path}: no attribute {name}")
        if isinstance(o, type):
            cls = o.__name__
    return o


class Recorder:
    def __init__(self, fam: Family, tier):
        self.fam = fam
        self.tier = tier
        self.results = []
        self.stats = {}

    # -- raw records ------------------------------------------------------
    def _rec(self, oid, fn, status, backend, ms=0.0, detail="", model=None, replay=None, vc=None, paths=None):
        r = dict(id=oid, fn=fn, family=self.fam.name, status=status, backend=backend, ms=round(ms, 2),
                 detail=detail)
        if model is not None:
            r["model"] = model
        if replay is not None:
            r["replay"] = replay
        if vc is not None:
            r["vc"] = vc[:600]
        if paths is not None:
            r["paths"] = paths
        self.results.append(r)
        return r

    def ok(self, oid, fn, backend="exhaustive-finite", ms=0.0, detail="", vc=None, paths=None):
        return self._rec(oid, fn, "discharged", backend, ms, detail, vc=vc, paths=paths)

    def fail(self, oid, fn, detail, model=None, replay=None, backend="exhaustive-finite", ms=0.0, vc=None):
        return self._rec(oid, fn, "failed", backend, ms, detail, model, replay, vc)

    def undecided(self, oid, fn, reason, backend="-"):
        return self._rec(oid, fn, "undecided", backend, 0.0, reason)

    def bounded(self, oid, fn, ok, n, detail="", replay=None):
        """A bounded stand-in: never counted as proved."""
        return self._rec(oid, fn, "bounded-ok" if ok else "failed", f"bounded({n})", 0.0, detail, replay=replay)

    # -- solver-backed ------------------------------------------------------
    def prove(self, oid, fn, hyps, goal, replay=None, detail="", paths=None):
        """Discharge And(hyps) => goal.  ``replay``: callable(model)->replay dict, or dict."""
        try:
            v = solver.prove(list(hyps), goal)
        except z3.Z3Exception as e:
            return self.undecided(oid, fn, f"z3 error: {e}")
        vc = None
        try:
            vc = f"{' & '.join(str(z3.simplify(h)) for h in list(hyps)[:6])} ==> {z3.simplify(goal) if isinstance(goal, z3.ExprRef) else goal}"
        except Exception:
            pass
        if v.status == "discharged":
            return self.ok(oid, fn, v.backend, v.ms, detail, vc=vc, paths=paths)
        if v.status == "failed":
            rp = None
            if callable(replay):
                try:
                    rp = replay(v.model)
                except Exception as e:
                    rp = None
                    detail += f" [replay template error: {e!r}]"
            elif replay is not None:
                rp = replay
            return self.fail(oid, fn, detail or "counter-model found", v.model, rp, v.backend, v.ms, vc)
        return self._rec(oid, fn, "undecided", v.backend, v.ms, v.reason, vc=vc)

    def check(self, oid, fn, cond, detail="", replay=None, backend="exhaustive-finite", model=None):
        """A decided (finite / structural) obligation."""
        if cond:
            return self.ok(oid, fn, backend, detail=detail)
        rp = replay(model) if callable(replay) else replay
        return self.fail(oid, fn, detail or "structural obligation failed", model, rp, backend)

    def canary(self, oid, fn, hyps, goal):
        """A perturbed clause that must NOT be provable (vacuity guard)."""
        v = solver.prove(list(hyps), goal, timeout_ms=5000, both=False)
        if v.status == "discharged":
            return self._rec(oid + "#canary", fn, "crash", v.backend, v.ms,
                             "vacuity: a deliberately wrong clause was proved")
        self.stats["canaries"] = self.stats.get("canaries", 0) + 1
        return None

    def cover(self, oid, fn, conds):
        """Preconditions must be satisfiable."""
        if not solver.satisfiable(list(conds)):
            return self._rec(oid + "#cover", fn, "crash", "z3", 0.0, "vacuity: precondition unsatisfiable")
        self.stats["covers"] = self.stats.get("covers", 0) + 1
        return None


def run_family(name, tier):
    """Executed in a forked worker.  Returns (results, stats, log)."""
    fam = FAMILIES[name]
    rec = Recorder(fam, tier)
    buf = io.StringIO()
    t0 = time.time()
    from . import solver as _solver
    _solver.reset_cross_budget()
    try:
        with contextlib.redirect_stdout(buf):
            fam.fn(rec)
    except Missing as e:
        rec.undecided(name + "#target", ",".join(fam.functions), f"contract target missing: {e}")
    except Unsupported as e:
        rec.undecided(name + "#unsupported", ",".join(fam.functions), f"unsupported proxy operation: {e}")
    except PathLimit as e:
        rec.undecided(name + "#paths", ",".join(fam.functions), str(e))
    except BaseException as e:
        # Where was the exception raised?  If the innermost frame is code of the repository under verification, the REAL code raised on a
        # call that the family makes on every run (and that returns on the unchanged tree): the obligations of the family that were still
        # to come cannot hold, and this is reported as a failed obligation of the family (no failing input: the family's concrete call).
        # If it was raised in /verif code (harness, proxies), it is a checker fault.
        tb = traceback.extract_tb(e.__traceback__)
        repo = os.path.abspath(os.environ.get("VERIF_REPO", "/repo")) + os.sep
        inner = tb[-1] if tb else None
        if inner is not None and os.path.abspath(inner.filename).startswith(repo) and not isinstance(e, (KeyboardInterrupt, MemoryError)):
            where = f"{os.path.relpath(inner.filename, repo)}:{inner.lineno} in {inner.name}"
            rec.fail(name + "#real-code-raised", ",".join(fam.functions),
                     f"the code under contract raised {type(e).__name__}: {str(e)[:200]} at {where} while the family was being evaluated "
                     f"(this call returns normally on the tree the contracts were written for); remaining obligations of the family were not evaluated\n"
                     + "".join(traceback.format_tb(e.__traceback__)[-4:])[-1500:])
        else:
            rec._rec(name + "#crash", ",".join(fam.functions), "crash", "-", 0.0, traceback.format_exc()[-3000:])
    rec.stats["wall_s"] = round(time.time() - t0, 3)
    if not rec.results:
        rec._rec(name + "#empty", ",".join(fam.functions), "crash", "-", 0.0, "family produced zero obligations")
    return rec.results, rec.stats, buf.getvalue()[-2000:]
