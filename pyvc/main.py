"""./check driver: run the obligation families of one property, replay failures,
match known findings, write evidence, set the exit code."""
from __future__ import annotations

import argparse
import hashlib
import json
import multiprocessing as mp
import os
import re
import subprocess
import sys
import time

HERE = os.path.dirname(os.path.dirname(os.path.abspath(__file__)))
REPO = os.environ.get("VERIF_REPO", "/repo")
OUT = os.environ.get("VERIF_OUT") or os.path.dirname(os.path.dirname(os.path.abspath(__file__)))     # evidence/ and replays/ are written here (default: /verif)
REPLAY_PY = "/venv/bin/python"
MAX_REPLAYS = 12

GLOBAL_ASSUMPTIONS = [
    "A1 Python int is mathematical; bit operators encoded via div/mod by powers of two; bit_length valid for |v|<2^64",
    "A2 float is modelled as a mathematical real (machine arithmetic treated as mathematical); no obligation sees rounding",
    "A3 CPython 3.12 executes the code under test; trusted: pyvc proxy layer, path oracle, slicer, stubs (guarded by conformance self-tests in the thorough tier)",
    "A4 builtin shims (float,int,isinstance,bytes,len) are the identity on concrete arguments",
    "A5 set iteration order: obligations with set-valued inputs are run for every order",
    "A6 no concurrency, no signals",
    "Composition of per-function contracts into the whole-program statement is a paper argument (DESIGN.md section 4), not mechanised",
    "z3 5.1.0 / cvc5 1.0.3 are trusted as back ends (cross-checked against each other in the thorough tier)",
]


def _load_contracts():
    import importlib
    import pkgutil
    import contracts

    for m in pkgutil.iter_modules(contracts.__path__):
        if m.name.endswith("_c"):
            importlib.import_module("contracts." + m.name)


def _worker(args):
    name, tier = args
    os.environ["VERIF_TIER"] = tier
    from . import core

    return name, core.run_family(name, tier)


def _known():
    p = os.path.join(HERE, "known_findings.json")
    if not os.path.exists(p):
        return {"findings": [], "fixed": []}
    return json.load(open(p))


def _match(finding, result):
    if "obligations" in finding:
        return result["id"] in finding["obligations"]
    pat = finding["obligation"]
    if pat.endswith("*"):
        return result["id"].startswith(pat[:-1])
    return result["id"] == pat


def _safe(s):
    return re.sub(r"[^A-Za-z0-9_.+-]", "_", s)[:120]


def run_replay(script, timeout=120):
    env = dict(os.environ)
    env["PYTHONPATH"] = REPO
    env.pop("VERIF_TIER", None)
    try:
        r = subprocess.run([REPLAY_PY, "-c", script], capture_output=True, text=True, timeout=timeout, env=env,
                           cwd=os.environ.get("TMPDIR", "/tmp"))
        out = (r.stdout + r.stderr)[-3000:]
        return ("REPLAY-CONFIRMED" in r.stdout), out
    except subprocess.TimeoutExpired:
        return False, "replay timed out"


def main(argv=None):
    ap = argparse.ArgumentParser(prog="check")
    ap.add_argument("prop", nargs="?")
    ap.add_argument("--tier", default=os.environ.get("VERIF_TIER", "quick"), choices=["quick", "thorough"])
    ap.add_argument("--replay")
    ap.add_argument("--list", action="store_true")
    ap.add_argument("--family", action="append", help="run only these families (debugging)")
    ap.add_argument("--jobs", type=int, default=min(16, os.cpu_count() or 4))
    ap.add_argument("-v", action="store_true")
    a = ap.parse_args(argv)
    t0 = time.time()
    seed = int(os.environ.get("VERIF_SEED", "0") or 0)

    if a.replay:
        d = json.load(open(a.replay))
        script = d.get("replay", {}).get("script")
        print(f"obligation {d.get('id')} of {d.get('fn')}: {d.get('detail')}")
        if not script:
            print("no replay input: the verifier gave no failing input for this obligation; verifier output follows")
            print(json.dumps({k: d.get(k) for k in ("model", "vc", "backend")}, indent=1))
            return 0
        ok, out = run_replay(script)
        print(out)
        print("REPLAY " + ("confirmed the violation on the real code" if ok else "did NOT confirm"))
        return 1 if ok else 0

    try:
        import nsl
    except Exception as e:
        print(f"check: cannot import nsl from {REPO}: {e}")
        return 3
    if not os.path.abspath(nsl.__file__).startswith(os.path.abspath(REPO) + os.sep):
        print(f"check: nsl imported from {nsl.__file__}, expected under {REPO}")
        return 3

    from . import core

    _load_contracts()
    if a.list:
        for n, f in sorted(core.FAMILIES.items()):
            print(f"{n:40s} {','.join(f.props):30s} {f.tier}")
        return 0
    if not a.prop:
        ap.error("property id required")
    prop = a.prop
    # ALL: every family once (development aid for mutation campaigns; no property claims it, the evidence goes to evidence/ALL.json)
    fams = [f for f in core.FAMILIES.values() if prop in f.props or prop == "ALL"]
    if a.tier == "quick":
        fams = [f for f in fams if f.tier == "quick"]
    if a.family:
        fams = [f for f in fams if f.name in a.family]
    if not fams:
        print(f"check: no obligation families registered for {prop}")
        return 3

    ctx = mp.get_context("fork")
    results, stats, crashed = [], {}, []
    with ctx.Pool(processes=min(a.jobs, len(fams)), maxtasksperchild=1) as pool:
        asyncs = [(f, pool.apply_async(_worker, ((f.name, a.tier),))) for f in fams]
        for f, ar in asyncs:
            try:
                name, (res, st, log) = ar.get(timeout=3600 if a.tier == "thorough" else 900)
            except mp.TimeoutError:
                res, st = [dict(id=f.name + "#timeout", fn=",".join(f.functions), family=f.name,
                                status="undecided", backend="-", ms=0, detail="family timed out")], {}
            except Exception as e:  # worker died
                res, st = [dict(id=f.name + "#crash", fn=",".join(f.functions), family=f.name,
                                status="crash", backend="-", ms=0, detail=repr(e))], {}
            results.extend(res)
            stats[f.name] = st

    known = _known()
    violations, knowns, undecided, crashes, bounded = [], [], [], [], []
    unconfirmed = []
    discharged = []
    for r in results:
        s = r["status"]
        if s == "discharged":
            discharged.append(r)
        elif s == "bounded-ok":
            bounded.append(r)
        elif s == "undecided":
            undecided.append(r)
        elif s == "crash":
            crashes.append(r)
        elif s == "failed":
            k = next((f for f in known.get("findings", []) if _match(f, r)), None)
            if k is not None:
                knowns.append((k, r))
            else:
                violations.append(r)

    # replay unlisted failures on the real code (at most MAX_REPLAYS are executed;
    # the rest are reported with their replay script attached but not run)
    rdir = os.path.join(OUT, "replays", prop)
    lines = []
    todo = [r for r in violations if r.get("replay") and r["replay"].get("script")][:MAX_REPLAYS]
    if todo:
        from concurrent.futures import ThreadPoolExecutor
        with ThreadPoolExecutor(max_workers=8) as ex:
            for r, (confirmed, out) in zip(todo, ex.map(lambda r: run_replay(r["replay"]["script"]), todo)):
                r["replay"]["confirmed"] = confirmed
                r["replay"]["output"] = out
    for r in violations:
        os.makedirs(rdir, exist_ok=True)
        path = os.path.join(rdir, _safe(r["id"]) + ".json")
        rp = r.get("replay") or {}
        r["verifier_output"] = dict(backend=r.get("backend"), model=r.get("model"), vc=r.get("vc"), detail=r.get("detail"))
        json.dump(r, open(path, "w"), indent=1, default=str)
        rel = os.path.relpath(path, OUT)
        if rp.get("confirmed"):
            lines.append(f"VIOLATION property={prop} replay={rel}")
        elif "confirmed" in rp and r.get("backend") == "exhaustive-finite" and not r.get("model"):
            # the obligation was decided by running the real function on concrete inputs (no solver, no proxy layer): its failure is
            # definitive.  The attached script is only an attempt at an end-to-end witness; when it does not show the failure at the
            # program level the violation is reported without a failing input.
            r["replay"]["note"] = "the end-to-end witness attempt did not show the failure; the obligation itself failed on the real function"
            json.dump(r, open(path, "w"), indent=1, default=str)
            lines.append(f"VIOLATION property={prop} replay={rel} obligation={r['id']} no-failing-input-found")
        elif "confirmed" in rp:
            # a counter-model was produced but the real code does not misbehave on it:
            # contract or proxy layer suspect -> undecided, never a violation (DESIGN 2.9)
            unconfirmed.append(r)
        elif rp.get("script"):
            lines.append(f"VIOLATION property={prop} replay={rel} obligation={r['id']} replay-not-executed(cap)")
        else:
            lines.append(f"VIOLATION property={prop} replay={rel} obligation={r['id']} no-failing-input-found")

    shown = {}
    for k, r in knowns:
        shown.setdefault(k.get("id") or r["id"], (k, []))[1].append(r["id"])
    for key, (k, ids) in shown.items():
        print(f"KNOWN-FINDING: property={prop} {key} [{len(ids)} obligation(s), e.g. {ids[0]}] {k.get('what', '')}")
    for r in unconfirmed:
        violations.remove(r)
        r["detail"] = "counter-model did not reproduce on the real code (contract or encoding suspect): " + str(r.get("detail"))
        undecided.append(r)
    for r in undecided:
        print(f"UNDECIDED property={prop} obligation={r['id']} ({str(r['detail'])[:200]})")
    for r in crashes:
        print(f"CHECKER-FAULT property={prop} obligation={r['id']}\n{r['detail'][:1500]}")
    for ln in lines:
        print(ln)

    # ---- evidence ---------------------------------------------------------
    fnmap = {}
    for r in results:
        for fn in str(r["fn"]).split(","):
            d = fnmap.setdefault(fn, dict(obligations=0, discharged=0, failed=0, undecided=0, bounded=0,
                                          backends={}, solver_ms=0.0))
            if r["status"] == "bounded-ok":
                d["bounded"] += 1
                continue
            d["obligations"] += 1
            if r["status"] == "discharged":
                d["discharged"] += 1
            elif r["status"] == "failed":
                d["failed"] += 1
            else:
                d["undecided"] += 1
            d["backends"][r["backend"]] = d["backends"].get(r["backend"], 0) + 1
            d["solver_ms"] = round(d["solver_ms"] + float(r.get("ms", 0)), 2)
    # obligations claimed at proof level: everything generated except the obligations listed as known findings
    # (those are reported separately below and never counted as discharged)
    n_obl = len(discharged) + len(violations) + len(undecided)
    n_all = n_obl + len(knowns)
    backends = {}
    for r in discharged:
        backends[r["backend"]] = backends.get(r["backend"], 0) + 1
    samples = []
    seen = set()
    for r in discharged + [x[1] for x in knowns]:
        key = r["id"].split("[")[0]
        if key in seen:
            continue
        seen.add(key)
        samples.append({k: r[k] for k in ("id", "fn", "status", "backend", "ms", "vc", "detail", "paths") if k in r and r[k] not in ("", None)})
        if len(samples) >= 25:
            break
    fam_assumptions = []
    for f in fams:
        for x in f.assumptions:
            if x not in fam_assumptions:
                fam_assumptions.append(x)
    ev = dict(
        property_id=prop, tier=a.tier, seed=seed, level="proof",
        coverage=dict(
            obligations=n_obl, discharged=len(discharged), obligations_generated=n_all, known_finding_obligations=len(knowns),
            checker_cmd=f"./check {prop} --tier {a.tier}",
            trusted_base=["CPython 3.12.1", "pyvc (proxies, path explorer, slicer, stubs)", "z3 5.1.0", "cvc5 1.0.3",
                          "reference semantics in /verif/contracts (IRsem, LEB128 decoders, typing spec tables)"],
            backends=backends,
            solver_ms=round(sum(float(r.get("ms", 0)) for r in results), 1),
            functions_under_contract=fnmap,
            families={f.name: dict(functions=list(f.functions), **stats.get(f.name, {})) for f in fams},
            known_findings=[dict(obligation=r["id"], what=k.get("what", "")) for k, r in knowns],
            bounded=[dict(id=r["id"], fn=r["fn"], backend=r["backend"], detail=r["detail"]) for r in bounded],
            undecided=[dict(id=r["id"], reason=r["detail"][:300]) for r in undecided],
            violations=[dict(id=r["id"], detail=r["detail"][:300], model=r.get("model")) for r in violations],
            samples=samples,
            repo_head=_head(),
        ),
        assumptions=GLOBAL_ASSUMPTIONS + fam_assumptions,
        wall_s=round(time.time() - t0, 2),
        violations=len(violations),
    )
    os.makedirs(os.path.join(OUT, "evidence"), exist_ok=True)
    json.dump(ev, open(os.path.join(OUT, "evidence", f"{prop}.json"), "w"), indent=1, default=str)

    print(f"{prop}: {len(discharged)}/{n_all} obligations discharged "
          f"({', '.join(f'{k}:{v}' for k, v in sorted(backends.items()))}); "
          f"{len(knowns)} known finding(s), {len(bounded)} bounded, {len(undecided)} undecided, "
          f"{len(violations)} violation(s); {ev['wall_s']} s")
    if violations:
        return 1          # a demonstrated violation outranks a fault of another family
    if crashes:
        return 3
    if undecided:
        return 2
    return 0


def _head():
    try:
        h = subprocess.run(["git", "-C", REPO, "rev-parse", "--short", "HEAD"], capture_output=True, text=True).stdout.strip()
        d = subprocess.run(["git", "-C", REPO, "status", "--porcelain", "--untracked-files=no"], capture_output=True, text=True).stdout.strip()
        return h + ("+dirty" if d else "")
    except Exception:
        return "?"


if __name__ == "__main__":
    sys.exit(main())
