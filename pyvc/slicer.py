"""Mechanical slices of real functions, produced on every run from
inspect.getsource of the live function object.

step_slice(fn, loop_index)   -> function(**state) executing ONE iteration of the
                                n-th loop of fn (the loop test is not evaluated);
                                returns (kind, value, locals) with kind in
                                {'next', 'return', 'break', 'continue'}.
prologue_slice(fn, loop_index) -> function(*params) executing the statements
                                before that loop; returns locals().

What the extraction changes, exhaustively: the chosen statements become the body
of a new function whose parameters are the enclosing function's parameters plus
every name the enclosing function assigns (default None); `return e` becomes
`return ('return', e, locals())`; a `break`/`continue` that belongs to the sliced
loop becomes `return ('break'|'continue', None, locals())`; falling off the end
becomes `return ('next', None, locals())`.  Nothing else: no statement is
edited, reordered or dropped.  The new function is compiled inside a class of the
same name as the original (so private names mangle identically) and executed
with the original module's globals."""
from __future__ import annotations

import ast
import inspect
import textwrap

from .core import Missing


def _source_tree(fn):
    try:
        src = textwrap.dedent(inspect.getsource(fn))
    except (OSError, TypeError) as e:
        raise Missing(f"no source for {fn!r}: {e}")
    src = src.lstrip("﻿")
    tree = ast.parse(src)
    fd = tree.body[0]
    if not isinstance(fd, (ast.FunctionDef,)):
        raise Missing(f"{fn!r}: not a plain function")
    return fd


def _loops(fd):
    """Top-level-first list of loops in the function body (pre-order, not descending into nested defs)."""
    out = []

    def walk(stmts):
        for s in stmts:
            if isinstance(s, (ast.While, ast.For)):
                out.append(s)
                walk(s.body)
                walk(s.orelse)
            elif isinstance(s, (ast.If,)):
                walk(s.body)
                walk(s.orelse)
            elif isinstance(s, (ast.With, ast.Try)):
                walk(getattr(s, "body", []))
                for h in getattr(s, "handlers", []):
                    walk(h.body)
                walk(getattr(s, "orelse", []))
                walk(getattr(s, "finalbody", []))
            elif isinstance(s, ast.Match):
                for c in s.cases:
                    walk(c.body)

    walk(fd.body)
    return out


def _stored_names(fd):
    names = []
    for n in ast.walk(fd):
        if isinstance(n, ast.Name) and isinstance(n.ctx, ast.Store) and n.id not in names:
            names.append(n.id)
        elif isinstance(n, (ast.MatchAs, ast.MatchStar)) and n.name and n.name not in names:
            names.append(n.name)
    return names


class _Rewrite(ast.NodeTransformer):
    """return e -> return ('return', e, locals()); own break/continue -> return (...)"""

    def __init__(self):
        self.depth = 0

    def visit_FunctionDef(self, node):
        return node          # do not touch nested functions

    visit_AsyncFunctionDef = visit_Lambda = visit_FunctionDef

    def visit_Return(self, node):
        val = node.value or ast.Constant(None)
        return ast.copy_location(ast.Return(ast.Tuple([ast.Constant("return"), val, _locals()], ast.Load())), node)

    def _loop(self, node):
        self.depth += 1
        self.generic_visit(node)
        self.depth -= 1
        return node

    visit_While = visit_For = _loop

    def visit_Break(self, node):
        if self.depth == 0:
            return ast.copy_location(ast.Return(ast.Tuple([ast.Constant("break"), ast.Constant(None), _locals()], ast.Load())), node)
        return node

    def visit_Continue(self, node):
        if self.depth == 0:
            return ast.copy_location(ast.Return(ast.Tuple([ast.Constant("continue"), ast.Constant(None), _locals()], ast.Load())), node)
        return node


def _locals():
    return ast.Call(ast.Name("locals", ast.Load()), [], [])


def _build(fn, name, params, body, clsname):
    args = ast.arguments(posonlyargs=[], args=[ast.arg(p) for p in params], kwonlyargs=[], kw_defaults=[],
                         defaults=[ast.Constant(None)] * len(params))
    fd = ast.FunctionDef(name=name, args=args, body=body, decorator_list=[], type_params=[])
    if clsname:
        top = ast.ClassDef(name=clsname, bases=[], keywords=[], body=[fd], decorator_list=[], type_params=[])
    else:
        top = fd
    mod = ast.Module(body=[top], type_ignores=[])
    ast.fix_missing_locations(mod)
    code = compile(mod, f"<slice of {getattr(fn, '__qualname__', fn)}>", "exec")
    ns = dict(fn.__globals__)
    exec(code, ns)
    f = ns[clsname].__dict__[name] if clsname else ns[name]
    # re-bind the code object to the LIVE globals of the original module (so shims bound
    # there during verification are seen, exactly as the original function would see them)
    import types
    g = types.FunctionType(f.__code__, fn.__globals__, f.__name__, f.__defaults__, f.__closure__)
    g.__kwdefaults__ = f.__kwdefaults__
    return g


def _clsname(fn):
    q = getattr(fn, "__qualname__", "")
    parts = q.split(".")
    return parts[-2] if len(parts) >= 2 and parts[-2] != "<locals>" else None


def _params(fd):
    a = fd.args
    return [x.arg for x in a.posonlyargs + a.args + a.kwonlyargs] + ([a.vararg.arg] if a.vararg else []) + ([a.kwarg.arg] if a.kwarg else [])


def step_slice(fn, loop_index=0):
    fd = _source_tree(fn)
    loops = _loops(fd)
    if loop_index >= len(loops):
        raise Missing(f"{fn.__qualname__}: loop #{loop_index} not found ({len(loops)} loops)")
    loop = loops[loop_index]
    params = _params(fd)
    for n in _stored_names(fd):
        if n not in params:
            params.append(n)
    rw = _Rewrite()
    body = [rw.visit(s) for s in loop.body]
    body.append(ast.Return(ast.Tuple([ast.Constant("next"), ast.Constant(None), _locals()], ast.Load())))
    f = _build(fn, "_slice_step", params, body, _clsname(fn))
    f.slice_info = dict(kind="step", loop=loop_index, loop_type=type(loop).__name__, lineno=loop.lineno, params=params,
                        test=ast.unparse(loop.test) if isinstance(loop, ast.While) else ast.unparse(loop.iter))
    return f


def prologue_slice(fn, loop_index=0):
    """Statements of the function body that precede the (top-level) loop."""
    fd = _source_tree(fn)
    loops = _loops(fd)
    if loop_index >= len(loops):
        raise Missing(f"{fn.__qualname__}: loop #{loop_index} not found")
    loop = loops[loop_index]
    if loop not in fd.body:
        raise Missing(f"{fn.__qualname__}: loop #{loop_index} is not a top-level statement")
    pre = fd.body[: fd.body.index(loop)]
    params = _params(fd)
    rw = _Rewrite()
    body = [rw.visit(s) for s in pre]
    body.append(ast.Return(ast.Tuple([ast.Constant("next"), ast.Constant(None), _locals()], ast.Load())))
    f = _build(fn, "_slice_prologue", params, body, _clsname(fn))
    f.slice_info = dict(kind="prologue", loop=loop_index, params=params)
    return f


def epilogue_slice(fn, loop_index=0):
    """Statements after the loop (executed when the loop test fails)."""
    fd = _source_tree(fn)
    loops = _loops(fd)
    loop = loops[loop_index]
    post = fd.body[fd.body.index(loop) + 1:]
    params = _params(fd)
    for n in _stored_names(fd):
        if n not in params:
            params.append(n)
    rw = _Rewrite()
    body = [rw.visit(s) for s in post]
    body.append(ast.Return(ast.Tuple([ast.Constant("return"), ast.Constant(None), _locals()], ast.Load())))
    f = _build(fn, "_slice_epilogue", params, body, _clsname(fn))
    f.slice_info = dict(kind="epilogue", loop=loop_index, params=params)
    return f


def loop_index_of(fn, loop_type="While", ordinal=0):
    """Index (for step_slice/prologue_slice) of the ordinal-th loop of the given type."""
    fd = _source_tree(fn)
    k = -1
    for i, l in enumerate(_loops(fd)):
        if type(l).__name__ == loop_type:
            k += 1
            if k == ordinal:
                return i
    raise Missing(f"{fn.__qualname__}: no {loop_type} loop #{ordinal}")
