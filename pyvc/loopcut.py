"""Loop cut at an inductive invariant: mechanical slices of a real function around its n-th `for` loop, produced on every run from
inspect.getsource of the live function object (same extraction as pyvc.slicer, which see for what it changes).

cut(fn, loop_index) -> Cut with
  .prologue(*params)            -> ('next', None, locals)  the statements before the loop
  .iterable(**state)            -> the value of the loop's iterable expression, evaluated in that state
  .step(cut_elem_=e, **state)   -> (kind, value, locals)   ONE iteration: `<target> = cut_elem_` followed by the unedited loop body
  .epilogue(**state)            -> ('return', value, locals) the statements after the loop
The three proof obligations of a loop cut are then, for an invariant Inv(k, state) supplied by the sidecar contract:
  init      Inv(0, state after the prologue)
  preserve  for an ARBITRARY k (symbolic, 0 <= k < n) and an arbitrary state with Inv(k, state): after step(elem k) Inv(k + 1, state') holds
  exit      from an arbitrary state with Inv(n, state) the epilogue establishes the function's postcondition
which together hold for every number of iterations (induction on k) -- no bound on the length of the sequence.
Not handled (-> Missing, i.e. UNDECIDED): `for ... else`, loops that are not top-level statements of the function."""
from __future__ import annotations

import ast
import copy

from . import slicer
from .core import Missing


class Cut:
    pass


def cut(fn, loop_index=0):
    fd = slicer._source_tree(fn)
    loops = slicer._loops(fd)
    if loop_index >= len(loops):
        raise Missing(f"{fn.__qualname__}: loop #{loop_index} not found ({len(loops)} loops)")
    loop = loops[loop_index]
    if not isinstance(loop, ast.For):
        raise Missing(f"{fn.__qualname__}: loop #{loop_index} is a {type(loop).__name__}, not a for loop")
    if loop.orelse:
        raise Missing(f"{fn.__qualname__}: loop #{loop_index} has an else clause")
    if loop not in fd.body:
        raise Missing(f"{fn.__qualname__}: loop #{loop_index} is not a top-level statement")
    params = slicer._params(fd)
    for n in slicer._stored_names(fd):
        if n not in params:
            params.append(n)
    cls = slicer._clsname(fn)
    c = Cut()
    c.prologue = slicer.prologue_slice(fn, loop_index)
    c.epilogue = slicer.epilogue_slice(fn, loop_index)
    c.iterable = slicer._build(fn, "_slice_iterable", params, [ast.Return(copy.deepcopy(loop.iter))], cls)
    rw = slicer._Rewrite()
    bind = ast.Assign([copy.deepcopy(loop.target)], ast.Name("cut_elem_", ast.Load()))
    body = [bind] + [rw.visit(copy.deepcopy(s)) for s in loop.body]
    body.append(ast.Return(ast.Tuple([ast.Constant("next"), ast.Constant(None), slicer._locals()], ast.Load())))
    c.step = slicer._build(fn, "_slice_cutstep", params + ["cut_elem_"], body, cls)
    c.params = params
    c.info = dict(kind="loop-cut", loop=loop_index, lineno=loop.lineno, iterable=ast.unparse(loop.iter), target=ast.unparse(loop.target),
                  statements_before=fd.body.index(loop), statements_after=len(fd.body) - fd.body.index(loop) - 1)
    return c
