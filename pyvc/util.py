"""Small helpers shared by contract modules."""
from __future__ import annotations

import contextlib
import textwrap

_MISSING = object()


@contextlib.contextmanager
def patched(target, **names):
    """Temporarily bind names in a module's globals / attributes of a class."""
    d = target.__dict__ if not isinstance(target, dict) else target
    old = {}
    for k, v in names.items():
        old[k] = d.get(k, _MISSING)
        if isinstance(target, dict):
            d[k] = v
        else:
            setattr(target, k, v)
    try:
        yield
    finally:
        for k, v in old.items():
            if v is _MISSING:
                if isinstance(target, dict):
                    d.pop(k, None)
                else:
                    try:
                        delattr(target, k)
                    except AttributeError:
                        pass
            else:
                if isinstance(target, dict):
                    d[k] = v
                else:
                    setattr(target, k, v)


def script(_body, **subst):
    """Build a replay script.  The script must print REPLAY-CONFIRMED iff the real
    code misbehaves on the witness."""
    lines = _body.split("\n")
    first = next((l for l in lines if l.strip()), "")
    ind = first[: len(first) - len(first.lstrip())]
    s = "\n".join(l[len(ind):] if l.startswith(ind) else l for l in lines)
    for k, v in subst.items():
        s = s.replace("{{" + k + "}}", repr(v))
    return dict(script=s)


def mangled(obj_or_cls, name):
    cls = obj_or_cls if isinstance(obj_or_cls, type) else type(obj_or_cls)
    for c in cls.__mro__:
        n = f"_{c.__name__.lstrip('_')}{name}"
        if n in c.__dict__:
            return n
    return None


def getpriv(obj, clsname, name):
    """Read obj._<clsname>__<name> (private attribute), raising Missing if renamed."""
    from .core import Missing
    n = f"_{clsname.lstrip('_')}{name}"
    try:
        return getattr(obj, n)
    except AttributeError:
        raise Missing(f"private attribute {n} not found on {type(obj).__name__}")
