"""verify(): explore all paths of a real function on symbolic inputs and discharge
one VC per path per postcondition clause."""
from __future__ import annotations

import time
import traceback

import z3

from . import solver
from .sym import explore, Unsupported


class Goals(list):
    """What ``run(ctx)`` returns: a list of (clause name, z3 Bool | bool)."""


def verify(R, oid, fn, run, replay=None, on_raise=None, label=None, max_paths=4000, require_paths=1):
    """R: Recorder.  run(ctx) executes the real function on fresh symbolic inputs
    and returns an iterable of (clause, goal) pairs evaluated on the result.
    on_raise(exc, ctx_ghost) -> iterable of (clause, goal) for paths on which the
    real code raised (default: any exception is a failed 'no-exception' clause).
    replay(model, clause) -> dict(script=...)."""
    t0 = time.time()
    paths = explore(run, max_paths=max_paths)
    tag = f"[{label}]" if label else ""
    if len(paths) < require_paths:
        R._rec(f"{oid}{tag}#vacuous", fn, "crash", "-", 0.0, f"only {len(paths)} feasible path(s): precondition unsatisfiable?")
        return paths
    agg = {}   # clause -> dict(status, ms, backend set, model, detail, npaths)

    def upd(clause, status, backend, ms, model=None, detail="", vc=None):
        a = agg.setdefault(clause, dict(status="discharged", ms=0.0, backends=set(), model=None, detail="", n=0, vc=None))
        a["n"] += 1
        a["ms"] += ms
        a["backends"].add(backend)
        if vc and not a["vc"]:
            a["vc"] = vc
        rank = {"discharged": 0, "undecided": 1, "failed": 2}
        if rank[status] > rank[a["status"]]:
            a["status"] = status
            a["model"] = model
            a["detail"] = detail
            if vc:
                a["vc"] = vc

    for p in paths:
        hyps = p.pc + p.facts
        if p.kind == "unsupported":
            upd("*", "undecided", "-", 0.0, detail=f"unsupported proxy operation: {p.out}")
            continue
        if p.kind == "raise":
            if on_raise is not None:
                try:
                    goals = list(on_raise(p.out, p.ghost))
                except Exception as e:   # harness fault
                    R._rec(f"{oid}{tag}#harness", fn, "crash", "-", 0.0, traceback.format_exc()[-1500:])
                    return paths
            else:
                tb = "".join(traceback.format_exception_only(type(p.out), p.out)).strip()
                goals = [("no-exception", z3.BoolVal(False), f"real code raised {tb[:300]}")]
        else:
            goals = list(p.out or [])
        for g in goals:
            clause, goal = g[0], g[1]
            detail = g[2] if len(g) > 2 else ""
            if isinstance(goal, bool):
                goal = z3.BoolVal(goal)
            try:
                v = solver.prove(hyps, goal)
            except z3.Z3Exception as e:
                upd(clause, "undecided", "z3", 0.0, detail=f"z3 error {e}")
                continue
            vc = None
            if v.status != "discharged" or clause not in agg or not agg[clause]["vc"]:
                try:
                    vc = f"{' & '.join(str(h) for h in p.pc[:8])} ==> {z3.simplify(goal)}"[:600]
                except Exception:
                    pass
            if v.status == "failed":
                m = dict(v.model or {})
                upd(clause, "failed", v.backend, v.ms, m, detail or "counter-model found", vc)
            elif v.status == "undecided":
                upd(clause, "undecided", v.backend, v.ms, detail=v.reason, vc=vc)
            else:
                upd(clause, "discharged", v.backend, v.ms, vc=vc)

    for clause, a in agg.items():
        rid = f"{oid}.{clause}{tag}" if clause != "*" else f"{oid}{tag}"
        be = "+".join(sorted(a["backends"]))
        if a["status"] == "discharged":
            R.ok(rid, fn, be, a["ms"], vc=a["vc"], paths=a["n"])
        elif a["status"] == "failed":
            rp = None
            if replay is not None:
                try:
                    rp = replay(a["model"] or {}, clause)
                except Exception as e:
                    a["detail"] += f" [replay template error: {e!r}]"
            R.fail(rid, fn, a["detail"], a["model"], rp, be, a["ms"], a["vc"])
        else:
            R._rec(rid, fn, "undecided", be, a["ms"], a["detail"], vc=a["vc"])
    R.stats["paths"] = R.stats.get("paths", 0) + len(paths)
    R.stats["explore_s"] = round(R.stats.get("explore_s", 0) + time.time() - t0, 3)
    return paths
