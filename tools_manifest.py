#!/usr/bin/env python3
"""Regenerates MANIFEST.json from the table below (keeps it valid and in sync)."""
import json, os
HERE = os.path.dirname(os.path.abspath(__file__))

CLAIMED = {
    "C19": dict(
        text="Proof: the real writers of nsl/WebAssembly.py (PackInteger, WriteInteger, Instruction.WriteTo, WriteString, Export/Local/Table/Memory.WriteTo, the six section writers, Code.Encode) are executed symbolically on the full 32-bit ranges and on opaque names/payloads of symbolic length; every path's bytes are decoded by the standard LEB128 decoders (spec functions) and each clause is discharged by z3. Callers of WriteInteger are verified against its contract (modular cut).",
        note="Trusted: CPython, pyvc proxies/path oracle, z3; str.encode('utf-8'); number of section entries: unbounded for the six section writers (C19.frame.unbounded, loop cut), unbounded for Code.Encode too (C19.frame.unbounded.Code: both loops cut) (thorough: up to 300; entry sizes symbolic); the LEB128 length is the exact piecewise function (C19.leb.unsigned.length-exact); composition into whole modules is C07.",
        technique="contract-based deductive verification: symbolic execution of the real functions with z3 proxies, LEB128 decoder as spec function, modular contract cut for WriteInteger",
        design="DESIGN.md section 4 (C19)"),
}

CLAIMED["C09"] = dict(
    text="Proof over the symbolic type universe: the real ResolveBinaryExpressionType (with its helpers and IsComparison) is executed on real type objects whose vector widths and matrix shapes are symbolic integers >= 1, for all 13 operators x 9 x 9 operand shapes; every path is checked against a specification table written from the property text and discharged by z3. End to end (accept/reject, result type, operand conversions in the compiled module) is decided by complete enumeration of the 13 x 14 x 14 spellable combinations on the real compiler.",
    note="Trusted: CPython, pyvc, z3. PrimitiveType.__eq__ (repr comparison) is cut by structural equality and checked bounded-exhaustively on the 63-type universe (labelled bounded). Comparison operand conversion is only required to be one common type of the operands' shape. Known findings D20a/D20b (vector %, &&, ||; scalar*matrix not lowered).",
    technique="contract-based deductive verification: symbolic execution of the real typing functions over a symbolic type universe against a spec table (z3); exhaustive finite enumeration end to end",
    design="DESIGN.md section 4 (C09)")
CLAIMED["C10"] = dict(
    text="Proof: IsCompatible/Match/Function.Match are executed on symbolic type shapes (sizes symbolic) and checked against convertibility/score specs by z3; Scope.FindFunction is verified with candidate.Match cut by its contract (arbitrary symbolic scores, 1-4 candidates, scope depth 0-2), which covers every declaration order; the end-to-end wiring (registration before bodies, call lowered to the chosen definition) is decided by complete enumeration of overload sets (<=2 overloads quick, 3 thorough) x argument lists on the real compiler.",
    note="Trusted: CPython, pyvc, z3; PrimitiveType.__eq__ cut (bounded check). __optional parameters excluded. Candidate count <= 4 in the symbolic ranking obligation.",
    technique="contract-based deductive verification: symbolic execution with z3 proxies, modular contract cut of candidate.Match, exhaustive finite enumeration end to end",
    design="DESIGN.md section 4 (C10)")

CLAIMED["C11"] = dict(
    text="Proof by induction on statement trees: for every AST node class (children opaque) and a symbolic loop depth d >= 0, the real ValidateFlowStatementVisitor is executed; visits of children are answered by the induction hypothesis (raises and clears valid iff misplaced, lemma misplaced => depth 0); z3 discharges child depth, valid flag and exception clauses. The shared visitor machinery (ForEachChild/_Traverse of every node class, default traversal, MRO dispatch) is proved per class. A bounded end-to-end enumeration of all statement trees up to nesting depth 2 supplies replayable witnesses (labelled bounded).",
    note="Trusted: CPython, pyvc, z3. Representation assumption: loop depth = visitor context (int). The 'innermost loop' clause is discharged by the lowering families (LOWER.control: loop stack, nested and sequential loops) and by E2E.scalar programs with loops in caller and callee; pipeline wiring by P.pipeline.",
    technique="contract-based deductive verification: inductive step per node class with the induction hypothesis as contract stub for child visits, symbolic depth, z3",
    design="DESIGN.md section 4 (C11)")
CLAIMED["C12"] = dict(
    text="Proof by induction: Context.Add/Get verified on all context chains of depth 1-4 over a name universe (exhaustive-finite, uniform in names); every node class is visited by the real ValidateVariableNamesVisitor with opaque children: scope nodes give all children one fresh context chained to the incoming one, non-scope nodes pass the context through, declarations add to the context they are visited with, parameters are declared before the body, a redeclaration below clears valid. A bounded end-to-end grid of block structures x declaration positions x names supplies replayable witnesses.",
    note="Trusted: CPython, pyvc. The typing-scope mirror is under C12.typing-scopes (balanced scope stack per scope node, induction with opaque children); the flat per-function map of the lowering under LOWER.VariableDeclaration (every state of the local table) and the E2E.scalar scope programs.",
    technique="contract-based deductive verification: inductive step per node class with opaque children; exhaustive finite chains",
    design="DESIGN.md section 4 (C12)")
CLAIMED["C13"] = dict(
    text="Proof: the bounds pass is executed on ArrayExpression nodes whose parent type has symbolic sizes (arrays rank 1-3, vectors, matrices) and a symbolic literal index; z3 proves valid is cleared iff v < 0 or v >= first dimension. The type of p[i] is proved to drop the first dimension (symbolic sizes). Index type rule, mask rule (all 7380 masks) and swizzle pass (7380 masks x vector sizes 1-4) are decided by complete enumeration; reachability of every ArrayExpression by the inductive visitor step. Bounded end-to-end grid for witnesses.",
    note="Trusted: CPython, pyvc, z3; diagnostic formatting cut. Signed-literal lexing clause not covered (regular expressions).",
    technique="contract-based deductive verification: symbolic execution of the real validators with z3 proxies; exhaustive finite enumeration of masks; inductive visitor step",
    design="DESIGN.md section 4 (C13)")

CLAIMED["C20"] = dict(
    text="Proof: the real SourceMapping.__init__/GetLineFromOffset/GetLineStartOffset run on an opaque text whose lines have symbolic lengths (real bisect on symbolic offsets) and z3 proves the line of every offset; Location.__str__ is proved to print 1-based line:column ranges relative to each end's own line (formatted numbers traced as tokens); Merge is the hull; UpdateLocations.v_Generic yields, for every node class with opaque children carrying symbolic spans, the hull of own and children's ranges (induction on tree height); every grammar action that calls SetLocation is run on a stand-in production with symbolic token offsets and proved to attach the range of the token the name was taken from. Bounded layout grid for witnesses.",
    note="Trusted: CPython, pyvc, z3; str.split; PLY lexpos axiom. The number of lines is enumerated 1..5 (thorough: 1..8; line lengths and offsets unbounded symbols) -- the loop of SourceMapping.__init__ is executed, not cut at an invariant. Diagnostic argument order is proved in C12.ctx.add.",
    technique="contract-based deductive verification: symbolic execution with z3 proxies on opaque text / symbolic token offsets; inductive visitor step for the hull",
    design="DESIGN.md section 4 (C20)")

VMTXT = "the interpreter loop of VM.ExecutionContext.__Execute is sliced mechanically into prologue / loop-step / epilogue functions on every run and the step is executed on symbolic operand values"
CLAIMED["C01"] = dict(
    text="Proof of component contracts: (1) " + VMTXT + " for every scalar opcode x operand kind against the reference semantics IRsem (truncating integer division, 0/1 comparisons and logical operators, fresh zero-initialised locals re-created per execution, loads/stores per scope, branches, return) with a full frame condition; (2) CFG-schema simulation of the real lowering handlers for if/else, while, do, for (all init/cond/next combinations), blocks, return, break, continue, nested and sequential loops on nodes with opaque children: the path set of the emitted blocks equals the structured source semantics (break leaves, continue re-tests, for-increment runs on continue, innermost loop); (3) straight-line emission contracts for binary/assignment/name/affix/declaration/cast/call/literal expressions, opcode map, type adaptation, argument index rewrite, compound-assignment rewrite and every relevant grammar action; (4) pipeline wiring; (5) whole-pipeline families E2E.scalar / E2E.grouping: ~45 curated scalar-core programs (every statement and operator form, arrays, structs, calls, recursion, globals), each compiled by the real compiler and run by the real VM on SYMBOLIC inputs against the reference interpreter refsem.py in the same path context -- each obligation holds for all inputs of its program. Grouping by precedence is C08, typing C09.",
    note="Trusted: CPython, pyvc (proxies, slicer, path explorer), z3, IRsem and the structured semantics written from the property text. Floats are reals (A2); the float arms are additionally discharged under the IEEE view (float operators uninterpreted), see DESIGN 0.1. Known finding D25 (compound assignment evaluates the target twice). The composition of the per-construct contracts into the whole-program statement (induction on the AST) is a paper argument. Prologue loops executed on enumerated block layouts.",
    technique="contract-based deductive verification: mechanical step slice of the interpreter loop + symbolic execution against IRsem (z3); CFG-schema simulation of the real lowering with opaque children (induction hypothesis as contract stub)",
    design="DESIGN.md section 4 (C01)")
CLAIMED["C02"] = dict(
    text="Proof of component contracts: Uses/ReplaceUses of every instruction class (reflection checks that every Instruction subclass is covered), Function/BasicBlock.UpdateUses over several blocks, Function.ReplaceUses, GetPreviousInstruction, allocation of references and typed constants, WithVariable, BasicBlock._Traverse with chains of 1-3 pending forwardings into users of every kind, soundness of the load-after-store visitor over all sequences store / 0-2 intervening instructions / load in one or two blocks, constant-cast folding equal to what the VM's CAST arm computes, the optimisation gate of Compile (recording passes), and E2E.optimize: ~45 curated programs compiled WITH optimize and run on symbolic inputs against the reference semantics (all inputs per program).",
    note="Trusted: CPython, pyvc. Finite enumerations of instruction shapes and short sequences (exhaustive-finite). The step from per-pass simulation to whole-program equivalence is a paper argument outside the curated E2E.optimize family.",
    technique="contract-based verification of the IR bookkeeping: per-class operand contracts, frame conditions on _Traverse, soundness contract of the forwarding visitor (exhaustive finite shapes)",
    design="DESIGN.md section 4 (C02)")
CLAIMED["C03"] = dict(
    text="Proof of component contracts: the CALL arm of the sliced interpreter step with self._Invoke cut by its contract (fresh argument list in operand order, named callee, result bound, caller's args variable/list, value map and globals unchanged), Invoke/_Invoke/prologue (fresh value map per activation, positional arguments in parameter order), copy discipline of VECTOR_SET/MATRIX_SET, call lowering (arguments left to right, callee named exactly as its definition is registered, mangling injective), argument index rewrite; overload choice is C10.",
    note="Trusted: CPython, pyvc, z3. Argument casts: CASTS.visit (the cast pass reaches every expression; every argument ends at its parameter component type).",
    technique="contract-based deductive verification: step slice of the interpreter with modular cut of _Invoke; frame conditions via locals() capture",
    design="DESIGN.md section 4 (C03)")
CLAIMED["C04"] = dict(
    text="Proof: (1) every vector/matrix arm of the sliced interpreter step on symbolic components against component-wise IRsem (sizes 2-4, 3x3, 4x4); (2) end to end on symbolic values: every swizzle read mask (all lengths, orders, repetitions, both letter sets) and every non-repeating write mask on parameters, locals, globals and copies, every element/row access with symbolic in-range indices, every vector/matrix operator over the spellable types, every constructor split -- each program compiled by the real compiler once and executed by the real VM on proxies, so each obligation holds for all component values.",
    note="Trusted: CPython, pyvc, z3; floats as reals, plus the IEEE view (uninterpreted float operators) for element-wise + -, and (vector | matrix) (* | /) scalar; matrix products keep the real model (summation order not prescribed). Known finding D20c (matrix * vector).",
    technique="contract-based deductive verification: symbolic execution of the real compiler output on the real VM with z3 proxies over completely enumerated program families; step slice for the arms",
    design="DESIGN.md section 4 (C04)")
CLAIMED["C05"] = dict(
    text="Proof of component contracts (safety view): every interpreter arm raises nothing on operands of the shape of their static type except the defined failures (division by zero checked explicitly), instance creation is total and shape-correct for every type shape, type adaptation is total and structure preserving, the IR bookkeeping leaves no dangling operand (C02/C14 obligations), the swizzle/bounds/index validators fence what the back end cannot handle (C13), every accepted operator/type combination of the spellable types lowers and runs (C09.e2e, C04.arith).",
    note="Trusted: CPython, pyvc, z3. The preservation/progress induction over whole programs is a paper argument. Known findings D20a-c.",
    technique="contract-based deductive verification: per-arm safety contracts on the sliced interpreter step; totality contracts on instance creation and type adaptation",
    design="DESIGN.md section 4 (C05)")
CLAIMED["C14"] = dict(
    text="Proof of invariant preservation: reference allocation (pairwise distinct references, typed constants), def-before-use and branch-target well-formedness on ALL paths of the CFG schemas emitted by the real lowering handlers (control constructs with opaque children, nested and sequential loops), operand contracts of every instruction class, _Traverse leaves no operand referring to a removed instruction, soundness of forwarding (the stored value dominates the removed load), argument rewrite keeps reference/type/store/parent, calls name registered definitions with the same arity (with C10).",
    note="Trusted: CPython, pyvc. Linker-side existence of callees across modules is C16.",
    technique="contract-based verification: well-formedness as an invariant checked on every path of the lowering schemas and preserved by the IR bookkeeping contracts",
    design="DESIGN.md section 4 (C14)")
CLAIMED["C15"] = dict(
    text="Proof of representation invariant and frames: VirtualMachine.__init__/SetGlobal/GetGlobal/Invoke (own globals dict per VM keyed by the program's globals, one key touched per set/get), fresh value map per activation not reachable from context/function/class, NEW_VARIABLE instances fresh per execution, and for EVERY interpreter arm the frame condition that the program objects (function, blocks, instructions, constants, function table) are not modified and that globals change only through STORE/GLOBAL or in-place stores through values loaded from them; forwarding of a global across a call is excluded by the soundness contract of the optimiser.",
    note="Trusted: CPython, pyvc, z3. The induction over histories of host operations is a paper argument; host-introduced aliasing is out of scope.",
    technique="contract-based deductive verification: representation invariant + per-arm frame conditions (object-graph snapshots) on the sliced interpreter step",
    design="DESIGN.md section 4 (C15)")

CLAIMED["C08"] = dict(
    text="Proof on the finite automaton: the LALR(1) table PLY derives from the current docstrings and precedence tuple of NslParser is built in memory on every run; from every state in which a complete expression can start, the real action/goto tables are simulated on `a o1 b o2 c` (169 pairs x all following terminals), `a o1 b o2 c o3 d` (2197 triples), both parenthesised forms and `x ASG a o1 b o2 c` for the five assignment operators, and the reductions must build exactly the grouping of the declared levels, left to right. LR decisions depend only on the state stack and one lookahead, so this is complete over all inputs. The grammar actions (operands in source order, operator of that spelling) and the operator token rules are checked as well.",
    note="Trusted: PLY's table interpreter (LRParser.parse) and lexer; operands are identifiers. The whitespace clause is a bounded stand-in (real lexer on all operator x separator layouts).",
    technique="contract-based verification on the real LALR table: exhaustive simulation of the action/goto tables from every expression-start state (complete for an LR parser)",
    design="DESIGN.md section 4 (C08)")

CLAIMED["C16"] = dict(
    text="Proof of component contracts: Linker.AddModule/Link on every enumerated import graph (single, one import, chain of four, diamond, two roots sharing an import, module imported along two paths) in every order of adding the roots with a counting loader: union of all tables, every imported module loaded exactly once, duplicates of functions and globals rejected in either order and through imports, frame of AddModule, isolation of linkers; producer/consumer agreement of the module metadata (LowerToIR.v_Module writes what ComputeTypes.v_Module reads; imports wherever they stand; calls lowered to the exporting module's registered name) checked by compiling importing modules against an in-memory loader and running the linked program; the import grammar actions. A bounded end-to-end family goes through pickle files and the real file loader.",
    note="Trusted: pickle and FilesystemModuleLoader (only exercised by the bounded family), CPython set iteration order for the run. Import graphs of at most six modules (incl. module names that share a stem or affix).",
    technique="contract-based verification of the linker and of the metadata producer/consumer pair (exhaustive finite import graphs, counting loader)",
    design="DESIGN.md section 4 (C16)")

CLAIMED["C06"] = dict(
    text="Proof of component contracts: totality -- for every instruction class of the IR (one shape per subclass, by reflection) and every load/store x scope of variable accesses, the real generator either appends code or raises, never drops the instruction; per-handler simulation -- for every (opcode, operand types) the emitted wasm sequence is executed under wasmsem (a transcription of the 1.0 semantics and validation rules of the ~25 opcodes the generator can emit) on symbolic operands and z3 proves it well-typed, stack-balanced and equal to IRsem wrapped to 32 bits, with constant operands included; argument loads, returns, constants (i32.const immediates decode signed: C19). A bounded grid of programs is validated and executed by wasmtime against the VM.",
    note="Trusted: wasmsem (hand transcription), CPython, pyvc, z3; floats as reals ('to single precision' assumed). Straight-line composition of the per-instruction simulation is a paper argument. Known findings D22c (non-scalar types) and D24 (the VM's integers are unbounded, the module wraps to 32 bits: C06.chain).",
    technique="contract-based deductive verification: per-handler simulation relation against a reference semantics of the target (z3), totality over the instruction class table",
    design="DESIGN.md section 4 (C06)")
CLAIMED["C07"] = dict(
    text="Proof of component contracts: section framing and LEB128 sizes/indices (C19 obligations), preamble and ascending section order of Module.WriteTo (section writers cut by recorders), Code.AddLocal/Encode over all local type sequences of length 0-5 (returned index = number of locals before, declared groups expand to the added sequence), function type conversion (only i32/f32, void -> no result), module structure after generating 1-3 functions (function/type/code counts, type indices in range, export i -> function i), per-handler stack typing under the 1.0 validation rules (C06.sem well-typed / stack-balanced clauses). A bounded grid of emitted binaries is validated by wasmtime.",
    note="Trusted: wasmsem validation table, CPython, pyvc, z3. No whole-binary validator in the proof (wasmtime validates only the bounded grid). Known finding D22c (non-scalar types).",
    technique="contract-based deductive verification: structural contracts on the module builder, per-handler stack typing, byte-level framing proofs",
    design="DESIGN.md section 4 (C07)")


# sentences appended after round 2 of the seeded changes (new families / dimensions)
EXTRA_TEXT = {
    "C01": " Float-typed operands are also taken in their int representation (zero-initialised or literal-initialised float storage holds Python ints): the static type decides between truncating and true division. The float arms are additionally discharged under the IEEE view (float operators uninterpreted). V.children.replace: every node class stores a replaced child back (the rewrite passes rely on it).",
    "C02": " E2E.opt-vs-plain states C02 directly for curated programs beyond the scalar core (whole-array / struct / vector / matrix copies followed by writes through the copy, condition-less loops, int-represented floats, constant casts): optimised == unoptimised module on symbolic inputs. VM.step.STORE/LOAD identity (a STORE binds the object it is given, a LOAD yields the bound object, for every value type and every kind of producing instruction) is the lemma load-after-store forwarding relies on. P.compile-history (bounded in histories).",
    "C04": " Element-wise + and -, and (vector | matrix) (* | /) scalar are additionally discharged under the IEEE view (float operators uninterpreted: each component is exactly the one operator on the corresponding components -- no reciprocal, no re-association). VECTOR_SET / MATRIX_SET copy their operand whatever kind of instruction produced it.",
    "C05": " Also: BRANCH for all three forms the lowering emits (incl. no predicate with a false target: `for (;;)`), the linker families (a lost import ends in a KeyError at run time), CASTS.visit, C14.names, P.compile-history.",
    "C06": " C06.pre discharges the precondition of the per-handler simulation: both operands of every scalar binary instruction have one IR type (all 3x3 scalar type pairs x 13 operators x both optimisation settings), so the signedness suffix is chosen from the type both operands have.",
    "C07": " P.compile-history (bounded in histories): the bytes emitted for a program do not depend on what the same Compiler object compiled before.",
    "C08": " FRONT.rewrite: `l op= r` becomes `l = (l op r)` with r kept as ONE operand, for r ranging over an opaque node and a real node of every expression class incl. a BinaryExpression of every operator. E2E.grouping: curated programs rendered with minimal parentheses run on symbolic inputs against the reference semantics.",
    "C10": " C14.names: an exported name is unique whatever the parameter lists, non-exported overloads get distinct IR names, every defined function has its own IR function. P.compile-history: name resolution sees only the functions of the program being compiled.",
    "C11": " FRONT.parse-actions: every statement-level grammar action keeps all its sub-trees in their roles for an opaque child and for a real node of every statement / expression class in each child position (a statement list keeps every (previous, appended) class pair).",
    "C12": " LOWER.VariableDeclaration for every state of the function's table of locals (a name already declared in a sibling scope still gets its own NEW_VARIABLE); E2E.scalar programs that reuse a name in sibling blocks, if/else branches and a loop body followed by a block.",
    "C14": " C14.names (see C10). P.compile-history.",
    "C20": " C20.parse.history: with the PLY automaton cut, Parse(t1); Parse(t2) on one parser converts the offsets of t2 with the line table of t2 (every order of three of four texts with different line structure); bounded end-to-end part on one parser / one Compiler.",
}
EXTRA3 = {
    "C03": " Aggregate arguments by value: the CALL arm hands the callee a value equal to the argument that shares no array / struct container with the caller's (the callee stub writes into everything it receives; the caller's value is unchanged), for int[2], int[2][2], struct, nested struct.",
    "C15": " Stores never make two variables share an array or struct: VM.step.STORE / STORE_ARRAY / STORE_MEMBER.no-sharing-with-the-source for every scope and aggregate type, IR.opt.las.aggregates (such loads are not forwarded), and E2E.scalar programs in which a local assigned from / to a global array is written afterwards.",
    "C12": " The two branches of an if are disjoint scopes (C12.scopes.branches-disjoint), also for declarations made directly in a branch without braces.",
    "C07": " C07.const-range: any integer constant is refused or becomes a valid signed 32-bit immediate with the same bit pattern; C07.function-end: a function with a result that can fall off its end is refused; C06.sem.ReturnInstruction over declared result x returned value.",
    "C04": " C04.construct.arity (every argument list whose component total differs from the constructed type is rejected; matrices from row vectors), C04.construct.scalar (T(x) is the conversion), C04.affix (++/-- on vectors and matrices rejected), integer vectors divide like integer scalars, operands of different component types in both orders.",
    "C19": " Memory limits for every (min, max) including max = 0.",
    "C20": " C20.map.sequence: the answer to a line query does not depend on the queries made before it on the same mapping.",
    "C06": " C06.sem.*.translates: the operators of the backend's own opcode table on int / uint / float, argument loads and type-matching returns must be translated (refusal is acceptable only outside that subset). Known finding D24 (C06.chain): the VM's integers are unbounded, the module wraps.",
    "C01": " Known finding D25: a side effect in the index of a compound-assignment target happens twice.",
}
EXTRA5 = {
    "C01": " Programs compiled with `optimize` and the load-after-store families also serve C01 (a compiled program is whatever the options were). E2E.process-history (bounded): programs that give the same names different meanings, compiled by fresh Compiler objects in one process. FRONT.rewrite.descends: compound assignments nested in an assignment are rewritten too (defect 1be936d).",
    "C03": " E2E.process-history (bounded; see C01): overload sets that change from one program of the process to the next.",
    "C04": " C04.swizzle.type: the type of a swizzle is the component type / the vector of the operand's own component type, whatever was typed before in the process. IR.opt.las also serves C04 (a call between a store and a load of a global vector).",
    "C05": " C12.scopes / C12.e2e also serve C05 (the lowering keys locals by name: an accepted redeclaration is a TypeError / KeyError at run time). C05.shape-compat: a value reaches a declared type only with that type's shape, else the program is rejected -- known finding D26 (100 incompatible pairs accepted; the repair breaks two of the repository's own tests). C05.function-end: known finding D28 (falling off the end of a function with a result yields None).",
    "C06": " C06.functions-independent: in a module of several functions every function has the signature and the body it has when compiled alone (generator state surviving from one function to the next).",
    "C10": " E2E.process-history (bounded; see C01).",
    "C14": " IR.constant.stays-listed: every constant handed out stays a constant of the function, for all ordered pairs of requests that compare equal in Python (1 / 1.0, 0 / 0.0).",
    "C16": " C16.e2e.recompiled-library (bounded): a library stored again under the same name is what a client compiled afterwards sees. C16.e2e.types (bounded): functions that pass a struct (with an array field) through their signatures, split as lib+main / chain / diamond -- a type that reaches a module along two import paths is one type (defect e44e114); C16.types.other-structs-stay-distinct. E2E.process-history.",
    "C20": " A text starting with a byte order mark (offsets count it; the automaton is handed exactly the caller's text). FRONT.rewrite.range and C20.e2e.pipeline (bounded): after rewrite-assign-equal + update-locations every range is a range of the text.",
}
EXTRA6 = {
    "C20": " C20.map.unbounded / C20.merge.unbounded: the line table with its lookups and Location.Merge for ANY number of lines / arguments -- the loops of SourceMapping.__init__ and Location.Merge are cut mechanically at an inductive invariant (init / preserve / exit obligations on the real prologue, loop body and epilogue; bisect cut by its contract, its sortedness precondition an obligation). C20.lex.frame: no lexer action changes a token's value or offset (frame condition on the source of every t_* action), so __GetLocation's [lexpos, lexpos + len(value)) is the token's text.",
    "C19": " C19.frame.unbounded: the six section writers for ANY number of entries (entry loop cut at an inductive invariant: uleb(n), then entries 0..k-1 in order, code bodies directly preceded by uleb(|body|), byte count T(k)); C19.frame.unbounded.Code: Code.Encode for any number of local groups and instructions (both loops cut); the enumerated entry counts remain as suppliers of witnesses.",
    "C07": " C19.frame.unbounded (see C19): section framing for any number of entries.",
    "C13": " C13.literal.value: the integer-literal grammar actions (decimal, octal, hexadecimal) put the number written into the tree, for literals of any magnitude (int() cut by its contract over unbounded integers) -- the bounds check sees the constant the program contains.",
    "C01": " C13.literal.value also serves C01 (a constant denotes the number written).",
    "C09": " C09.e2e also with an integer / floating literal on either side of every operator (a literal is int / float whatever stands next to it); the operator's own static type is read through the conversions `return` inserts.",
    "C06": " Constant operands of C06.sem are a symbolic constant AND each literal value a peephole would single out (0, 1, 2, 3, 4, 8, 10, 2^16, 2^30, 2^31-1, -1, -2, -4, -2^31) with the other operand symbolic; wasmsem models shr_s / shr_u / shl by constant amounts.",
}
EXTRA7 = {
    "C19": " C19.writers.frame: every Pack* / Write* function and WriteTo / Encode method writes to its output and to nothing else (frame condition on the source), so an encoding does not depend on what the process wrote before.",
    "C07": " C19.writers.frame (see C19). LOWER.adapt.sequence: the IR type of a function does not depend on the types the lowering context adapted before (two overloads keep their own signatures in the type section).",
    "C16": " C16.link.frame: linking leaves every module's imports, functions and globals as they were, and linking the same module objects again gives the same program.",
    "C13": " C13.swizzle.sequence / C13.drop.sequence: one visitor judges all accesses of a module; a verdict / row type does not depend on the accesses judged before.",
    "C14": " LOWER.adapt.sequence (see C07). E2E.module-composition: 16 look-alike program blocks composed in all ordered pairs, with and without optimize: every function of the composed module has the IR of its block compiled alone.",
    "C05": " E2E.module-composition (see C14): what a pass remembers from an earlier function of a module does not change how a later one is compiled.",
    "C01": " E2E.module-composition (see C14).",
    "C03": " E2E.module-composition (see C14): overload sets that grow when two blocks are composed.",
}
for _d in (EXTRA3, EXTRA5, EXTRA6, EXTRA7):
    for _k, _v in _d.items():
        EXTRA_TEXT[_k] = EXTRA_TEXT.get(_k, "") + _v
GEN_TEXT = " E2E.generated.* (sampled, reported as bounded, never counted as proved): a seeded generator (contracts/gen_c.py) writes scalar-core programs -- helpers, globals, arrays, nested loops with break/continue, all operator forms -- and each is compiled by the real compiler and run by the real VM on SYMBOLIC inputs against the reference interpreter, so each holds for all inputs of its program; 64 programs in the quick tier, 1600 more in the thorough tier."
for _k in ("C01", "C02", "C03", "C05", "C08", "C14"):
    EXTRA_TEXT[_k] = EXTRA_TEXT.get(_k, "") + GEN_TEXT
for _k, _v in EXTRA_TEXT.items():
    CLAIMED[_k]["text"] += _v

NOT_YET = "not built yet in this round (design in DESIGN.md section 4); will be claimed when its obligations run"
NA = {
    "C17": "pickle round trip across processes is the whole property; no contract within reach of the technique can decide it (DESIGN.md section 5)",
    "C18": "2-safety hyperproperty over runs/processes/hash seeds; needs whole-pipeline non-interference, not per-function contracts (DESIGN.md section 5)",
}

def main():
    props = [json.loads(l)["id"] for l in open(os.path.join(HERE, "properties.jsonl"))]
    checks, na = [], []
    for pid in props:
        if pid in CLAIMED:
            c = CLAIMED[pid]
            checks.append(dict(
                property_id=pid,
                quick_cmd=f"./check {pid} --tier quick",
                thorough_cmd=f"./check {pid} --tier thorough",
                evidence_file=f"evidence/{pid}.json",
                replay_cmd_template=f"./check {pid} --replay {{path}}",
                engine="pyvc",
                level_claimed=dict(category="proof", text=c["text"], design_ref=c["design"]),
                level_note=c["note"],
                technique=c["technique"]))
        else:
            na.append(dict(property_id=pid, reason=NA.get(pid, NOT_YET)))
    m = dict(
        version=1,
        setup_cmd="./check --setup",
        hooks=dict(guard="NSL_VERIF", enable="no hooks: contracts are sidecar modules in /verif/contracts, /repo is not instrumented",
                   baseline_off_cmd="cd /repo && /venv/bin/python -m pytest -ra -q -p no:cacheprovider --timeout=900 --continue-on-collection-errors",
                   source_commits=[], add_only=True),
        engines=[dict(name="pyvc", path="pyvc/", serves_properties=sorted(CLAIMED),
                      kind_free_text="VC generator for Python: native symbolic execution of the real code objects with z3 proxy values, path forking by re-execution, mechanical AST slices (loop step / loop cut), contract stubs for modular cuts; z3 + cvc5 back ends")],
        checks=checks,
        not_applicable=na,
        notes="Exit codes of ./check: 0 all obligations discharged (known findings printed as KNOWN-FINDING), 1 VIOLATION, 2 undecided, 3 checker fault. Known findings: known_findings.json.")
    json.dump(m, open(os.path.join(HERE, "MANIFEST.json"), "w"), indent=1)
    print("MANIFEST.json:", len(checks), "checks,", len(na), "not_applicable")

if __name__ == "__main__":
    main()
