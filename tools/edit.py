import sys
def edit(path, pairs):
    b = open(path, 'rb').read()
    crlf = b'\r\n' in b
    for old, new in pairs:
        o = old.encode(); n = new.encode()
        if crlf:
            o = o.replace(b'\n', b'\r\n'); n = n.replace(b'\n', b'\r\n')
        assert b.count(o) == 1, (path, old[:60], b.count(o))
        b = b.replace(o, n)
    open(path, 'wb').write(b)
