#!/usr/bin/env python3
"""Apply a seeded patch to /repo, run checks, revert.  Usage: tools/mut.py <patch.diff> C19 [C07 ...] [--demo demo.py]"""
import subprocess, sys, os
REPO = "/repo"
VERIF = os.path.dirname(os.path.dirname(os.path.abspath(__file__)))

def sh(cmd, **kw):
    return subprocess.run(cmd, shell=True, capture_output=True, text=True, **kw)

def main():
    args = sys.argv[1:]
    demo = None
    if "--demo" in args:
        i = args.index("--demo"); demo = args[i + 1]; del args[i:i + 2]
    patch, props = args[0], args[1:]
    st = sh(f"git -C {REPO} status --porcelain --untracked-files=no").stdout.strip()
    if st:
        print("repo dirty, refusing:", st); return 2
    r = sh(f"git -C {REPO} apply {patch}")
    if r.returncode:
        r = sh(f"git -C {REPO} apply -C1 --recount {patch}")
    if r.returncode:
        r = sh(f"cd {REPO} && patch -p1 --binary -F3 --no-backup-if-mismatch < {patch}")
        if r.returncode:
            sh(f"git -C {REPO} checkout -- .")
            sh(f"find {REPO} -name '*.rej' -delete -o -name '*.orig' -delete")
            print("patch does not apply:", r.stdout[-300:], r.stderr[-300:]); return 2
    try:
        if demo:
            d = sh(f"PYTHONPATH={REPO} /venv/bin/python {demo}", cwd="/tmp")
            print(f"demo exit={d.returncode}: {(d.stdout + d.stderr).strip()[-300:]}")
        t = sh(f"cd {REPO} && /venv/bin/python -m pytest -q -p no:cacheprovider 2>&1 | tail -1")
        print("tests:", t.stdout.strip())
        for p in props:
            c = sh(f"cd {VERIF} && timeout 900 ./check {p}")
            lines = [l for l in c.stdout.splitlines() if l.startswith(("VIOLATION", "UNDECIDED", "CHECKER-FAULT", "KNOWN"))]
            print(f"== {p} exit={c.returncode} :: {c.stdout.strip().splitlines()[-1] if c.stdout.strip() else c.stderr[-300:]}")
            for l in lines[:6]:
                print("   ", l[:220])
            if len(lines) > 6:
                print(f"    ... {len(lines)} lines")
    finally:
        sh(f"git -C {REPO} checkout -- .")
        sh(f"find {REPO} -name '*.rej' -delete -o -name '*.orig' -delete")
        # evidence files were rewritten by the mutated run: restore committed ones
        sh(f"git -C {VERIF} checkout -- evidence 2>/dev/null")
    return 0

if __name__ == "__main__":
    sys.exit(main())
