#!/usr/bin/env python3
"""Mechanical mutation campaign against a SCRATCH copy of /repo (never /repo itself).

For each sampled mutant of the property-relevant source files: write it into the scratch copy, run the repository's own
tests there (a mutant the tests kill is uninteresting), then run every obligation family once
(`VERIF_REPO=<scratch> VERIF_OUT=<scratch out> ./check ALL`).  A mutant that passes the tests AND all families is a
*survivor*: either an equivalent mutant or a blind spot of the contracts -- both are listed for inspection.

Usage: tools/mutate.py --n 60 [--seed 1] [--files nsl/VM.py,...] [--out /tmp/mutcamp]
The scratch copy and its output directory live under --out and are removed at the end unless --keep."""
import argparse, ast, json, os, random, re, shutil, subprocess, sys, time

VERIF = os.path.dirname(os.path.dirname(os.path.abspath(__file__)))
REPO = "/repo"
SKIP_FILES = ("DebugAst", "DebugTypes", "PrettyPrint", "PrintLinearIR", "__main__", "lexer.py")
SKIP_FUNCS = ("__str__", "__repr__", "GetName", "Print", "_p", "__Print", "p_error")
SKIP_CLASSES = ("InstructionPrinter",)

CMP_SWAP = {ast.Lt: "<=", ast.LtE: "<", ast.Gt: ">=", ast.GtE: ">", ast.Eq: "!=", ast.NotEq: "==", ast.Is: "is not", ast.IsNot: "is", ast.In: "not in", ast.NotIn: "in"}
CMP_TXT = {ast.Lt: "<", ast.LtE: "<=", ast.Gt: ">", ast.GtE: ">=", ast.Eq: "==", ast.NotEq: "!=", ast.Is: "is", ast.IsNot: "is not", ast.In: "in", ast.NotIn: "not in"}
BIN_SWAP = {ast.Add: ("+", "-"), ast.Sub: ("-", "+"), ast.Mult: ("*", "+"), ast.FloorDiv: ("//", "*"), ast.Div: ("/", "*")}


def sh(cmd, **kw):
    return subprocess.run(cmd, shell=True, capture_output=True, text=True, **kw)


class Collector(ast.NodeVisitor):
    def __init__(self, lines):
        self.lines = lines
        self.muts = []          # (lineno, col, end_lineno, end_col, replacement, description)
        self.stack = []

    def seg(self, node):
        return (node.lineno, node.col_offset, node.end_lineno, node.end_col_offset)

    def text(self, node):
        if node.lineno != node.end_lineno:
            return None
        return self.lines[node.lineno - 1][node.col_offset:node.end_col_offset]

    def add(self, node, repl, desc):
        if node.lineno != node.end_lineno:
            return
        line = self.lines[node.lineno - 1]
        if not line.isascii():
            return
        self.muts.append((node.lineno, node.col_offset, node.end_col_offset, repl, f"{'.'.join(self.stack)}: {desc}"))

    def visit_ClassDef(self, node):
        if node.name in SKIP_CLASSES:
            return
        self.stack.append(node.name)
        self.generic_visit(node)
        self.stack.pop()

    def visit_FunctionDef(self, node):
        if node.name in SKIP_FUNCS:
            return
        self.stack.append(node.name)
        for st in node.body:
            self.visit(st)
        self.stack.pop()

    def visit_Compare(self, node):
        self.py_compare(node)
        if len(node.ops) == 1 and type(node.ops[0]) in CMP_SWAP:
            l, r = self.text(node.left), self.text(node.comparators[0])
            if l is not None and r is not None:
                self.add(node, f"{l} {CMP_SWAP[type(node.ops[0])]} {r}", f"`{l} {CMP_TXT[type(node.ops[0])]} {r}` -> `{CMP_SWAP[type(node.ops[0])]}`")
        self.generic_visit(node)

    def visit_BinOp(self, node):
        if type(node.op) in BIN_SWAP:
            l, r = self.text(node.left), self.text(node.right)
            if l is not None and r is not None and not (isinstance(node.left, ast.Constant) and isinstance(node.left.value, str)):
                old, new = BIN_SWAP[type(node.op)]
                self.add(node, f"{l} {new} {r}", f"`{l} {old} {r}` -> `{new}`")
        self.generic_visit(node)

    def visit_BoolOp(self, node):
        if len(node.values) == 2:
            l, r = self.text(node.values[0]), self.text(node.values[1])
            if l is not None and r is not None:
                new = "or" if isinstance(node.op, ast.And) else "and"
                self.add(node, f"{l} {new} {r}", f"`{'and' if new == 'or' else 'or'}` -> `{new}`")
                self.add(node, l, "drop the second operand of the boolean")
        self.generic_visit(node)

    def py_compare(self, node):
        """Python-specific slips: `x is None` -> `not x`, `x is not None` -> `x` (truthiness instead of identity: 0, 0.0, [] and '' become None-like),
        `a == b` -> `a is b`."""
        if len(node.ops) != 1:
            return
        l, r = self.text(node.left), self.text(node.comparators[0])
        if l is None or r is None:
            return
        o = node.ops[0]
        is_none = isinstance(node.comparators[0], ast.Constant) and node.comparators[0].value is None
        if isinstance(o, ast.Is) and is_none:
            self.add(node, f"(not {l})", f"PY `{l} is None` -> `not {l}`")
        elif isinstance(o, ast.IsNot) and is_none:
            self.add(node, f"bool({l})", f"PY `{l} is not None` -> truthiness of `{l}`")
        elif isinstance(o, ast.Eq) and not isinstance(node.comparators[0], ast.Constant) and not isinstance(node.left, ast.Constant):
            self.add(node, f"{l} is {r}", f"PY `{l} == {r}` -> `is`")
        elif isinstance(o, ast.NotEq) and not isinstance(node.comparators[0], ast.Constant) and not isinstance(node.left, ast.Constant):
            self.add(node, f"{l} is not {r}", f"PY `{l} != {r}` -> `is not`")

    def py_shared_state(self, node):
        """`self.x = []` / `{}` / `set()` / `dict()` / `list()` / `OrderedDict()` in a method: one container for the whole process (what a class-level
        attribute or a mutable default argument gives)."""
        if len(node.targets) != 1 or not isinstance(node.targets[0], ast.Attribute) or node.lineno != node.end_lineno:
            return
        v = node.value
        empty = (isinstance(v, (ast.List, ast.Dict)) and not (getattr(v, "elts", None) or getattr(v, "keys", None))) or \
                (isinstance(v, ast.Call) and not v.args and not v.keywords and self.text(v.func) in ("set", "dict", "list", "OrderedDict", "collections.OrderedDict"))
        if not empty:
            return
        t = self.text(v)
        key = f"_mut_{'_'.join(self.stack)}_{node.lineno}"
        self.add(v, f'__import__("builtins").__dict__.setdefault("{key}", {t})', f"PY shared state: `{self.text(node)[:60]}` becomes one container per process")

    def visit_UnaryOp(self, node):
        if isinstance(node.op, ast.Not):
            t = self.text(node.operand)
            if t is not None:
                self.add(node, f"({t})", "drop `not`")
        self.generic_visit(node)

    def visit_Constant(self, node):
        v = node.value
        if isinstance(v, bool):
            self.add(node, str(not v), f"{v} -> {not v}")
        elif isinstance(v, int) and 0 <= v <= 64:
            self.add(node, str(v + 1), f"{v} -> {v + 1}")
            if v > 0:
                self.add(node, str(v - 1), f"{v} -> {v - 1}")

    def visit_If(self, node):
        t = self.text(node.test)
        if t is not None:
            self.add(node.test, f"not ({t})", "negate the condition")
        self.generic_visit(node)

    def visit_Expr(self, node):
        if isinstance(node.value, ast.Call) and node.lineno == node.end_lineno:
            t = self.text(node.value)
            if t and not t.startswith(("print", "super().__init__")):
                self.add(node, "pass", f"delete the statement `{t[:60]}`")
        self.generic_visit(node)

    def visit_Assign(self, node):
        self.py_shared_state(node)
        if node.lineno == node.end_lineno and len(node.targets) == 1 and isinstance(node.targets[0], (ast.Attribute, ast.Subscript)):
            self.add(node, "pass", f"delete the assignment `{self.text(node)[:60]}`")
        self.generic_visit(node)

    def visit_Call(self, node):
        if len(node.args) == 2 and not node.keywords and node.lineno == node.end_lineno:
            a, b = self.text(node.args[0]), self.text(node.args[1])
            f = self.text(node.func)
            if a and b and f and a != b and not f.startswith(("isinstance", "print", "range", "getattr", "hasattr", "setattr")):
                self.add(node, f"{f}({b}, {a})", f"swap the arguments of `{f}({a}, {b})`")
        self.generic_visit(node)

    def visit_Return(self, node):
        if node.value is not None and node.lineno == node.end_lineno and not isinstance(node.value, ast.Constant):
            self.add(node, "return None", f"`{self.text(node)[:60]}` -> `return None`")
        self.generic_visit(node)

    def visit_Subscript(self, node):
        s = node.slice
        if isinstance(s, ast.Constant) and isinstance(s.value, int) and s.value in (0, 1):
            return self.generic_visit(node.value)       # the constant mutation covers it
        if isinstance(s, ast.UnaryOp) and isinstance(s.op, ast.USub) and isinstance(s.operand, ast.Constant) and s.operand.value == 1:
            t = self.text(node.value)
            if t:
                self.add(node, f"{t}[0]", "[-1] -> [0]")
        self.generic_visit(node)


def mutants_of(path):
    raw = open(path, "rb").read()
    text = raw.decode("utf-8-sig")
    lines = text.split("\n")
    plain = [l.rstrip("\r") for l in lines]
    tree = ast.parse("\n".join(plain))
    c = Collector(plain)
    c.visit(tree)
    return c.muts


def apply_mutant(path, dst, m):
    raw = open(path, "rb").read()
    bom = raw.startswith(b"\xef\xbb\xbf")
    text = raw.decode("utf-8-sig")
    lines = text.split("\n")
    ln, c0, c1, repl, _ = m
    line = lines[ln - 1]
    lines[ln - 1] = line[:c0] + repl + line[c1:]
    out = "\n".join(lines).encode("utf-8")
    open(dst, "wb").write((b"\xef\xbb\xbf" if bom else b"") + out)


def main():
    ap = argparse.ArgumentParser()
    ap.add_argument("--n", type=int, default=40)
    ap.add_argument("--seed", type=int, default=1)
    ap.add_argument("--files", default="")
    ap.add_argument("--out", default="/tmp/mutcamp")
    ap.add_argument("--keep", action="store_true")
    ap.add_argument("--props", default="ALL")
    ap.add_argument("--ops", default="", help="'py': only the Python-specific operators (descriptions starting with PY)")
    a = ap.parse_args()
    scratch = os.path.join(a.out, "repo")
    vout = os.path.join(a.out, "verif-out")
    shutil.rmtree(a.out, ignore_errors=True)
    os.makedirs(scratch)
    os.makedirs(vout)
    sh(f"git -C {REPO} archive HEAD | tar -x -C {scratch}")
    files = [f for f in a.files.split(",") if f] or [os.path.relpath(os.path.join(dp, f), scratch) for dp, _, fs in os.walk(os.path.join(scratch, "nsl")) for f in fs
                                                      if f.endswith(".py") and not any(s in os.path.join(dp, f) for s in SKIP_FILES)]
    allm = []
    for f in sorted(files):
        try:
            for m in mutants_of(os.path.join(scratch, f)):
                if a.ops == "py" and ": PY " not in m[4]:
                    continue
                allm.append((f, m))
        except SyntaxError as e:
            print("skip", f, e)
    rnd = random.Random(a.seed)
    rnd.shuffle(allm)
    print(f"{len(allm)} candidate mutants in {len(files)} files; sampling {a.n}", flush=True)
    report = []
    done = 0
    env = dict(os.environ, VERIF_REPO=scratch, VERIF_OUT=vout, PYTHONDONTWRITEBYTECODE="1")
    for f, m in allm:
        if done >= a.n:
            break
        src = os.path.join(scratch, f)
        orig = open(src, "rb").read()
        try:
            apply_mutant(src, src, m)
            # must still compile
            c = sh(f"/venv/bin/python -c \"import ast,sys; ast.parse(open('{src}', encoding='utf-8-sig').read())\"")
            if c.returncode:
                continue
            t = sh(f"cd {scratch} && PYTHONPATH={scratch} timeout 300 /venv/bin/python -m pytest -q -x -p no:cacheprovider 2>&1 | tail -1")
            if "passed" not in t.stdout or "failed" in t.stdout or "error" in t.stdout:
                report.append(dict(file=f, line=m[0], what=m[4], verdict="killed-by-tests"))
                continue
            done += 1
            t0 = time.time()
            k = sh(f"cd {VERIF} && timeout 1500 ./check {a.props}", env=env)
            lines = [l for l in k.stdout.splitlines() if l.startswith(("VIOLATION", "UNDECIDED", "CHECKER-FAULT"))]
            verdict = {0: "SURVIVED", 1: "detected", 2: "undecided-only", 3: "checker-fault"}.get(k.returncode, f"exit{k.returncode}")
            report.append(dict(file=f, line=m[0], what=m[4], verdict=verdict, seconds=round(time.time() - t0), first=(lines[0][:200] if lines else ""), n_lines=len(lines)))
            print(f"[{done}/{a.n}] {verdict:14s} {f}:{m[0]} {m[4][:110]}  {('| ' + lines[0][:120]) if lines else ''}", flush=True)
        finally:
            open(src, "wb").write(orig)
    json.dump(report, open(os.path.join(VERIF, "mutation", f"campaign-seed{a.seed}.json"), "w"), indent=1) if os.path.isdir(os.path.join(VERIF, "mutation")) else None
    surv = [r for r in report if r["verdict"] == "SURVIVED"]
    print(f"\n{done} mutants passed the tests; detected {sum(1 for r in report if r['verdict'] == 'detected')}, undecided-only {sum(1 for r in report if r['verdict'] == 'undecided-only')}, "
          f"checker-fault {sum(1 for r in report if r['verdict'] == 'checker-fault')}, SURVIVED {len(surv)}; killed by tests {sum(1 for r in report if r['verdict'] == 'killed-by-tests')}")
    for r in surv:
        print("  SURVIVED", r["file"], r["line"], r["what"])
    if not a.keep:
        shutil.rmtree(a.out, ignore_errors=True)


if __name__ == "__main__":
    main()
