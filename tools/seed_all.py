#!/usr/bin/env python3
"""Confirm each sub-agent change in its scratch worktree (rebased onto the current /repo HEAD), run the property's check
against it in /repo, and store it under /verif/seeded/<id>/.  Usage: tools/seed_all.py [Cnn ...]"""
import json, os, shutil, subprocess, sys
VERIF = os.path.dirname(os.path.dirname(os.path.abspath(__file__)))
REPO = "/repo"
MUT = os.environ.get("SEED_MUT", "/tmp/mut")
TAG = os.environ.get("SEED_TAG", "")

def sh(cmd, cwd=None, timeout=3000):
    return subprocess.run(cmd, shell=True, capture_output=True, text=True, cwd=cwd, timeout=timeout)

def apply(wt, patch):
    for cmd in (f"git apply {patch}", f"git apply -C1 --recount {patch}", f"patch -p1 --binary -F3 --no-backup-if-mismatch < {patch}"):
        r = sh(cmd, cwd=wt)
        if r.returncode == 0:
            return True
        sh("git checkout -- . ; find . -name '*.rej' -delete -o -name '*.orig' -delete", cwd=wt)
    return False

def main():
    props = sys.argv[1:] or sorted({d[:3] for d in os.listdir(MUT) if d.endswith(".out")})
    head = sh(f"git -C {REPO} rev-parse HEAD").stdout.strip()
    summary = []
    for prop in props:
        wt = f"{MUT}/{prop}"
        for m in ("m1", "m2"):
            src = f"{MUT}/{prop}.out/{m}"
            override = f"{VERIF}/seeded/{prop}-{TAG}{m}/patch.diff"
            patch = override if os.path.exists(override) else f"{src}/patch.diff"
            demo = f"{src}/demo.py"
            if not os.path.exists(patch) or not os.path.exists(demo):
                continue
            sh(f"git checkout -q -f --detach {head} && git clean -fdq", cwd=wt)
            meta = dict(id=f"{prop}-{TAG}{m}", breaks=prop, base_commit=head[:7])
            clean = sh(f"PYTHONPATH={wt} /venv/bin/python {demo}", cwd="/tmp")
            meta["demo_on_clean_tree_exit"] = clean.returncode
            if not apply(wt, patch):
                meta["status"] = "patch does not apply to the current tree (the code it changes was rewritten by a fix: commit)"
                summary.append((prop, m, "STALE", ""))
                continue
            tests = sh(f"PYTHONPATH={wt} /venv/bin/python -m pytest -q -p no:cacheprovider 2>&1 | tail -1", cwd=wt)
            d = sh(f"PYTHONPATH={wt} /venv/bin/python {demo}", cwd="/tmp")
            os.makedirs(f"{VERIF}/seeded/{prop}-{TAG}{m}", exist_ok=True)
            sh(f"git diff -- nsl nslc.py nslr.py > {MUT}/rebased.diff", cwd=wt)      # binary-safe (CRLF files)
            sh("git checkout -- . ; git clean -fdq", cwd=wt)
            meta["tests_with_change"] = tests.stdout.strip()
            meta["demo_with_change_exit"] = d.returncode
            meta["demo_with_change_output"] = (d.stdout + d.stderr).strip()[-400:]
            confirmed = "82 passed" in tests.stdout and d.returncode == 1 and clean.returncode == 0
            meta["confirmed"] = confirmed
            outdir = f"{VERIF}/seeded/{prop}-{TAG}{m}"
            os.makedirs(outdir, exist_ok=True)
            shutil.copy(f"{MUT}/rebased.diff", f"{outdir}/patch.diff")
            shutil.copy(demo, f"{outdir}/demo.py")
            notes = f"{src}/notes.md"
            if os.path.exists(notes):
                shutil.copy(notes, f"{outdir}/notes.md")
            # run the check in /repo
            st = sh(f"git -C {REPO} status --porcelain --untracked-files=no").stdout.strip()
            assert not st, "repo dirty"
            r = sh(f"git -C {REPO} apply {outdir}/patch.diff")
            det = "patch did not apply in /repo"
            if r.returncode == 0:
                try:
                    c = sh(f"cd {VERIF} && timeout 1500 ./check {prop}")
                    lines = [l for l in c.stdout.splitlines() if l.startswith(("VIOLATION", "UNDECIDED", "CHECKER-FAULT"))]
                    det = f"exit={c.returncode}; " + (lines[0][:200] if lines else "no alarm")
                    meta["check_exit"] = c.returncode
                    meta["check_lines"] = [l[:240] for l in sorted(lines, key=lambda l: not l.startswith("VIOLATION"))[:5]]      # VIOLATION lines first
                    meta["n_alarm_lines"] = len(lines)
                finally:
                    sh(f"git -C {REPO} checkout -- .")
                    sh(f"git -C {VERIF} checkout -- evidence")
            meta["needs_to_manifest"] = open(notes).read()[:1500] if os.path.exists(notes) else ""
            meta["what_was_run"] = [f"PYTHONPATH=<worktree> /venv/bin/python demo.py (clean tree: exit {clean.returncode}; with change: exit {d.returncode})",
                                    "PYTHONPATH=<worktree> /venv/bin/python -m pytest -q -p no:cacheprovider (with change)", f"git -C /repo apply patch.diff; ./check {prop}; git -C /repo checkout -- ."]
            try:
                oldm = json.load(open(f"{outdir}/meta.json"))
                for k in ("assessment", "ported", "status"):        # hand-written annotations survive a re-run
                    if k in oldm and k not in meta:
                        meta[k] = oldm[k]
            except Exception:
                pass
            json.dump(meta, open(f"{outdir}/meta.json", "w"), indent=1)
            summary.append((prop, m, "CONFIRMED" if confirmed else f"UNCONFIRMED(clean={clean.returncode},with={d.returncode},{tests.stdout.strip()[:20]})", det))
            print(prop, m, summary[-1][2], det, flush=True)
    print("\n".join(f"{p} {m} {s} {d}" for p, m, s, d in summary))

if __name__ == "__main__":
    main()
