#!/bin/bash
# Runs every claimed check (quick tier) sequentially; prints the summary line of each.  Usage: tools/run_all.sh [tier]
cd "$(dirname "$0")/.."
tier="${1:-quick}"
for p in $(python3 -c "import json;print(' '.join(c['property_id'] for c in json.load(open('MANIFEST.json'))['checks']))"); do
  out=$(timeout 3000 ./check $p --tier $tier 2>&1); rc=$?
  echo "$p exit=$rc $(echo "$out" | tail -1 | cut -c1-220)"
  echo "$out" | grep -E "^(VIOLATION|UNDECIDED|CHECKER)" | head -5
done
