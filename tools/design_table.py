#!/usr/bin/env python3
"""Prints the markdown table of seeded changes (from /verif/seeded/*/meta.json) for DESIGN.md section 0.6."""
import glob, json, os, re
HERE = os.path.dirname(os.path.dirname(os.path.abspath(__file__)))
rows = []
for mf in sorted(glob.glob(os.path.join(HERE, "seeded", "*", "meta.json"))):
    m = json.load(open(mf))
    d = os.path.dirname(mf)
    files = sorted(set(re.findall(r"^\+\+\+ b/nsl/(\S+)", open(os.path.join(d, "patch.diff"), errors="replace").read(), re.M)))
    lines = m.get("check_lines") or []
    viol = [l for l in lines if l.startswith("VIOLATION")]
    first = (viol or lines or ["-"])[0]
    mo = re.search(r"obligation=(\S+)", first) or re.search(r"replay=replays/\w+/(\S+)\.json", first)
    ob = mo.group(1) if mo else first[:60]
    conf = "confirmed" if m.get("confirmed") else "UNCONFIRMED"
    how = "replayed" if (viol and "no-failing-input-found" not in viol[0] and "obligation=" not in viol[0]) else "no input"
    if m.get("status") == "superseded":
        rows.append(f"| {m['id']} | {', '.join(files)} | superseded by a later `fix:` commit -- no longer a defect, nothing to detect (see meta.json) |")
        continue
    if m.get("check_exit") == 0 and m.get("assessment"):
        rows.append(f"| {m['id']} | {', '.join(files)} | not a violation of this property (see meta.json); its check stays green, the checks of the properties it does violate report it |")
        continue
    rows.append(f"| {m['id']} | {', '.join(files)} | `{ob}` ({m.get('n_alarm_lines', '?')} line(s), exit {m.get('check_exit', '?')}, {how}) |")
print("| seeded change | file(s) | first VIOLATION obligation (alarm lines, exit code, witness) |")
print("|---|---|---|")
print("\n".join(rows))
