"""Specification side of the WebAssembly byte-level obligations: the standard
LEB128 *decoders* (unsigned / signed), a chunk-recording output buffer, and the
flattening of what the real writers produced into a list of byte terms.

The decoders are the oracle (transcribed from the WebAssembly 1.0 binary format,
section 5.2.2): 7-bit groups, little endian, continuation bit 0x80 on all but
the last byte; for the signed form the sign is bit 6 of the last group."""
from __future__ import annotations

import z3

from pyvc.sym import SymInt, SymBytes, cur, term, is_sym, Unsupported


class Opaque:
    """An uninterpreted byte string of symbolic length (e.g. utf-8 of a name)."""

    def __init__(self, name, length):
        self.name = name
        self.length = length      # SymInt

    def __len__(self):
        raise Unsupported("len() of opaque bytes outside the len shim")


class ULEB:
    """Abstract chunk produced by the contract stub of WriteInteger: the
    unsigned LEB128 encoding of ``value`` (a z3 Int term).  Its byte length is
    the uninterpreted function uleblen(value); C19.leb.unsigned proves
    1 <= uleblen(v) <= 5 on [0, 2^32)."""

    def __init__(self, value):
        self.value = value


uleblen = z3.Function("uleblen", z3.IntSort(), z3.IntSort())


def uleblen_def(t):
    """Length of the minimal unsigned LEB128 encoding of t in [0, 2^35): 1 + one byte per further 7-bit group."""
    one, zero = z3.IntVal(1), z3.IntVal(0)
    return 1 + sum((z3.If(t >= 2 ** (7 * k), one, zero) for k in (1, 2, 3, 4)), zero)


class ChunkIO:
    """Stand-in for io.BytesIO that records what is written, chunk by chunk."""

    def __init__(self, initial=b""):
        self.chunks = []
        if initial:
            self.chunks.append(initial)

    def write(self, data):
        self.chunks.append(data)
        return None

    def getbuffer(self):
        return ChunkView(self)

    def getvalue(self):
        return ChunkView(self)


class ChunkView:
    def __init__(self, owner):
        self.owner = owner

    def __len__(self):
        n = length_of(self)
        if isinstance(n, int):
            return n
        raise Unsupported("symbolic buffer length requested through real len()")


class FakeIO:
    """Bound to the name ``io`` in nsl.WebAssembly's globals while verifying."""
    BytesIO = ChunkIO


def flatten(x, out=None):
    """Flatten chunks to atoms: z3 Int terms (one per byte) and Opaque blobs."""
    if out is None:
        out = []
    if isinstance(x, (ChunkIO,)):
        for c in x.chunks:
            flatten(c, out)
    elif isinstance(x, ChunkView):
        flatten(x.owner, out)
    elif isinstance(x, (bytes, bytearray, memoryview)):
        out.extend(z3.IntVal(b) for b in bytes(x))
    elif isinstance(x, SymBytes):
        out.extend(term(b) for b in x.items)
    elif isinstance(x, (Opaque, ULEB)):
        out.append(x)
    elif isinstance(x, (list, tuple)):
        for c in x:
            flatten(c, out)
    else:
        raise Unsupported(f"unexpected chunk {type(x).__name__}")
    return out


def atoms_len(atoms):
    n = 0
    for a in atoms:
        if isinstance(a, Opaque):
            n = n + a.length
        elif isinstance(a, ULEB):
            n = n + SymInt(uleblen(a.value))
        else:
            n = n + 1
    return n


def length_of(x):
    return atoms_len(flatten(x))


def sym_len(x):
    """``len`` shim for nsl.WebAssembly: symbolic for opaque blobs and buffers."""
    if isinstance(x, Opaque):
        return x.length
    if hasattr(x, "char_len"):          # opaque str: number of code points, a symbol of its own
        return x.char_len
    if isinstance(x, ChunkView):
        return length_of(x)
    if isinstance(x, SymBytes):
        return len(x.items)
    return len(x)


def udec_stream(atoms, pos, maxbytes=5):
    """Run the standard unsigned LEB128 decoder on atoms[pos:].  Must be called
    inside a path context (continuation bits are decided by the path oracle).
    Returns (value term, new position, well-formedness conjunction)."""
    value = z3.IntVal(0)
    wf = []
    i = 0
    while True:
        if pos >= len(atoms) or isinstance(atoms[pos], Opaque):
            return value, pos, wf + [z3.BoolVal(False)]
        b = atoms[pos]
        pos += 1
        wf.append(z3.And(b >= 0, b <= 255))
        value = value + cur().divmod_const(b, 128)[1] * (128 ** i)
        i += 1
        if not cur().decide(b >= 128):
            break
        if i >= maxbytes:
            wf.append(z3.BoolVal(False))
            break
    return z3.simplify(value), pos, wf


def sdec_stream(atoms, pos, maxbytes=5):
    """Standard signed LEB128 decoder (sign bit = bit 6 of the last group)."""
    value = z3.IntVal(0)
    wf = []
    i = 0
    b = None
    while True:
        if pos >= len(atoms) or isinstance(atoms[pos], Opaque):
            return value, pos, wf + [z3.BoolVal(False)]
        b = atoms[pos]
        pos += 1
        wf.append(z3.And(b >= 0, b <= 255))
        value = value + cur().divmod_const(b, 128)[1] * (128 ** i)
        i += 1
        if not cur().decide(b >= 128):
            break
        if i >= maxbytes:
            wf.append(z3.BoolVal(False))
            break
    value = z3.If(cur().divmod_const(b, 128)[1] >= 64, value - 128 ** i, value)
    return z3.simplify(value), pos, wf


# plain-Python decoders for replay scripts (text, pasted into the script)
PY_DECODERS = '''
def udec(bs, pos=0):
    v = 0; i = 0
    while True:
        if pos >= len(bs): return None, pos          # ran off the end: the bytes do not decode at all
        b = bs[pos]; pos += 1
        v |= (b & 0x7F) << (7 * i); i += 1
        if not (b & 0x80): break
    return v, pos
def sdec(bs, pos=0):
    v = 0; i = 0
    while True:
        if pos >= len(bs): return None, pos          # ran off the end: the bytes do not decode at all
        b = bs[pos]; pos += 1
        v |= (b & 0x7F) << (7 * i); i += 1
        if not (b & 0x80): break
    if b & 0x40: v -= 1 << (7 * i)
    return v, pos
'''
