"""C20: source positions.  Contracts on ast.SourceMapping, ast.Location,
UpdateLocationsVisitor, the grammar actions that call SetLocation and the
redeclaration diagnostic."""
from __future__ import annotations

import itertools
import re

import z3

from pyvc.core import family, resolve, Missing
from pyvc.sym import SymInt, SymBool, term, Unsupported, cur, FormatTrace
from pyvc.util import patched, script
from pyvc.verify import verify
from . import astgen as ag

AST = "nsl.ast"


class _Line:
    def __init__(self, n):
        self.length = n


class _Text:
    """Opaque source text: split('\\n') yields k lines of symbolic lengths."""

    def __init__(self, lines):
        self.lines = lines

    def split(self, sep=None, maxsplit=-1):
        if sep != "\n" or maxsplit != -1:
            raise Unsupported(f"text split by {sep!r}")
        return list(self.lines)

    def splitlines(self, keepends=False):
        """str.splitlines under the stated assumption that '\\n' is the only line boundary
        character in the text: like split('\\n') but a final empty piece is dropped and, with
        keepends, every piece but the last carries its newline."""
        ls = list(self.lines)
        if len(ls) > 1 or True:
            if bool(ls[-1].length == 0):
                ls = ls[:-1]
                last_has_nl = True
            else:
                last_has_nl = False
        if keepends:
            ls = [_Line(l.length + 1) if (i < len(ls) - 1 or last_has_nl) else l for i, l in enumerate(ls)]
        return ls

    def __getattr__(self, name):
        raise Unsupported(f"opaque source text: .{name} is not modelled (only split('\\n') / splitlines)")


def _len(x):
    if isinstance(x, _Line):
        return x.length
    return len(x)


def _mapping(ctx, k):
    import nsl.ast as a
    lens = []
    for i in range(k):
        n = ctx.int(f"len{i}")
        ctx.assume(n >= 0)
        lens.append(n)
    with patched(a, len=_len):
        m = a.SourceMapping(_Text([_Line(n) for n in lens]))
    starts = [sum((l.t + 1 for l in lens[:i]), z3.IntVal(0)) for i in range(k)]
    total = sum((l.t for l in lens), z3.IntVal(0)) + (k - 1)
    return m, lens, starts, total


MAP_REPLAY = """
from nsl import ast
texts = {{texts}}
bad = None
for t in texts:
    m = ast.SourceMapping(t)
    for off in range(len(t) + 1):
        want = t.count('\\n', 0, off)
        got = m.GetLineFromOffset(off)
        if got != want or m.GetLineStartOffset(got) != (t.rfind('\\n', 0, off) + 1):
            bad = (t, off, got, want); break
    if bad: break
print('first disagreement (text, offset, line reported, newlines before offset):', bad)
if bad: print('REPLAY-CONFIRMED')
"""


def _texts_from(model, k):
    lens = [max(0, min(int(model.get(f"len{i}", 2)), 6)) for i in range(k)]
    t = "\n".join("x" * n for n in lens)
    return [t, "abc\ndef\n", "\n\nab\n", "a\rb\nc\x0cd\ne", "one\n\ttwo\n\n  four"]


@family("C20.map", props=["C20"], functions=[AST + "::SourceMapping.__init__", AST + "::SourceMapping.GetLineFromOffset", AST + "::SourceMapping.GetLineStartOffset"],
        assumptions=["the text is opaque: split('\\n') yields k lines of symbolic lengths >= 0 (str.split trusted); the number of lines k is enumerated 1..5, line lengths are unbounded symbols; the real bisect runs on the symbolic offsets",
                     "len shim bound in nsl.ast globals for opaque lines",
                     "if the code calls splitlines instead of split: modelled under the assumption that '\\n' is the only line-boundary character of the text"])
def c20_map(R):
    """For every text of 1-5 lines with arbitrary line lengths and every offset in [0, |text|]: GetLineFromOffset(o) is the number of
    newlines before o, i.e. the r with start(r) <= o < start(r+1), and GetLineStartOffset(r) = sum of (len+1) of the lines before r."""
    import nsl.ast as a
    for k in ((1, 2, 3, 4, 5) if R.tier != "thorough" else (1, 2, 3, 4, 5, 6, 7, 8)):       # number of lines (thorough tier: up to 8)
        def run(ctx, k=k):
            m, lens, starts, total = _mapping(ctx, k)
            off = ctx.int("off")
            ctx.assume(off >= 0)
            ctx.assume(off.t <= total)
            r = m.GetLineFromOffset(off)
            rt = term(r)
            conj = []
            for i in range(k):
                inside = z3.And(off.t >= starts[i], (off.t < starts[i + 1]) if i + 1 < k else z3.BoolVal(True))
                conj.append(z3.Implies(inside, rt == i))
            goals = [("line-of-offset", z3.And(*conj), f"k={k}")]
            for i in range(k):
                goals.append((f"line-start", term(m.GetLineStartOffset(i)) == starts[i]))
            return goals

        def replay(model, clause, k=k):
            return dict(script=MAP_REPLAY.replace("{{texts}}", repr(_texts_from(model, k))))

        verify(R, "C20.map", AST + "::SourceMapping.GetLineFromOffset", run, replay, label=f"{k}-lines")

        # a mapping is queried many times, in any order (diagnostics format the LATER declaration first): the answer to a query does not depend
        # on the queries before it
        def run2(ctx, k=k):
            m, lens, starts, total = _mapping(ctx, k)
            o1, o2 = ctx.int("off1"), ctx.int("off2")
            for o in (o1, o2):
                ctx.assume(o >= 0)
                ctx.assume(o.t <= total)
            m.GetLineFromOffset(o1)
            r = term(m.GetLineFromOffset(o2))
            conj = []
            for i in range(k):
                inside = z3.And(o2.t >= starts[i], (o2.t < starts[i + 1]) if i + 1 < k else z3.BoolVal(True))
                conj.append(z3.Implies(inside, r == i))
            return [("second-query-independent-of-the-first", z3.And(*conj), f"k={k}")]

        def replay2(model, clause, k=k):
            return script("""
                from nsl import ast
                text = "\\n".join("x" * n for n in {{lens}})
                m = ast.SourceMapping(text)
                bad = []
                for o1 in range(len(text) + 1):
                    for o2 in range(len(text) + 1):
                        m.GetLineFromOffset(o1)
                        if m.GetLineFromOffset(o2) != text.count("\\n", 0, o2): bad.append((o1, o2))
                print(repr(text), 'query pairs (first, second) whose second answer is wrong:', bad[:6])
                if bad: print('REPLAY-CONFIRMED')
                """, lens=[max(0, min(int(model.get(f"len{i}", 2)), 6)) for i in range(k)])

        if k >= 2:
            verify(R, "C20.map.sequence", AST + "::SourceMapping.GetLineFromOffset", run2, replay2, label=f"{k}-lines")


# ---------------------------------------------------------------------------------------------------------------------------------
# C20.map.unbounded: the same contract for texts of ANY number of lines -- the loop of SourceMapping.__init__ is cut at an inductive
# invariant (pyvc.loopcut), the lookups are verified against the object state that invariant describes, bisect is cut by its contract.

_S = z3.Function("S", z3.IntSort(), z3.IntSort())        # S(i): offset at which line i starts (specification function)
_L = z3.Function("L", z3.IntSort(), z3.IntSort())        # L(i): length of line i


def _spec_axioms_at(i):
    """Instances at i of:  forall i >= 0. L(i) >= 0  and  S(i + 1) == S(i) + L(i) + 1;  plus S(0) == 0."""
    i = term(i)
    return z3.And(_S(z3.IntVal(0)) == 0, z3.Implies(i >= 0, z3.And(_L(i) >= 0, _S(i + 1) == _S(i) + _L(i) + 1)))


class _SymLines:
    """What split('\\n') returns for an opaque text of n >= 1 lines (n symbolic); line i has length L(i)."""

    def __init__(self, n):
        self.n = n

    def __getitem__(self, i):
        # a prefix of the lines (`lines[:c]`): still the lines of the text, but possibly fewer of them
        if isinstance(i, slice) and i.start in (None, 0) and i.step in (None, 1) and (i.stop is None or (isinstance(i.stop, int) and i.stop >= 0)):
            return self if i.stop is None else _SymLines(SymInt(z3.If(self.n.t < i.stop, self.n.t, z3.IntVal(i.stop))))
        raise Unsupported(f"opaque line sequence indexed by {i!r}")


class _SymText:
    def __init__(self, n):
        self.n = n

    def split(self, sep=None, maxsplit=-1):
        if sep != "\n" or maxsplit != -1:
            raise Unsupported(f"text split by {sep!r}")
        return _SymLines(self.n)

    def __getattr__(self, name):
        raise Unsupported(f"opaque source text: .{name} is not modelled in the unbounded contract (only split('\\n'))")


def _len2(x):
    from pyvc.sym import sym_len
    if isinstance(x, _Line):
        return x.length
    return sym_len(x)


class _BisectContract:
    """bisect cut by its contract (stdlib, C implementation: assumed).  requires: a is sorted (adjacent form, proved at the call for a
    fresh index);  ensures for r = bisect_right(a, x): 0 <= r <= len(a), r > 0 -> a[r-1] <= x, r < len(a) -> x < a[r]
    (bisect_left: r > 0 -> a[r-1] < x, r < len(a) -> x <= a[r])."""

    def __init__(self, ctx, goals, hyp_at):
        self.ctx, self.goals, self.hyp_at = ctx, goals, hyp_at

    def _call(self, a, x, lo=0, hi=None, *, key=None, left=False):
        from pyvc.sym import seq_view
        if lo != 0 or hi is not None or key is not None:
            raise Unsupported("bisect with lo/hi/key")
        arr, n = seq_view(a)
        ctx = self.ctx
        j = ctx.int("sorted_at").t
        self.hyp_at(j)
        self.hyp_at(j + 1)
        self.goals.append(("bisect.requires-sorted", z3.Implies(z3.And(j >= 0, j + 1 < n), arr[j] <= arr[j + 1])))
        r = ctx.int("bisect_result")
        xt = term(x)
        ctx.assume(z3.And(r.t >= 0, r.t <= n))
        if left:
            ctx.assume(z3.And(z3.Implies(r.t > 0, arr[r.t - 1] < xt), z3.Implies(r.t < n, xt <= arr[r.t])))
        else:
            ctx.assume(z3.And(z3.Implies(r.t > 0, arr[r.t - 1] <= xt), z3.Implies(r.t < n, xt < arr[r.t])))
        self.hyp_at(r.t - 1)
        self.hyp_at(r.t)
        self.hyp_at(z3.IntVal(0))
        return r

    def bisect_right(self, a, x, lo=0, hi=None, *, key=None):
        return self._call(a, x, lo, hi, key=key)

    bisect = bisect_right

    def bisect_left(self, a, x, lo=0, hi=None, *, key=None):
        return self._call(a, x, lo, hi, key=key, left=True)


def _sm_state_names(cutf, a):
    """Which attribute of the mapping is the line table and which local the running offset: read off the state the real prologue
    produces (an empty list attribute, an integer local that is no parameter) -- the invariant does not depend on how they are named."""
    probe = object.__new__(a.SourceMapping)
    kind, _, loc = cutf.prologue(probe, "", "<probe>")
    lists = [k for k, v in probe.__dict__.items() if isinstance(v, list)]
    accs = [k for k, v in loc.items() if k not in ("self", "source", "sourceName") and isinstance(v, int) and not isinstance(v, bool)]
    if len(lists) != 1 or len(accs) != 1:
        raise Missing(f"SourceMapping.__init__: cannot identify line table / running offset before the loop (list attributes {lists}, integer locals {accs})")
    return lists[0], accs[0], {k: v for k, v in probe.__dict__.items() if k != lists[0]}, loc


UNB_REPLAY = MAP_REPLAY


@family("C20.map.unbounded", props=["C20"], functions=[AST + "::SourceMapping.__init__", AST + "::SourceMapping.GetLineFromOffset", AST + "::SourceMapping.GetLineStartOffset"],
        assumptions=["the text is opaque: split('\\n') yields n >= 1 lines, n SYMBOLIC (no bound), line i of length L(i) >= 0 (str.split trusted)",
                     "loop of SourceMapping.__init__ cut mechanically (pyvc.loopcut) at the invariant Inv(k): the line table has k entries, entry i is S(i) for every i < k, "
                     "the running offset is S(k); S(0) = 0, S(i+1) = S(i) + L(i) + 1.  Universally quantified hypotheses are instantiated explicitly, universally quantified goals are proved for a fresh index",
                     "bisect (C implementation) cut by its contract; its sortedness precondition is an obligation at the call",
                     "len shim bound in nsl.ast globals for opaque lines and symbolic-length lists"])
def c20_map_unbounded(R):
    """For every text (any number of lines, any line lengths) and every offset in [0, |text|]: the line reported for the offset is the r with
    S(r) <= offset < S(r+1), and GetLineStartOffset(i) = S(i) for every line i -- by induction over the lines (loop cut), not by enumeration."""
    import nsl.ast as a
    from pyvc import loopcut
    from pyvc.sym import SymList, seq_view, All
    INIT = AST + "::SourceMapping.__init__"
    cutf = loopcut.cut(a.SourceMapping.__init__, 0)
    tab, acc, other_attrs, _ = _sm_state_names(cutf, a)

    def fresh_state(ctx, k):
        A = z3.Array("A", z3.IntSort(), z3.IntSort())
        self = object.__new__(a.SourceMapping)
        self.__dict__.update(other_attrs)
        self.__dict__[tab] = SymList(A, k)
        return self, A

    def inv_hyp(ctx, A, k):
        inv = All(0, k, lambda i: A[i] == _S(i))
        return lambda t: ctx.assume(z3.And(inv.at(t), _spec_axioms_at(t)))

    # ---- init: Inv(0) after the statements before the loop, and the loop ranges over the lines of the text
    def run_init(ctx):
        n = ctx.int("n")
        ctx.assume(n >= 1)
        ctx.assume(_S(z3.IntVal(0)) == 0)
        self = object.__new__(a.SourceMapping)
        text = _SymText(n)
        with patched(a, len=_len2):
            kind, _, loc = cutf.prologue(self, text, "<f>")
            it = cutf.iterable(**{k: v for k, v in loc.items() if k in cutf.params})
        arr, ln = seq_view(self.__dict__[tab])
        return [("init.table-empty", ln == 0), ("init.offset-zero", term(loc[acc]) == _S(z3.IntVal(0))), ("init.ranges-over-all-lines", (it.n.t == n.t) if isinstance(it, _SymLines) else False)]

    def replay_init(model, clause):
        k = int(model.get("n", 3))
        return dict(script=MAP_REPLAY.replace("{{texts}}", repr(_texts_from(model, 2) + (["\n".join("ab" for _ in range(k))] if 1 <= k <= 20000 else []))))

    verify(R, "C20.map.unbounded", INIT, run_init, replay_init, label="loop-cut")

    # ---- preserve: Inv(k) and k < n  ==>  Inv(k + 1) after one iteration on line k
    def run_pres(ctx):
        n, k, j = ctx.int("n"), ctx.int("k"), ctx.int("j")
        ctx.assume(n >= 1)
        ctx.assume(k >= 0)
        ctx.assume(k.t < n.t)
        self, A = fresh_state(ctx, k)
        cur0 = ctx.int("offset")
        ctx.assume(cur0.t == _S(k.t))
        hyp = inv_hyp(ctx, A, k.t)
        hyp(j.t)
        hyp(k.t)
        state = dict(self=self, source=_SymText(n), sourceName="<f>")
        state[acc] = cur0
        with patched(a, len=_len2):
            kind, _, loc = cutf.step(cut_elem_=_Line(SymInt(_L(k.t))), **state)
        arr, ln = seq_view(self.__dict__[tab])
        inv2 = All(0, k.t + 1, lambda i: arr[i] == _S(i))
        return [("preserve.completes-the-iteration", kind in ("next", "continue")),
                ("preserve.one-entry-per-line", ln == k.t + 1),
                ("preserve.entries-are-line-starts", inv2.at(j.t)),
                ("preserve.offset-is-next-line-start", term(loc[acc]) == _S(k.t + 1))]

    def replay_pres(model, clause):
        return dict(script=MAP_REPLAY.replace("{{texts}}", repr(_texts_from({"len0": 3, "len1": 0, "len2": 2}, 3))))

    verify(R, "C20.map.unbounded", INIT, run_pres, replay_pres, label="loop-cut")

    # ---- exit: with Inv(n) the statements after the loop leave the table as it is (postcondition of __init__ = Inv(n))
    def run_exit(ctx):
        n, j = ctx.int("n"), ctx.int("j")
        ctx.assume(n >= 1)
        self, A = fresh_state(ctx, n)
        cur0 = ctx.int("offset")
        ctx.assume(cur0.t == _S(n.t))
        inv_hyp(ctx, A, n.t)(j.t)
        state = dict(self=self, source=_SymText(n), sourceName="<f>")
        state[acc] = cur0
        with patched(a, len=_len2):
            kind, val, loc = cutf.epilogue(**state)
        arr, ln = seq_view(self.__dict__[tab])
        return [("exit.table-complete", z3.And(ln == n.t, All(0, n.t, lambda i: arr[i] == _S(i)).at(j.t))), ("exit.returns-none", val is None)]

    verify(R, "C20.map.unbounded", INIT, run_exit, replay_pres, label="loop-cut")

    # ---- lookups on the state Inv(n) describes
    def run_lookup(ctx):
        n, off = ctx.int("n"), ctx.int("off")
        ctx.assume(n >= 1)
        self, A = fresh_state(ctx, n)
        hyp = inv_hyp(ctx, A, n.t)
        ctx.assume(off >= 0)
        ctx.assume(off.t <= _S(n.t) - 1)          # |text| = S(n) - 1
        hyp(n.t - 1)
        goals = []
        with patched(a, len=_len2, bisect=_BisectContract(ctx, goals, hyp)):
            r = m_line(self, off)
        rt = term(r)
        hyp(rt)
        goals.append(("lookup.line-in-range", z3.And(rt >= 0, rt < n.t)))
        goals.append(("lookup.line-contains-offset", z3.And(_S(rt) <= off.t, off.t < _S(rt + 1))))
        return goals

    m_line = a.SourceMapping.GetLineFromOffset
    verify(R, "C20.map.unbounded", AST + "::SourceMapping.GetLineFromOffset", run_lookup, replay_pres, label="any-number-of-lines")

    def run_start(ctx):
        n, i = ctx.int("n"), ctx.int("line")
        ctx.assume(n >= 1)
        ctx.assume(i >= 0)
        ctx.assume(i.t < n.t)
        self, A = fresh_state(ctx, n)
        inv_hyp(ctx, A, n.t)(i.t)
        with patched(a, len=_len2):
            r = a.SourceMapping.GetLineStartOffset(self, i)
        return [("line-start", term(r) == _S(i.t))]

    verify(R, "C20.map.unbounded", AST + "::SourceMapping.GetLineStartOffset", run_start, replay_pres, label="any-number-of-lines")


@family("C20.str", props=["C20"], functions=[AST + "::Location.__str__", AST + "::Location.__init__", AST + "::Location.GetBegin", AST + "::Location.GetEnd", AST + "::Location.IsUnknown"],
        assumptions=["formatted numbers are traced as tokens (FormatTrace): the code under contract builds the text with str.format and compares no strings",
                     "line count enumerated 1..4, line lengths and offsets symbolic"])
def c20_str(R):
    """str(Location[b,e)) on a mapping is 'L:c-d' (one line) or 'L1:c-L2:d' (several) with L = 1 + line of the offset and c, d the offsets
    relative to the start of THEIR OWN line, plus 1 (1-based, end exclusive); the unknown location prints '<unknown>'."""
    import nsl.ast as a
    R.check("C20.str.unknown", AST + "::Location.__str__", str(a.Location((-1, -1))) == "<unknown>", detail=f"unknown location prints {str(a.Location((-1, -1)))!r}")
    for k in (1, 2, 3, 4):
        def run(ctx, k=k):
            m, lens, starts, total = _mapping(ctx, k)
            b, e = ctx.int("b"), ctx.int("e")
            ctx.assume(b >= 0)
            ctx.assume(e.t >= b.t)
            ctx.assume(e.t <= total)
            loc = a.Location((b, e), m)
            with FormatTrace() as ft:
                text = str(loc)
            parts = ft.parse(text)
            lits = "".join(p if isinstance(p, str) else "#" for p in parts)
            nums = [p for p in parts if not isinstance(p, str)]
            nums += [z3.IntVal(int(x)) for x in []]
            # numbers may also have been concrete: re-read them from the literal pieces
            seq = []
            for p in parts:
                if isinstance(p, str):
                    for tok in re.findall(r"\d+|[^\d]+", p):
                        seq.append(z3.IntVal(int(tok)) if tok.isdigit() else tok)
                else:
                    seq.append(p)
            shape = "".join(x if isinstance(x, str) else "#" for x in seq)
            vals = [x for x in seq if not isinstance(x, str)]

            def line_of(o):
                r = z3.IntVal(0)
                for i in range(k):
                    r = z3.If(o >= starts[i], i, r)
                return r

            def start_of(o):
                r = z3.IntVal(0)
                for i in range(k):
                    r = z3.If(o >= starts[i], starts[i], r)
                return r

            lb, le = line_of(b.t), line_of(e.t)
            if shape == "#:#-#":
                goal = z3.And(lb == le, vals[0] == lb + 1, vals[1] == b.t - start_of(b.t) + 1, vals[2] == e.t - start_of(b.t) + 1)
            elif shape == "#:#-#:#":
                goal = z3.And(lb != le, vals[0] == lb + 1, vals[1] == b.t - start_of(b.t) + 1, vals[2] == le + 1, vals[3] == e.t - start_of(e.t) + 1)
            else:
                goal = z3.BoolVal(False)
            return [("format", goal, f"printed shape {shape!r}")]

        def replay(model, clause, k=k):
            lens = [max(0, min(int(model.get(f"len{i}", 3)), 8)) for i in range(k)]
            b, e = int(model.get("b", 0)), int(model.get("e", 0))
            return script("""
                from nsl import ast
                lens, b, e = {{lens}}, {{b}}, {{e}}
                t = "\\n".join("x" * n for n in lens)
                b = min(b, len(t)); e = max(b, min(e, len(t)))
                m = ast.SourceMapping(t)
                got = str(ast.Location((b, e), m))
                lb, le = t.count("\\n", 0, b), t.count("\\n", 0, e)
                sb, se = t.rfind("\\n", 0, b) + 1, t.rfind("\\n", 0, e) + 1
                want = "%d:%d-%d" % (lb + 1, b - sb + 1, e - sb + 1) if lb == le else "%d:%d-%d:%d" % (lb + 1, b - sb + 1, le + 1, e - se + 1)
                print(repr(t), (b, e), '->', got, '; expected', want)
                if got != want: print('REPLAY-CONFIRMED')
                """, lens=lens, b=b, e=e)

        verify(R, "C20.str", AST + "::Location.__str__", run, replay, label=f"{k}-lines")


# ---------------------------------------------------------------------------------------------------------------------------------
# C20.merge.unbounded: Location.Merge for ANY number of arguments (a block or a module has any number of children): loop cut.

_B = z3.Function("B", z3.IntSort(), z3.IntSort())        # B(i), E(i): span of the i-th argument
_E = z3.Function("E", z3.IntSort(), z3.IntSort())


class _SymArgs:
    """The argument tuple of Merge(*args) with a symbolic number n of locations; element i is a real Location with span (B(i), E(i))
    (element 0 carries the mapping).  Supports what the code may do before the loop: args[0], args[c:], len(args)."""

    def __init__(self, n, mapping, start=0):
        self.n, self.mapping, self.start = n, mapping, start
        self.sym_length = SymInt(n.t - start)

    def elem(self, i):
        import nsl.ast as a
        i = term(i)
        return a.Location((SymInt(_B(i)), SymInt(_E(i))), self.mapping if (z3.is_int_value(z3.simplify(i)) and z3.simplify(i).as_long() == 0) else None)

    def __getitem__(self, i):
        if isinstance(i, int) and i >= 0:
            if not cur().decide(self.sym_length.t > i):
                raise IndexError("tuple index out of range")
            return self.elem(self.start + i)
        if isinstance(i, slice) and isinstance(i.start, int) and i.start >= 0 and i.stop is None and i.step in (None, 1):
            return _SymArgs(self.n, self.mapping, self.start + i.start)
        raise Unsupported(f"argument tuple indexed by {i!r}")

    def __iter__(self):
        raise Unsupported("iteration over a symbolic-length argument tuple outside the cut loop")


@family("C20.merge.unbounded", props=["C20"], functions=[AST + "::Location.Merge"],
        assumptions=["the number n >= 1 of merged locations is SYMBOLIC (no bound); location i has the span (B(i), E(i)) with 0 <= B(i) <= E(i)",
                     "loop of Location.Merge cut mechanically (pyvc.loopcut) at the invariant Inv(k), k = number of arguments merged so far: the running span covers the spans of arguments 0..k-1 "
                     "(proved for a fresh index) and its begin / end are the begin / end of one of them (witness indices); universally quantified hypotheses are instantiated explicitly",
                     "len shim bound in nsl.ast globals"])
def c20_merge_unbounded(R):
    """Merge(l0 .. ln-1), any n >= 1: the result begins at the least begin and ends at the greatest end of the arguments (covers every
    argument, and both ends are ends of arguments) and keeps the first argument's mapping -- by induction over the arguments (loop cut)."""
    import nsl.ast as a
    from pyvc import loopcut
    from pyvc.sym import All
    MERGE = AST + "::Location.Merge"
    fn = a.Location.__dict__["Merge"].__func__
    cutf = loopcut.cut(fn, 0)
    M = object()

    def span_ok(ctx, t):
        ctx.assume(z3.And(_B(term(t)) >= 0, _E(term(t)) >= _B(term(t))))

    def find_state(loc):
        """The running span is the local that holds a pair; the mapping the local that holds M."""
        pairs = [k for k, v in loc.items() if isinstance(v, tuple) and len(v) == 2 and k not in ("args",)]
        maps = [k for k, v in loc.items() if v is M]
        if len(pairs) != 1 or len(maps) != 1:
            raise Missing(f"Location.Merge: cannot identify running span / mapping before the loop (pairs {pairs}, mapping holders {maps})")
        return pairs[0], maps[0]

    def prologue(ctx, n):
        args = _SymArgs(n, M)
        span_ok(ctx, 0)
        with patched(a, len=_len2):
            kind, _, loc = cutf.prologue(a.Location, args)
            it = cutf.iterable(**{k: v for k, v in loc.items() if k in cutf.params})
        return args, loc, it

    names = {}

    def run_init(ctx):
        n = ctx.int("n")
        ctx.assume(n >= 1)
        args, loc, it = prologue(ctx, n)
        sp, mp = find_state(loc)
        names["sp"], names["mp"] = sp, mp
        r = loc[sp]
        return [("init.span-of-first", z3.And(term(r[0]) == _B(z3.IntVal(0)), term(r[1]) == _E(z3.IntVal(0)))),
                ("init.ranges-over-all-other-arguments", z3.And(term(it.sym_length) == n.t - 1, z3.BoolVal(it.start == 1)) if isinstance(it, _SymArgs) else False)]

    def replay(model, clause):
        return script("""
            from nsl import ast
            import itertools
            bad = None
            m = object()
            for n in (1, 2, 3, 5, 8):
                for spans in itertools.islice(itertools.product([(4, 6), (0, 2), (5, 9), (3, 3)], repeat=n), 3000):
                    r = ast.Location.Merge(*[ast.Location(s, m if i == 0 else None) for i, s in enumerate(spans)])
                    want = (min(b for b, e in spans), max(e for b, e in spans))
                    if (r.GetBegin(), r.GetEnd()) != want or r._Location__sourceMapping is not m:
                        bad = (spans, (r.GetBegin(), r.GetEnd()), want); break
                if bad: break
            print('first disagreement (spans, merged, hull):', bad)
            if bad: print('REPLAY-CONFIRMED')
            """)

    verify(R, "C20.merge.unbounded", MERGE, run_init, replay, label="loop-cut")
    if "sp" not in names:
        return
    sp, mp = names["sp"], names["mp"]

    def havoc(ctx, n, k):
        """A state with Inv(k): k arguments merged."""
        r0, r1, w0, w1 = ctx.int("r0"), ctx.int("r1"), ctx.int("w0"), ctx.int("w1")
        ctx.assume(z3.And(w0.t >= 0, w0.t < k, w1.t >= 0, w1.t < k, r0.t == _B(w0.t), r1.t == _E(w1.t)))
        covers = All(0, k, lambda i: z3.And(r0.t <= _B(i), r1.t >= _E(i)))
        for w in (w0.t, w1.t):                 # instances of the invariant and of 0 <= B(i) <= E(i) at the witnesses
            ctx.assume(z3.And(covers.at(w), _B(w) >= 0, _E(w) >= _B(w)))
        return (r0, r1), covers

    def run_pres(ctx):
        n, k, j = ctx.int("n"), ctx.int("k"), ctx.int("j")
        ctx.assume(n >= 1)
        ctx.assume(z3.And(k.t >= 1, k.t < n.t))
        (r0, r1), covers = havoc(ctx, n, k.t)
        ctx.assume(covers.at(j.t))
        span_ok(ctx, k.t)
        args = _SymArgs(n, M)
        state = {"cls": a.Location, "args": args, sp: (r0, r1), mp: M}
        with patched(a, len=_len2):
            kind, _, loc = cutf.step(cut_elem_=args.elem(k.t), **state)
        q = loc[sp]
        q0, q1 = term(q[0]), term(q[1])
        return [("preserve.completes-the-iteration", kind in ("next", "continue")),
                ("preserve.covers", All(0, k.t + 1, lambda i: z3.And(q0 <= _B(i), q1 >= _E(i))).at(j.t)),
                ("preserve.tight", z3.And(z3.Or(q0 == r0.t, q0 == _B(k.t)), z3.Or(q1 == r1.t, q1 == _E(k.t)))),
                ("preserve.mapping-kept", loc[mp] is M)]

    verify(R, "C20.merge.unbounded", MERGE, run_pres, replay, label="loop-cut")

    def run_exit(ctx):
        n, j = ctx.int("n"), ctx.int("j")
        ctx.assume(n >= 1)
        (r0, r1), covers = havoc(ctx, n, n.t)
        ctx.assume(covers.at(j.t))
        args = _SymArgs(n, M)
        state = {"cls": a.Location, "args": args, sp: (r0, r1), mp: M}
        with patched(a, len=_len2):
            kind, val, loc = cutf.epilogue(**state)
        if not isinstance(val, a.Location):
            return [("exit.returns-a-location", False)]
        b, e = term(val.GetBegin()), term(val.GetEnd())
        return [("exit.hull-covers", All(0, n.t, lambda i: z3.And(b <= _B(i), e >= _E(i))).at(j.t)),
                ("exit.hull-tight", z3.And(b == r0.t, e == r1.t)),
                ("exit.mapping-of-first", getattr(val, "_Location__sourceMapping", None) is M)]

    verify(R, "C20.merge.unbounded", MERGE, run_exit, replay, label="loop-cut")


@family("C20.merge", props=["C20"], functions=[AST + "::Location.Merge", "nsl.passes.UpdateLocations::UpdateLocationsVisitor.v_Generic"],
        assumptions=["induction on tree height: children are opaque nodes whose location (already the hull of their subtree, by hypothesis) is a symbolic span or unknown"])
def c20_merge(R):
    """Merge(l1..ln) is the hull [min begin, max end) with the first argument's mapping; after UpdateLocations.v_Generic(node) the node's
    range is the hull of its own known location and the known locations of all its children (for every node class), so it covers all its parts."""
    import nsl.ast as a
    UL = resolve("nsl.passes.UpdateLocations::UpdateLocationsVisitor")
    for n in (1, 2, 3, 4):
        def run(ctx, n=n):
            m = object()
            spans = []
            for i in range(n):
                b, e = ctx.int(f"b{i}"), ctx.int(f"e{i}")
                ctx.assume(b >= 0)
                ctx.assume(e.t >= b.t)
                spans.append((b, e))
            locs = [a.Location(s, m if i == 0 else None) for i, s in enumerate(spans)]
            r = a.Location.Merge(*locs)
            rb, re_ = term(r.GetBegin()), term(r.GetEnd())
            return [("hull-covers", z3.And(*[z3.And(rb <= b.t, re_ >= e.t) for b, e in spans])),
                    ("hull-tight", z3.And(z3.Or(*[rb == b.t for b, _ in spans]), z3.Or(*[re_ == e.t for _, e in spans]))),
                    ("mapping-of-first", z3.BoolVal(getattr(r, "_Location__sourceMapping", None) is m))]

        verify(R, "C20.merge", AST + "::Location.Merge", run, label=f"{n}-args")

    for label, mk in ag.all_shapes().items():
        for own_known, pattern in itertools.product((False, True), ("all", "none", "even", "odd")):
            if pattern != "all" and not ag.children_of(mk()[0]):
                continue

            def run(ctx, mk=mk, own_known=own_known, pattern=pattern):
                node, _ = mk()
                kids = ag.children_of(node)
                spans = {}
                for i, kid in enumerate(kids):
                    known = dict(all=True, none=False, even=i % 2 == 0, odd=i % 2 == 1)[pattern]
                    if known:
                        b, e = ctx.int(f"b{i}"), ctx.int(f"e{i}")
                        ctx.assume(b >= 0)
                        ctx.assume(e.t >= b.t)
                        kid.SetLocation(a.Location((b, e)))
                        spans[id(kid)] = (b.t, e.t)
                if own_known:
                    b, e = ctx.int("bo"), ctx.int("eo")
                    ctx.assume(b >= 0)
                    ctx.assume(e.t >= b.t)
                    node.SetLocation(a.Location((b, e)))
                    spans["own"] = (b.t, e.t)
                v = UL()
                visited = []
                real = UL.v_Generic

                def spy(obj, c=None):
                    if obj is node:
                        return real(v, obj, c)
                    visited.append(obj)      # hypothesis: the child's location is already the hull of its subtree
                    return None

                v.v_Generic = spy
                try:
                    v.v_Generic(node, None)
                finally:
                    del v.v_Generic
                loc = node.GetLocation()
                goals = [("children-updated-first", z3.BoolVal(sorted(map(id, visited)) == sorted(map(id, kids))), f"visited {len(visited)} of {len(kids)} children")]
                if not spans:
                    goals.append(("stays-unknown", z3.BoolVal(bool(loc.IsUnknown))))
                    return goals
                rb, re_ = term(loc.GetBegin()), term(loc.GetEnd())
                goals.append(("covers-all-parts", z3.And(*[z3.And(rb <= b, re_ >= e) for b, e in spans.values()]), f"{type(node).__name__}"))
                goals.append(("tight", z3.And(z3.Or(*[rb == b for b, _ in spans.values()]), z3.Or(*[re_ == e for _, e in spans.values()]))))
                return goals

            verify(R, "C20.hull", "nsl.passes.UpdateLocations::UpdateLocationsVisitor.v_Generic", run, label=f"{label},{'own-known' if own_known else 'own-unknown'},children-{pattern}", max_paths=3000)


# ---------------------------------------------------------------------------
# grammar actions that attach a location

class FakeP:
    """Stand-in for ply.yacc.YaccProduction: p[i], p[i] = v, len(p), p.lexpos(i)."""

    def __init__(self, values, lexpos):
        self.v = [None] + list(values)
        self.pos = [None] + list(lexpos)

    def __getitem__(self, i):
        return self.v[i]

    def __setitem__(self, i, x):
        self.v[i] = x

    def __len__(self):
        return len(self.v)

    def lexpos(self, i):
        return self.pos[i]


def new_parser():
    import nsl.parser as P
    p = object.__new__(P.NslParser)
    p._NslParser__sourceMapping = object()
    return p


# production -> (token values, index of the token naming the node, how to find the located node in p[0])
def _loc_cases():
    import nsl.types as ty
    a = ag.A()
    return {
        "p_argument_1": ([None, ty.Integer(), "name"], 3, lambda r, p: r),
        "p_constant_integer_expression_1": (["123"], 1, lambda r, p: r),
        "p_constant_integer_expression_2": (["017"], 1, lambda r, p: r),
        "p_constant_integer_expression_3": (["0x1F"], 1, lambda r, p: r),
        "p_constant_float_expression": (["1.5"], 1, lambda r, p: r),
        "p_unary_expression_1": (["name"], 1, lambda r, p: r),
        "p_unary_expression_3": (["++", "name"], 2, lambda r, p: r.GetExpression()),
        "p_unary_expression_3/--": (["--", "name"], 2, lambda r, p: r.GetExpression()),
        "p_unary_expression_4": (["name", "++"], 1, lambda r, p: r.GetExpression()),
        "p_unary_expression_4/--": (["name", "--"], 1, lambda r, p: r.GetExpression()),
        "p_array_expression_1": (["name", "[", ag.E("i"), "]"], 1, lambda r, p: r.GetParent()),
        "p_member_access_expression_1": (["name", ".", "member"], 1, lambda r, p: r.GetParent()),
        "p_member_access_expression_1/member": (["name", ".", "member"], 3, lambda r, p: r.GetMember()),
        "p_member_access_expression_2": ([ag.E("p"), ".", "member"], 3, lambda r, p: r.GetMember()),
        "p_var_decl_1": ([ty.Integer(), "name"], 2, lambda r, p: r),
        "p_var_decl_2": ([ty.Integer(), "name", "=", ag.E("init")], 2, lambda r, p: r),
    }


@family("C20.parse.loc", props=["C20"], functions=["nsl.parser::NslParser.__GetLocation"] + ["nsl.parser::NslParser." + k.split("/")[0] for k in
                                                                                               ("p_argument_1", "p_constant_integer_expression_1", "p_constant_integer_expression_2", "p_constant_integer_expression_3",
                                                                                                "p_constant_float_expression", "p_unary_expression_1", "p_unary_expression_3", "p_unary_expression_4", "p_array_expression_1",
                                                                                                "p_member_access_expression_1", "p_member_access_expression_2", "p_var_decl_1", "p_var_decl_2")],
        assumptions=["PLY axiom: for a terminal at position k of a production, source[p.lexpos(k) : p.lexpos(k) + len(p[k])] == p[k]",
                     "the real action methods run on a parser object created without __init__ and a stand-in production object; token offsets are symbolic"])
def c20_parse_loc(R):
    """Every grammar action that attaches a location attaches [lexpos(k), lexpos(k)+len(token k)) where k is the token the node's name/value
    was taken from -- so the reported range designates exactly the characters of that entity."""
    for label, (values, k, pick) in _loc_cases().items():
        meth = label.split("/")[0]

        def run(ctx, values=values, k=k, pick=pick, meth=meth):
            parser = new_parser()
            pos = []
            for i in range(len(values)):
                q = ctx.int(f"pos{i + 1}")
                ctx.assume(q >= 0)
                if i:
                    ctx.assume(q.t > pos[-1].t)
                pos.append(q)
            p = FakeP(list(values), pos)
            tok = values[k - 1]
            f = resolve("nsl.parser::NslParser." + meth)
            f(parser, p)
            node = pick(p[0], p)
            loc = node.GetLocation()
            return [("designates-the-token", z3.And(term(loc.GetBegin()) == pos[k - 1].t, term(loc.GetEnd()) == pos[k - 1].t + len(tok)), f"{meth}: token {tok!r} at position {k}"),
                    ("has-mapping", z3.BoolVal(getattr(loc, "_Location__sourceMapping", None) is parser._NslParser__sourceMapping))]

        def replay(model, clause, label=label):
            return script("""
                from nsl import parser, ast
                P = parser.NslParser(parser.ParseEntryPoint.Statement)
                srcs = {'p_unary_expression_3': ('  \\n    ++counter;', 'counter'), 'p_unary_expression_4': ('  \\n   counter++;', 'counter'),
                        'p_unary_expression_1': ('\\n  alpha;', 'alpha'), 'p_var_decl_1': (' int  beta;', 'beta'), 'p_var_decl_2': (' int\\n beta = 1;', 'beta'),
                        'p_array_expression_1': (' arr[1];', 'arr'), 'p_member_access_expression_1': ('\\n vec.xy;', 'vec'),
                        'p_member_access_expression_2': (' a[0].member;', 'member'), 'p_constant_integer_expression_1': (' x = 123;', '123'),
                        'p_constant_integer_expression_2': (' x = 017;', '017'), 'p_constant_integer_expression_3': (' x = 0x1F;', '0x1F'),
                        'p_constant_float_expression': (' x = 1.5;', '1.5')}
                key = {{label}}.split('/')[0]
                src, name = srcs.get(key, srcs['p_unary_expression_1'])
                if {{label}}.endswith('/--'): src = src.replace('++', '--')
                if {{label}}.endswith('/member'): name = 'xy'
                tree = P.Parse(src)
                found = []
                def walk(n):
                    if isinstance(n, (ast.PrimaryExpression, ast.VariableDeclaration, ast.LiteralExpression)):
                        l = n.GetLocation()
                        if not l.IsUnknown: found.append((src[l.GetBegin():l.GetEnd()], str(l)))
                    n.ForEachChild(lambda c, ctx: walk(c))
                walk(tree)
                print(repr(src), 'located entities:', found)
                if not any(t == name for t, _ in found): print('REPLAY-CONFIRMED')
                """, label=label)

        verify(R, "C20.parse.loc", "nsl.parser::NslParser." + meth, run, replay, label=label)


def _layout_programs():
    toks = ["int", "total", ";", "export", "function", "compute", "(", "int", "first", ",", "float", "second", ")", "->", "int", "{",
            "int", "local", "=", "first", ";", "local", "=", "(", "local", "+", "total", ")", ";", "++", "local", ";", "local", "++", ";",
            "return", "local", ";", "}"]
    seps = [lambda i: " ", lambda i: "\n" if i % 3 == 0 else " ", lambda i: "\n\n\t" if i % 5 == 0 else "  ", lambda i: "\t", lambda i: "\n  " if i % 2 else " \t "]
    out = []
    for f in seps:
        out.append("".join(t + f(i) for i, t in enumerate(toks)))
    out.append("/* */".replace("/* */", "") + "\n\n   " + " ".join(toks))
    out.append("\ufeff" + out[1])          # a text that starts with a byte order mark (what a UTF-8-with-BOM file reads as): offsets count it
    return out


LEX_REPLAY = """
import io, contextlib
import nsl.lexer as L
text = {{text}}
lx = L.NslLexer()
if not hasattr(lx, 'lexer'):
    with contextlib.redirect_stdout(io.StringIO()), contextlib.redirect_stderr(io.StringIO()):
        lx.Build() if hasattr(lx, 'Build') else lx.build()
lx.input(text)
bad = []
while True:
    tok = lx.token()
    if tok is None: break
    inner = lx.lexer if hasattr(lx, 'lexer') else lx
    matched = text[tok.lexpos:inner.lexpos]
    if len(str(tok.value)) != len(matched) or str(tok.value) != matched:
        bad.append((tok.type, tok.lexpos, tok.value, matched))
print('tokens whose value is not the text they were matched from (type, offset, value, matched text):', bad[:6])
if bad: print('REPLAY-CONFIRMED')
"""


@family("C20.lex.frame", props=["C20"], functions=["nsl.lexer::NslLexer", "nsl.parser::NslParser.__GetLocation"],
        assumptions=["PLY axiom: the token handed to a rule's action has value = the matched text and lexpos = its offset; rules given as plain regular expressions have no action",
                     "syntactic frame condition, decided on the source of every t_* action of NslLexer on every run: the action stores to nothing but t.type, t.lineno and t.lexer.lineno, "
                     "does not rebind or hand on the token, and returns the token it was given or nothing (t_error, which yields no token, may also call t.lexer.skip)"])
def c20_lex_frame(R):
    """The parser's __GetLocation takes [lexpos, lexpos + len(value)) for the range of a token; that is the token's text only if no lexer action
    changes value or lexpos.  Frame condition on every action, for all token texts."""
    import ast as pyast, inspect, textwrap
    L = resolve("nsl.lexer::NslLexer")
    LEX = "nsl.lexer::NslLexer"
    sample = "f(1.5, 0.5f, 1.f, 2e3, 3.0F, 1.0L, 12, 0x1F, 017, 5u, foo, for, x_1) \"s\" a<=b"
    rp = dict(script=LEX_REPLAY.replace("{{text}}", repr(sample)))
    n = 0
    for name, fn in sorted(vars(L).items()):
        if not name.startswith("t_") or not inspect.isfunction(fn):
            continue
        n += 1
        try:
            fd = pyast.parse(textwrap.dedent(inspect.getsource(fn)).lstrip("﻿")).body[0]
        except (OSError, SyntaxError) as e:
            R.undecided(f"C20.lex.frame[{name}]", LEX + "." + name, f"no source: {e}")
            continue
        params = [x.arg for x in fd.args.args]
        tok = params[1] if len(params) > 1 else None
        problems, unknown = [], []

        def chain(node):
            parts = []
            while isinstance(node, pyast.Attribute):
                parts.append(node.attr)
                node = node.value
            if isinstance(node, pyast.Subscript):
                return chain(node.value)
            return (node.id if isinstance(node, pyast.Name) else None), tuple(reversed(parts))

        allowed = {("type",), ("lineno",), ("lexer", "lineno")}
        for node in pyast.walk(fd):
            targets = []
            if isinstance(node, pyast.Assign):
                targets = node.targets
            elif isinstance(node, (pyast.AugAssign, pyast.AnnAssign)):
                targets = [node.target]
            elif isinstance(node, pyast.Delete):
                targets = node.targets
            elif isinstance(node, (pyast.For, pyast.comprehension)):
                targets = [node.target]
            elif isinstance(node, pyast.NamedExpr):
                targets = [node.target]
            flat = []
            for t in targets:
                flat.extend(t.elts if isinstance(t, (pyast.Tuple, pyast.List)) else [t])
            for t in flat:
                if isinstance(t, pyast.Name) and t.id == tok:
                    unknown.append(f"line {t.lineno}: the token variable is rebound")
                root, parts = chain(t) if isinstance(t, (pyast.Attribute, pyast.Subscript)) else (None, ())
                if root == tok and parts not in allowed:
                    problems.append(f"line {t.lineno}: stores to {tok}.{'.'.join(parts)}")
            if isinstance(node, pyast.Call):
                fname = chain(node.func) if isinstance(node.func, pyast.Attribute) else ((node.func.id if isinstance(node.func, pyast.Name) else None), ())
                args = list(node.args) + [k.value for k in node.keywords]
                if any(isinstance(x, pyast.Name) and x.id == tok for x in args):
                    (problems if fname[0] in ("setattr", "delattr") else unknown).append(f"line {node.lineno}: the token is handed to {pyast.unparse(node.func)}")
                if fname[0] == tok and fname[1][:1] == ("lexer",) and not (name == "t_error" and fname[1] == ("lexer", "skip")):
                    unknown.append(f"line {node.lineno}: calls {pyast.unparse(node.func)}")
                if fname[0] == tok and fname[1] and fname[1][-1] in ("__setattr__", "__delattr__"):
                    problems.append(f"line {node.lineno}: {pyast.unparse(node.func)}")
            if isinstance(node, pyast.Attribute) and node.attr == "__dict__" and chain(node)[0] == tok:
                unknown.append(f"line {node.lineno}: {tok}.__dict__")
            if isinstance(node, pyast.Return) and node.value is not None and not (isinstance(node.value, pyast.Name) and node.value.id == tok) \
                    and not (isinstance(node.value, pyast.Constant) and node.value.value is None):
                problems.append(f"line {node.lineno}: returns {pyast.unparse(node.value)} instead of the token")
        oid = f"C20.lex.frame[{name}]"
        if problems:
            R.fail(oid, LEX + "." + name, "; ".join(problems), replay=rp, backend="frame-check")
        elif unknown:
            R.undecided(oid, LEX + "." + name, "; ".join(unknown))
        else:
            R.ok(oid, LEX + "." + name, "frame-check", detail="assigns only type / lineno")
    R.check("C20.lex.frame.actions-found", LEX, n >= 3, detail=f"{n} token actions")
    # the consumer: __GetLocation(p, i) is [p.lexpos(i), p.lexpos(i) + len(p[i]))
    import nsl.parser as P

    def run(ctx):
        off, ln = ctx.int("off"), ctx.int("len")
        ctx.assume(off >= 0)
        ctx.assume(ln >= 0)

        class V:
            sym_length = ln
        with patched(P, len=_len2):
            loc = P.NslParser._NslParser__GetLocation(new_parser(), FakeP([V()], [off]), 1)
        return [("range-is-offset-plus-length", z3.And(term(loc.GetBegin()) == off.t, term(loc.GetEnd()) == off.t + ln.t))]

    verify(R, "C20.lex.consumer", "nsl.parser::NslParser.__GetLocation", run, lambda m, c: rp)


class _NumText:
    """Opaque text of an integer literal token: `prefix` leading characters (0x) followed by digits whose numeric value is the symbolic integer `value`."""

    def __init__(self, value, kind, prefix, length):
        self.value, self.kind, self.prefix, self.sym_length = value, kind, prefix, length

    def __getitem__(self, i):
        if isinstance(i, slice) and i.start == self.prefix and i.stop is None and i.step in (None, 1):
            return _NumText(self.value, self.kind, 0, SymInt(self.sym_length.t - self.prefix))
        raise Unsupported(f"literal text indexed by {i!r}")

    def __getattr__(self, name):
        raise Unsupported(f"opaque literal text: .{name} is not modelled")


def _int_contract(x=0, base=10):
    """int(text, base) cut by its contract (builtin, trusted): the numeric value of the digits, for the base the digits are written in."""
    if not isinstance(x, _NumText):
        return int(x, base) if isinstance(x, str) else int(x)
    ok = {"dec": x.prefix == 0 and base in (10, 0), "oct": x.prefix == 0 and base == 8, "hex": (x.prefix == 0 and base == 16) or (x.prefix == 2 and base in (16, 0))}[x.kind]
    if not ok:
        raise ValueError(f"invalid literal for int() with base {base}")
    return x.value


@family("C13.literal.value", props=["C13", "C01"], functions=["nsl.parser::NslParser.p_constant_integer_expression_1", "nsl.parser::NslParser.p_constant_integer_expression_2", "nsl.parser::NslParser.p_constant_integer_expression_3"],
        assumptions=["the literal's text is opaque; int(text, base) is cut by its contract (the numeric value of the digits: an UNBOUNDED symbolic integer, negative values included for the signed decimal form)",
                     "integer suffixes (u, l) are not modelled (int() rejects them natively)"])
def c13_literal_value(R):
    """An integer literal denotes its mathematical value, whatever its magnitude: the bounds check (C13) and every use of a constant (C01) see the
    number that was written.  For every decimal, octal and hexadecimal literal text: the LiteralExpression the grammar action builds holds that number, typed int."""
    import nsl.parser as P
    import nsl.ast as a
    from nsl import types as ty
    for prod, kind, prefix, render in (("p_constant_integer_expression_1", "dec", 0, "%d"), ("p_constant_integer_expression_2", "oct", 0, "0%o"), ("p_constant_integer_expression_3", "hex", 2, "0x%X")):
        fn = resolve("nsl.parser::NslParser." + prod)

        def run(ctx, fn=fn, kind=kind, prefix=prefix):
            v, off, ln = ctx.int("v"), ctx.int("off"), ctx.int("len")
            ctx.assume(off >= 0)
            ctx.assume(ln.t >= 1 + prefix)
            if kind != "dec":
                ctx.assume(v >= 0)
            p = FakeP([_NumText(v, kind, prefix, ln)], [off])
            with patched(P, len=_len2, int=_int_contract):
                fn(new_parser(), p)
            lit = p[0]
            if not isinstance(lit, a.LiteralExpression):
                return [("builds-a-literal", False)]
            return [("value-is-the-number-written", term(lit.GetValue()) == v.t), ("typed-int", lit.GetType() == ty.Integer())]

        def replay(model, clause, render=render, kind=kind):
            v = int(model.get("v", 7))
            if kind != "dec":
                v = abs(v)
            return script("""
                import io, contextlib
                from nsl import parser, ast
                v = {{v}}
                text = {{render}} % v
                src = 'export function f() -> int { return %s; }' % text
                with contextlib.redirect_stdout(io.StringIO()):
                    tree = parser.NslParser().Parse(src)
                found = []
                def walk(n):
                    if isinstance(n, ast.LiteralExpression): found.append(n.GetValue())
                    n.ForEachChild(lambda c, ctx=None: walk(c))
                walk(tree)
                print(src, '-> literal values in the tree:', found, '; the number written:', v)
                if found != [v]: print('REPLAY-CONFIRMED')
                """, v=v, render=render)

        verify(R, "C13.literal.value", "nsl.parser::NslParser." + prod, run, replay, label=kind)


@family("C20.e2e", props=["C20"], functions=["nsl.parser::NslParser.Parse", "nsl.passes.UpdateLocations::UpdateLocationsVisitor.v_Generic", AST + "::Location.__str__"],
        assumptions=["BOUNDED stand-in (never counted as proved): one token sequence in six layouts (spaces, tabs, blank lines, one token per line) parsed by the real parser"])
def c20_e2e(R):
    """Bounded end-to-end check: for every identifier / declaration / literal node of the parsed program the reported range designates exactly
    its text and str(range) is the 1-based line:column of that text; after UpdateLocations every node's range covers its children's."""
    progs = _layout_programs()
    bad = None
    import io, contextlib
    import nsl.parser as P
    import nsl.ast as a
    from nsl.passes import UpdateLocations
    for src in progs:
        try:
            parser = P.NslParser()
            with contextlib.redirect_stdout(io.StringIO()):
                tree = parser.Parse(src)
            UpdateLocations.GetPass().Process(tree)
        except BaseException as e:
            bad = (src, f"parse failed: {type(e).__name__} {e}")
            break
        prob = []

        def walk(n):
            l = n.GetLocation()
            name = None
            if isinstance(n, a.PrimaryExpression):
                name = n.GetName()
            elif isinstance(n, (a.VariableDeclaration, a.Argument)):
                name = n.GetName()
            if name is not None and not isinstance(n, a.VariableDeclaration):
                if l.IsUnknown or src[l.GetBegin():l.GetEnd()] != name:
                    prob.append(f"{type(n).__name__} {name!r} located at {src[l.GetBegin():l.GetEnd()]!r} ({l})")
                else:
                    line = src.count("\n", 0, l.GetBegin())
                    col = l.GetBegin() - (src.rfind("\n", 0, l.GetBegin()) + 1)
                    want = f"{line + 1}:{col + 1}-{col + 1 + len(name)}"
                    if str(l) != want:
                        prob.append(f"{name!r} prints {l}, expected {want}")
            kids = []
            n.ForEachChild(lambda c, ctx: kids.append(c))
            for c in kids:
                cl = c.GetLocation()
                if not cl.IsUnknown and (l.IsUnknown or l.GetBegin() > cl.GetBegin() or l.GetEnd() < cl.GetEnd()):
                    prob.append(f"{type(n).__name__} range {l} does not cover child {type(c).__name__} {cl}")
                walk(c)

        walk(tree)
        if prob:
            bad = (src, prob[0])
            break
    rp = None
    if bad:
        rp = script("""
            from nsl import parser, ast
            from nsl.passes import UpdateLocations
            src = {{src}}
            tree = parser.NslParser().Parse(src)
            UpdateLocations.GetPass().Process(tree)
            prob = []
            def walk(n):
                l = n.GetLocation()
                if isinstance(n, (ast.PrimaryExpression, ast.Argument)):
                    if l.IsUnknown or src[l.GetBegin():l.GetEnd()] != n.GetName():
                        prob.append((n.GetName(), src[l.GetBegin():l.GetEnd()], str(l)))
                kids = []
                n.ForEachChild(lambda c, ctx: kids.append(c))
                for c in kids:
                    cl = c.GetLocation()
                    if not cl.IsUnknown and (l.IsUnknown or l.GetBegin() > cl.GetBegin() or l.GetEnd() < cl.GetEnd()):
                        prob.append((type(n).__name__, str(l), 'does not cover', str(cl)))
                    walk(c)
            walk(tree)
            print(prob[:5])
            if prob: print('REPLAY-CONFIRMED')
            """, src=bad[0])
    R.bounded("C20.e2e", "nsl.parser::NslParser.Parse", bad is None, len(progs), detail=f"{len(progs)} layouts; all identifier ranges designate their text" if not bad else bad[1], replay=rp)


@family("C20.parse.history", props=["C20"], functions=["nsl.parser::NslParser.Parse", "nsl.parser::NslParser.__GetLocation", "nsl.parser::NslParser.__init__", "nsl.Compiler::Compiler.Compile"],
        assumptions=["modular cut: the PLY automaton (self.parser) is replaced by a stub that, like PLY, hands the text to the lexer and then asks the REAL __GetLocation for the range of tokens at chosen offsets",
                     "the parser's state relevant to locations is its line table: absent (fresh object) or built for an earlier text; a sequence of three texts with different line structure reaches both",
                     "end-to-end part BOUNDED: the six layouts of C20.e2e parsed one after the other by ONE parser / ONE Compiler object"])
def c20_parse_history(R):
    """Whatever was parsed before on the same parser object, the ranges attached while parsing a text are converted with the line table of THAT
    text: Parse(t1); Parse(t2) reports the same line:column for t2 as a fresh parser does."""
    import nsl.parser as P
    texts = ["alpha beta\ngamma\n\n  delta epsilon", "alpha\nbeta\ngamma\ndelta\nepsilon", "\n\n\nalpha beta gamma delta epsilon", "alpha beta gamma\tdelta\n epsilon",
             "\ufeffalpha beta\ngamma delta\nepsilon"]          # the last one starts with a byte order mark: it is a character of the caller's text like any other
    words = ["alpha", "beta", "gamma", "delta", "epsilon"]

    def expected(text, w):
        o = text.index(w)
        line = text.count("\n", 0, o)
        col = o - (text.rfind("\n", 0, o) + 1)
        return f"{line + 1}:{col + 1}-{col + 1 + len(w)}"

    class Stub:
        def __init__(self, owner):
            self.owner = owner

        def parse(self, text, lexer=None, **kw):
            self.received = text
            lexer.input(text)
            getloc = self.owner._NslParser__GetLocation
            return [str(getloc(FakeP([w], [text.index(w)]), 1)) for w in words]

    for order in itertools.permutations(range(len(texts)), 3):
        prs = P.NslParser()
        prs.parser = Stub(prs)
        bad = None
        for k, ti in enumerate(order):
            got = prs.Parse(texts[ti])
            want = [expected(texts[ti], w) for w in words]
            if prs.parser.received != texts[ti] and bad is None:
                bad = (k, ti, f"(the automaton was handed {prs.parser.received!r}: token offsets no longer refer to the caller's text)", want)
            if got != want and bad is None:
                bad = (k, ti, got, want)
        R.check(f"C20.parse.history[{'>'.join(map(str, order))}]", "nsl.parser::NslParser.Parse", bad is None,
                detail="" if bad is None else f"parse #{bad[0] + 1} on the same parser (text {texts[bad[1]]!r}) located {words} at {bad[2]}, the text says {bad[3]}",
                replay=None if bad is None else script("""
                    from nsl import parser, ast
                    texts = {{texts}}
                    def locs(prs, src):
                        tree = prs.Parse(src); out = []
                        def walk(n):
                            if isinstance(n, ast.PrimaryExpression):
                                out.append((n.GetName(), str(n.GetLocation())))
                                l = n.GetLocation()
                                if src[l.GetBegin():l.GetEnd()] != n.GetName(): out.append(('range designates', src[l.GetBegin():l.GetEnd()], 'not', n.GetName())); wrong.append(1)
                            n.ForEachChild(lambda c, ctx: walk(c))
                        walk(tree); return out
                    shared = parser.NslParser(parser.ParseEntryPoint.Statement)
                    bad = False; wrong = []
                    for t in texts:
                        a = locs(shared, t); b = locs(parser.NslParser(parser.ParseEntryPoint.Statement), t)
                        print(repr(t), 'same parser:', a, 'fresh parser:', b)
                        bad = bad or a != b
                    if bad or wrong: print('REPLAY-CONFIRMED')
                    """, texts=["x = (alpha + beta);", "x\n=\n(alpha\n+\nbeta);", "\n\n x = (alpha + beta);", "\ufeffx = (alpha\n + beta);"]))

    # end to end, one parser / one Compiler for all layouts
    import nsl.ast as a
    from nsl import Compiler
    progs = _layout_programs()

    def locs(tree):
        out = []

        def walk(n):
            if isinstance(n, (a.PrimaryExpression, a.Argument, a.VariableDeclaration)):
                out.append((n.GetName(), str(n.GetLocation())))
            n.ForEachChild(lambda c, ctx: walk(c))
        walk(tree)
        return out

    shared = P.NslParser()
    bad = None
    for src in progs + list(reversed(progs)):
        if locs(shared.Parse(src)) != locs(P.NslParser().Parse(src)) and bad is None:
            bad = src
    R.bounded("C20.e2e.history[parser]", "nsl.parser::NslParser.Parse", bad is None, 2 * len(progs), detail="" if bad is None else f"a parser that parsed other layouts before reports different positions for {bad[:60]!r}...")
    comp = Compiler.Compiler()
    import io, contextlib
    bad = None
    for src in progs + list(reversed(progs)):
        with contextlib.redirect_stdout(io.StringIO()):
            t1 = comp.parser.Parse(src) if hasattr(comp, "parser") else None
        if t1 is not None and locs(t1) != locs(P.NslParser().Parse(src)) and bad is None:
            bad = src
    R.bounded("C20.e2e.history[compiler]", "nsl.Compiler::Compiler.Compile", bad is None, 2 * len(progs), detail="" if bad is None else f"the Compiler's parser reports different positions after earlier compilations for {bad[:60]!r}...")



def _compound_programs():
    toks = ["struct", "P", "{", "int", "n", ";", "float2", "v", ";", "}",
            "export", "function", "compute", "(", "int", "first", ",", "int", "second", ")", "->", "int", "{",
            "int", "local", "=", "first", ";", "int", "[", "3", "]", "arr", ";", "P", "p", ";",
            "local", "+=", "(", "first", "*", "second", ")", ";",
            "arr", "[", "1", "]", "-=", "first", ";",
            "p", ".", "n", "*=", "(", "local", "+", "second", ")", ";",
            "p", ".", "v", ".", "x", "+=", "arr", "[", "1", "]", ";",
            "local", "/=", "second", ";",
            "arr", "[", "2", "]", "+=", "(", "p", ".", "n", "-", "arr", "[", "1", "]", ")", ";",
            "return", "(", "local", "+", "arr", "[", "2", "]", ")", ";", "}"]
    seps = [lambda i: " ", lambda i: "\n" if i % 3 == 0 else " ", lambda i: "\n\n\t" if i % 5 == 0 else "  ", lambda i: "\n  " if i % 2 else " \t "]
    out = []
    for f in seps:
        out.append("".join(t + f(i) for i, t in enumerate(toks)).replace("p . n", "p.n").replace("p . v . x", "p.v.x"))
    return out


@family("C20.e2e.pipeline", props=["C20"], functions=["nsl.parser::NslParser.Parse", "nsl.passes.RewriteAssignEqualOperations::RewriteAssignEqualVisitor.v_AssignmentExpression",
                                                       "nsl.passes.UpdateLocations::UpdateLocationsVisitor.v_Generic", AST + "::Location.Merge"],
        assumptions=["BOUNDED stand-in (never counted as proved): one token sequence with every compound assignment shape (leaf / composite on either side: identifiers, "
                     "parenthesised binary expressions, indexed and member targets) in four layouts, taken through the passes the Compiler runs before and including "
                     "update-locations (rewrite-assign-equal, update-locations), in that order"])
def c20_e2e_pipeline(R):
    """After the passes that rewrite the tree and then compute ranges, every reported range is a range OF THE TEXT (0 <= begin <= end <= len(text),
    or the explicit unknown), identifiers designate their own characters, and a composite node's range is the hull of its children's."""
    import io, contextlib
    import nsl.parser as P
    import nsl.ast as a
    from nsl.passes import UpdateLocations, RewriteAssignEqualOperations
    progs = _compound_programs()
    bad = None
    for src in progs:
        try:
            with contextlib.redirect_stdout(io.StringIO()):
                tree = P.NslParser().Parse(src)
                RewriteAssignEqualOperations.GetPass().Process(tree)
                UpdateLocations.GetPass().Process(tree)
        except BaseException as e:
            if isinstance(e, KeyboardInterrupt):
                raise
            bad = (src, f"parse / passes failed: {type(e).__name__} {e}")
            break
        prob = []
        seen = set()

        def walk(n):
            if id(n) in seen:
                return          # the rewrite shares the target node between the load and the store
            seen.add(id(n))
            l = n.GetLocation()
            if not l.IsUnknown and not (0 <= l.GetBegin() <= l.GetEnd() <= len(src)):
                prob.append(f"{type(n).__name__} has the range ({l.GetBegin()}, {l.GetEnd()}), which is not a range of the text (length {len(src)})")
            if isinstance(n, a.PrimaryExpression) and (l.IsUnknown or src[l.GetBegin():l.GetEnd()] != n.GetName()):
                prob.append(f"identifier {n.GetName()!r} located at {src[max(0, l.GetBegin()):l.GetEnd()]!r} ({l})")
            kids = []
            n.ForEachChild(lambda c, ctx: kids.append(c))
            known = [c.GetLocation() for c in kids if not c.GetLocation().IsUnknown]
            for cl in known:
                if l.IsUnknown or l.GetBegin() > cl.GetBegin() or l.GetEnd() < cl.GetEnd():
                    prob.append(f"{type(n).__name__} range {l} does not cover a child's range {cl}")
            for c in kids:
                walk(c)

        walk(tree)
        if prob:
            bad = (src, prob[0])
            break
    rp = None
    if bad:
        rp = script("""
            import io, contextlib
            from nsl import parser, ast
            from nsl.passes import UpdateLocations, RewriteAssignEqualOperations
            src = {{src}}
            with contextlib.redirect_stdout(io.StringIO()):
                tree = parser.NslParser().Parse(src)
                RewriteAssignEqualOperations.GetPass().Process(tree)
                UpdateLocations.GetPass().Process(tree)
            prob = []; seen = set()
            def walk(n):
                if id(n) in seen: return
                seen.add(id(n))
                l = n.GetLocation()
                if not l.IsUnknown and not (0 <= l.GetBegin() <= l.GetEnd() <= len(src)):
                    prob.append((type(n).__name__, l.GetBegin(), l.GetEnd(), 'not a range of the text'))
                if isinstance(n, ast.PrimaryExpression) and (l.IsUnknown or src[l.GetBegin():l.GetEnd()] != n.GetName()):
                    prob.append((n.GetName(), str(l)))
                kids = []
                n.ForEachChild(lambda c, ctx: kids.append(c))
                for c in kids:
                    cl = c.GetLocation()
                    if not cl.IsUnknown and (l.IsUnknown or l.GetBegin() > cl.GetBegin() or l.GetEnd() < cl.GetEnd()):
                        prob.append((type(n).__name__, str(l), 'does not cover', str(cl)))
                    walk(c)
            walk(tree)
            print(prob[:5])
            if prob: print('REPLAY-CONFIRMED')
            """, src=bad[0])
    R.bounded("C20.e2e.pipeline", "nsl.passes.UpdateLocations::UpdateLocationsVisitor.v_Generic", bad is None, len(progs),
              detail=f"{len(progs)} layouts; every range is a range of the text, identifiers designate their text, composites cover their parts" if not bad else bad[1], replay=rp)
