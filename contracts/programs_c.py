"""Whole-pipeline obligations on a curated family of scalar-core programs: each
program is compiled by the real compiler and executed by the real VM on SYMBOLIC
inputs; the reference interpreter (refsem.py, written from property C01) runs in
the same path context; z3 proves result and globals equal on every path.  So each
obligation holds for ALL inputs of its program -- the family of programs is what
is bounded.  The same programs are compiled with `optimize` (C02), rendered with
minimal parentheses (C08 end to end), and replayed as host histories (C15)."""
from __future__ import annotations

import itertools

import z3

from pyvc.core import family
from pyvc.sym import SymInt, SymReal, term, is_sym, Unsupported
from pyvc.util import script
from pyvc.verify import verify
from . import refsem as rs
from . import vecsem_c as vs
from . import vm_c

V = lambda n: ("var", n)
I = lambda n: ("int", n)
F = lambda x: ("flt", x)
B = lambda op, l, r: ("bin", op, l, r)


def fn(name, ret, params, body, export=True):
    return dict(name=name, ret=ret, params=params, body=body, export=export)


def P(functions, globals_=(), structs=(), inputs=None, pre=None, call="f"):
    return dict(functions=functions, globals=list(globals_), structs=list(structs), inputs=inputs or {}, pre=pre, call=call)


def programs():
    out = {}
    ii = [("int", "a"), ("int", "b")]
    iii = [("int", "a"), ("int", "b"), ("int", "c")]
    # --- operator chains, rendered without redundant parentheses as well
    for name, e in {
        "sub-chain": B("-", B("-", V("a"), V("b")), V("c")),
        "mul-add": B("+", B("*", V("a"), V("b")), V("c")),
        "add-mul": B("+", V("a"), B("*", V("b"), V("c"))),
        "cmp-arith": B("<", B("+", V("a"), I(1)), B("*", V("b"), V("c"))),
        "logic-cmp": B("||", B("&&", B("<", V("a"), V("b")), B("!=", V("b"), V("c"))), B("==", V("a"), V("c"))),
        "right-nested": B("-", V("a"), B("-", V("b"), V("c"))),
        "mixed-levels": B("-", B("+", V("a"), B("*", V("b"), I(3))), B("*", B("-", V("c"), I(2)), V("a"))),
        "eq-rel": B("==", B("<", V("a"), V("b")), B(">=", V("b"), V("c"))),
    }.items():
        out[f"expr.{name}"] = P([fn("f", "int", iii, [("return", e)])], inputs={"a": "int", "b": "int", "c": "int"})
    out["expr.div-trunc"] = P([fn("f", "int", ii, [("return", B("+", B("/", V("a"), V("b")), B("*", B("/", V("a"), V("b")), V("b"))))])], inputs={"a": "int", "b": "int!=0"})
    out["expr.div-chain"] = P([fn("f", "int", iii, [("return", B("/", B("/", V("a"), V("b")), V("c")))])], inputs={"a": "int", "b": "int!=0", "c": "int!=0"})
    out["expr.mod"] = P([fn("f", "int", ii, [("return", B("+", B("%", V("a"), V("b")), I(1)))])], inputs={"a": "int>=0", "b": "int>0"})
    out["expr.promote"] = P([fn("f", "float", [("int", "a"), ("float", "x")], [("return", B("+", B("*", V("a"), V("x")), B("/", V("x"), F(2.0))))])], inputs={"a": "int", "x": "float"})
    out["expr.float-cmp"] = P([fn("f", "int", [("float", "x"), ("float", "y"), ("int", "a")], [("return", B("+", B(">", V("x"), V("y")), B("<=", V("a"), V("x"))))])], inputs={"x": "float", "y": "float", "a": "int"})
    out["expr.int-float-div"] = P([fn("f", "float", [("int", "a"), ("float", "x")], [("return", B("/", V("a"), V("x")))])], inputs={"a": "int", "x": "float!=0"})
    # --- assignments, compound forms, ++/--
    out["assign.compound"] = P([fn("f", "int", ii, [("decl", "int", "s", V("a")), ("assign", V("s"), "+=", V("b")), ("assign", V("s"), "*=", I(3)), ("assign", V("s"), "-=", V("a")),
                                                    ("return", V("s"))])], inputs={"a": "int", "b": "int"})
    out["assign.div-equal"] = P([fn("f", "int", ii, [("decl", "int", "s", V("a")), ("assign", V("s"), "/=", V("b")), ("return", V("s"))])], inputs={"a": "int", "b": "int!=0"})
    out["assign.affix"] = P([fn("f", "int", ii, [("decl", "int", "i", V("a")), ("decl", "int", "r", I(0)), ("assign", V("r"), "=", B("+", ("post", "++", "i"), ("pre", "++", "i"))),
                                                 ("expr", ("post", "--", "i")), ("assign", V("r"), "=", B("+", B("*", V("r"), I(10)), ("pre", "--", "i"))), ("return", B("+", V("r"), V("i")))])],
                            inputs={"a": "int", "b": "int"})
    out["assign.param"] = P([fn("f", "int", ii, [("assign", V("a"), "=", B("+", V("a"), V("b"))), ("assign", V("b"), "=", B("*", V("a"), I(2))), ("return", B("-", V("b"), V("a")))])], inputs={"a": "int", "b": "int"})
    out["decl.zero-init"] = P([fn("f", "int", [("int", "a")], [("decl", "int", "x", None), ("decl", "float", "y", None), ("return", B("+", V("x"), V("a")))])], inputs={"a": "int"})
    # --- branches
    out["if.chain"] = P([fn("f", "int", ii, [("if", B("<", V("a"), V("b")), [("return", I(1))], [("if", B("==", V("a"), V("b")), [("return", I(2))], [("return", I(3))])])])], inputs={"a": "int", "b": "int"})
    out["if.fallthrough"] = P([fn("f", "int", ii, [("decl", "int", "r", I(5)), ("if", B(">", V("a"), I(0)), [("assign", V("r"), "=", B("+", V("r"), V("a")))], None),
                                                   ("if", B("&&", B(">", V("b"), I(0)), B("<", V("b"), I(10))), [("assign", V("r"), "*=", I(2))], [("assign", V("r"), "-=", I(1))]), ("return", V("r"))])],
                              inputs={"a": "int", "b": "int"})
    # --- loops
    out["for.sum"] = P([fn("f", "int", [("int", "n"), ("int", "a")], [("decl", "int", "s", I(0)), ("for", ("decl", "int", "i", I(0)), B("<", V("i"), V("n")), ("expr", ("pre", "++", "i")),
                                                                       [("assign", V("s"), "=", B("+", B("*", V("s"), I(10)), B("+", V("i"), V("a"))))]), ("return", V("s"))])], inputs={"n": "0..3", "a": "int"})
    out["for.break-continue"] = P([fn("f", "int", [("int", "n"), ("int", "k")], [("decl", "int", "s", I(0)), ("for", ("decl", "int", "i", I(0)), B("<", V("i"), V("n")), ("expr", ("pre", "++", "i")),
                                  [("if", B("==", V("i"), V("k")), [("continue",)], None), ("if", B(">", V("s"), I(4)), [("break",)], None), ("assign", V("s"), "+=", B("+", V("i"), I(1)))]),
                                  ("return", V("s"))])], inputs={"n": "0..4", "k": "0..3"})
    out["while.data-dependent"] = P([fn("f", "int", [("int", "n")], [("decl", "int", "c", I(0)), ("while", B(">", V("n"), I(0)), [("assign", V("n"), "=", B("/", V("n"), I(2))), ("expr", ("pre", "++", "c"))]),
                                                                     ("return", V("c"))])], inputs={"n": "0..9"})
    out["do.continue"] = P([fn("f", "int", [("int", "n")], [("decl", "int", "i", I(0)), ("decl", "int", "s", I(0)),
                            ("do", [("assign", V("i"), "=", B("+", V("i"), I(1))), ("if", B("<", V("i"), I(3)), [("continue",)], None), ("assign", V("s"), "=", B("+", V("s"), V("i")))], B("<", V("i"), V("n"))),
                            ("return", V("s"))])], inputs={"n": "0..5"})
    out["do.break"] = P([fn("f", "int", [("int", "n")], [("decl", "int", "i", I(0)), ("do", [("expr", ("pre", "++", "i")), ("if", B("==", V("i"), I(2)), [("break",)], None)], B("<", V("i"), V("n"))), ("return", V("i"))])],
                        inputs={"n": "0..4"})
    out["nested.loops"] = P([fn("f", "int", [("int", "n"), ("int", "m")], [("decl", "int", "s", I(0)),
                             ("for", ("decl", "int", "i", I(0)), B("<", V("i"), V("n")), ("expr", ("pre", "++", "i")),
                              [("for", ("decl", "int", "j", I(0)), B("<", V("j"), V("m")), ("expr", ("pre", "++", "j")), [("if", B("==", V("j"), I(1)), [("break",)], None), ("assign", V("s"), "+=", I(1))]),
                               ("if", B("==", V("i"), I(1)), [("continue",)], None), ("assign", V("s"), "+=", I(100))]),
                             ("decl", "int", "k", I(0)), ("while", B("<", V("k"), I(2)), [("assign", V("k"), "=", B("+", V("k"), I(1))), ("if", B("==", V("k"), I(1)), [("continue",)], None), ("assign", V("s"), "+=", I(1000))]),
                             ("return", V("s"))])], inputs={"n": "0..3", "m": "0..2"})
    out["loop.redeclare"] = P([fn("f", "int", [("int", "n")], [("decl", "int", "s", I(0)), ("for", ("decl", "int", "i", I(0)), B("<", V("i"), V("n")), ("expr", ("pre", "++", "i")),
                               [("decl", "int", "t", None), ("assign", V("t"), "+=", B("+", V("i"), I(1))), ("assign", V("s"), "=", B("+", B("*", V("s"), I(10)), V("t")))]), ("return", V("s"))])], inputs={"n": "0..3"})
    out["loop.array-redeclare"] = P([fn("f", "int", [("int", "n")], [("decl", "int", "s", I(0)), ("for", ("decl", "int", "i", I(0)), B("<", V("i"), V("n")), ("expr", ("pre", "++", "i")),
                                     [("decl", ("arr", "int", (2,)), "t", None), ("assign", ("idx", "t", [I(1)]), "+=", B("+", V("i"), I(1))), ("assign", V("s"), "=", B("+", B("*", V("s"), I(10)), ("idx", "t", [I(1)])))]),
                                     ("return", V("s"))])], inputs={"n": "0..3"})
    # --- arrays and structs as storage
    out["array.rw"] = P([fn("f", "int", [("int", "i"), ("int", "a")], [("decl", ("arr", "int", (3,)), "t", None), ("assign", ("idx", "t", [V("i")]), "=", V("a")), ("assign", ("idx", "t", [I(0)]), "+=", I(7)),
                                                                       ("return", B("+", B("+", ("idx", "t", [I(0)]), ("idx", "t", [I(1)])), ("idx", "t", [I(2)])))])], inputs={"i": "0..2", "a": "int"})
    out["array.2d"] = P([fn("f", "int", [("int", "i"), ("int", "j"), ("int", "a")], [("decl", ("arr", "int", (2, 3)), "t", None), ("assign", ("idx", "t", [V("i"), V("j")]), "=", V("a")),
                                                                                      ("assign", ("idx", "t", [I(1), I(2)]), "+=", I(1)), ("return", B("+", ("idx", "t", [I(0), I(1)]), B("+", ("idx", "t", [I(1), I(2)]), ("idx", "t", [I(1), I(1)]))))])],
                        inputs={"i": "0..1", "j": "0..2", "a": "int"})
    out["struct.rw"] = P([fn("f", "int", ii, [("decl", "S", "s", None), ("assign", ("fld", "s", "x"), "=", V("a")), ("assign", ("fld", "s", "y"), "=", B("+", ("fld", "s", "x"), V("b"))),
                                              ("assign", ("fld", "s", "x"), "+=", I(1)), ("return", B("*", ("fld", "s", "x"), ("fld", "s", "y")))])], structs=[("S", [("int", "x"), ("int", "y")])], inputs={"a": "int", "b": "int"})
    # --- calls
    out["call.by-value"] = P([fn("g", "int", [("int", "x")], [("assign", V("x"), "=", B("+", V("x"), I(100))), ("return", V("x"))], export=False),
                              fn("f", "int", ii, [("decl", "int", "r", ("call", "g", [V("b")])), ("decl", "int", "q", ("call", "g", [V("a")])), ("return", B("+", B("+", V("a"), V("b")), B("-", V("r"), V("q"))))])],
                             inputs={"a": "int", "b": "int"})
    out["call.nested"] = P([fn("g", "int", [("int", "x")], [("return", B("+", V("x"), I(1)))], export=False), fn("h", "int", [("int", "x"), ("int", "y")], [("return", B("-", B("*", V("x"), I(2)), V("y")))], export=False),
                            fn("f", "int", ii, [("return", ("call", "h", [("call", "g", [V("a")]), ("call", "g", [("call", "g", [V("b")])])]))])], inputs={"a": "int", "b": "int"})
    out["call.recursive"] = P([fn("fact", "int", [("int", "n")], [("if", B("<=", V("n"), I(1)), [("return", I(1))], None), ("decl", "int", "keep", V("n")), ("decl", "int", "r", ("call", "fact", [B("-", V("n"), I(1))])),
                                                                  ("return", B("*", V("keep"), V("r")))], export=False),
                               fn("f", "int", [("int", "n")], [("return", ("call", "fact", [V("n")]))])], inputs={"n": "0..4"})
    out["call.mutual"] = P([fn("isEven", "int", [("int", "n")], [("if", B("==", V("n"), I(0)), [("return", I(1))], None), ("return", ("call", "isOdd", [B("-", V("n"), I(1))]))], export=False),
                            fn("isOdd", "int", [("int", "n")], [("if", B("==", V("n"), I(0)), [("return", I(0))], None), ("decl", "int", "m", V("n")), ("decl", "int", "r", ("call", "isEven", [B("-", V("n"), I(1))])),
                                                                ("return", B("+", V("r"), B("*", I(0), V("m"))))], export=False),
                            fn("f", "int", [("int", "n")], [("return", B("+", B("*", ("call", "isEven", [V("n")]), I(10)), ("call", "isOdd", [V("n")])))])], inputs={"n": "0..4"})
    out["call.overload"] = P([fn("pick", "int", [("int", "x")], [("return", B("+", V("x"), I(1)))], export=False), fn("pick", "int", [("float", "x")], [("return", I(7))], export=False),
                              fn("f", "int", [("int", "a"), ("float", "x")], [("return", B("+", B("*", ("call", "pick", [V("a")]), I(10)), ("call", "pick", [V("x")])))])], inputs={"a": "int", "x": "float"})
    out["call.param-after-call"] = P([fn("g", "int", [("int", "x"), ("int", "y")], [("assign", V("x"), "=", I(0)), ("assign", V("y"), "=", I(0)), ("return", I(5))], export=False),
                                      fn("f", "int", ii, [("decl", "int", "r", ("call", "g", [V("b"), V("a")])), ("return", B("+", B("*", V("a"), I(1000)), B("+", B("*", V("b"), I(10)), V("r"))))])], inputs={"a": "0..9", "b": "0..9"})
    out["call.struct-by-value"] = P([fn("g", "int", [("S", "s")], [("assign", ("fld", "s", "x"), "=", I(100)), ("return", B("+", ("fld", "s", "x"), ("fld", "s", "y")))], export=False),
                                     fn("f", "int", ii, [("decl", "S", "s", None), ("assign", ("fld", "s", "x"), "=", V("a")), ("assign", ("fld", "s", "y"), "=", V("b")), ("decl", "int", "r", ("call", "g", [V("s")])),
                                                         ("return", B("+", B("*", V("r"), I(1000)), ("fld", "s", "x")))])], structs=[("S", [("int", "x"), ("int", "y")])], inputs={"a": "0..9", "b": "0..9"})
    out["call.array-by-value"] = P([fn("g", "int", [(("arr", "int", (2,)), "t")], [("assign", ("idx", "t", [I(0)]), "=", I(100)), ("assign", ("idx", "t", [I(1)]), "+=", I(1)), ("return", B("+", ("idx", "t", [I(0)]), ("idx", "t", [I(1)])))], export=False),
                                    fn("f", "int", ii, [("decl", ("arr", "int", (2,)), "t", None), ("assign", ("idx", "t", [I(0)]), "=", V("a")), ("assign", ("idx", "t", [I(1)]), "=", V("b")), ("decl", "int", "r", ("call", "g", [V("t")])),
                                                        ("decl", "int", "q", ("call", "g", [V("t")])), ("return", B("+", B("*", B("+", V("r"), V("q")), I(1000)), B("+", B("*", ("idx", "t", [I(0)]), I(10)), ("idx", "t", [I(1)]))))])], inputs={"a": "0..9", "b": "0..9"})
    # a loop with break / continue whose body calls a function of the same shape (same block numbering): control flow of the caller is its own
    helper_body = [("decl", "int", "s", I(0)), ("decl", "int", "j", I(0)), ("while", B("<", V("j"), V("m")), [("assign", V("j"), "=", B("+", V("j"), I(1))), ("if", B("==", V("j"), I(2)), [("continue",)], None),
                                                                                                          ("if", B(">", V("j"), I(3)), [("break",)], None), ("assign", V("s"), "+=", V("j"))]), ("return", V("s"))]
    out["call.loops-in-both"] = P([fn("helper", "int", [("int", "m")], helper_body, export=False),
                                   fn("f", "int", [("int", "n")], [("decl", "int", "s", I(0)), ("decl", "int", "j", I(0)),
                                                                   ("while", B("<", V("j"), V("n")), [("assign", V("j"), "=", B("+", V("j"), I(1))), ("if", B("==", V("j"), I(2)), [("continue",)], None),
                                                                                                      ("if", B(">", V("j"), I(3)), [("break",)], None), ("assign", V("s"), "+=", ("call", "helper", [V("j")]))]),
                                                                   ("return", V("s"))])], inputs={"n": "0..5"})
    # (same idea with different shapes: block numbers coincide while the positions of the blocks in the instruction streams differ)
    out["call.loops-in-both-2"] = P([fn("count", "int", [("int", "limit")], [("decl", "int", "c", I(0)), ("decl", "int", "k", I(0)),
                                                                            ("while", B("<", V("k"), I(10)), [("assign", V("k"), "=", B("+", V("k"), I(1))), ("if", B(">", V("k"), V("limit")), [("break",)], None),
                                                                                                              ("assign", V("c"), "=", B("+", V("c"), I(1)))]), ("return", V("c"))], export=False),
                                     fn("f", "int", [("int", "n")], [("decl", "int", "r", I(0)),
                                                                     ("for", ("decl", "int", "i", I(0)), B("<", V("i"), V("n")), ("expr", ("pre", "++", "i")),
                                                                      [("decl", "int", "c", ("call", "count", [V("i")])), ("if", B("==", V("c"), I(2)), [("continue",)], None), ("if", B("==", V("c"), I(4)), [("break",)], None),
                                                                       ("assign", V("r"), "=", B("+", V("r"), V("c")))]), ("return", V("r"))])], inputs={"n": "0..6"})
    # --- globals
    out["global.rw"] = P([fn("f", "int", [("int", "a")], [("assign", V("g"), "=", B("+", V("g"), V("a"))), ("assign", V("h"), "=", B("*", V("g"), I(2))), ("return", B("-", V("h"), V("a")))])],
                         globals_=[("int", "g"), ("int", "h")], inputs={"a": "int", "@g": "int", "@h": "int"})
    out["global.through-call"] = P([fn("bump", "int", [("int", "d")], [("assign", V("g"), "=", B("+", V("g"), V("d"))), ("return", V("g"))], export=False),
                                    fn("f", "int", [("int", "a")], [("assign", V("g"), "=", V("a")), ("decl", "int", "r", ("call", "bump", [I(1)])), ("decl", "int", "m", V("g")), ("return", B("+", B("*", V("r"), I(100)), V("m")))])],
                                   globals_=[("int", "g")], inputs={"a": "int", "@g": "int"})
    out["global.array"] = P([fn("f", "int", [("int", "i"), ("int", "a")], [("assign", ("idx", "ga", [V("i")]), "+=", V("a")), ("return", B("+", ("idx", "ga", [I(0)]), ("idx", "ga", [I(1)])))])],
                            globals_=[(("arr", "int", (2,)), "ga")], inputs={"i": "0..1", "a": "int", "@ga": "arr2"})
    A2g = ("arr", "int", (2,))
    out["global.array-assigned-to-local"] = P([fn("f", "int", [("int", "x")], [("decl", A2g, "r", None), ("assign", V("r"), "=", V("ga")), ("assign", ("idx", "r", [I(0)]), "=", V("x")),
                                                                              ("return", B("+", B("*", ("idx", "ga", [I(0)]), I(100)), ("idx", "r", [I(0)])))])],
                                              globals_=[(A2g, "ga")], inputs={"x": "0..9", "@ga": "arr2"})
    out["global.array-assigned-from-local"] = P([fn("f", "int", [("int", "x")], [("decl", A2g, "r", None), ("assign", ("idx", "r", [I(0)]), "=", V("x")), ("assign", V("ga"), "=", V("r")), ("assign", ("idx", "r", [I(0)]), "=", I(99)),
                                                                                ("assign", ("idx", "r", [I(1)]), "+=", I(1)), ("return", B("+", B("*", ("idx", "ga", [I(0)]), I(100)), ("idx", "r", [I(0)])))])],
                                                globals_=[(A2g, "ga")], inputs={"x": "0..9", "@ga": "arr2"})
    out["global.array-through-call"] = P([fn("get", A2g, [], [("return", V("ga"))], export=False),
                                          fn("f", "int", [("int", "x")], [("decl", A2g, "r", ("call", "get", [])), ("assign", ("idx", "r", [I(1)]), "=", V("x")), ("return", B("+", B("*", ("idx", "ga", [I(1)]), I(100)), ("idx", "r", [I(1)])))])],
                                         globals_=[(A2g, "ga")], inputs={"x": "0..9", "@ga": "arr2"})
    out["local.struct-copy"] = P([fn("f", "int", ii, [("decl", "S", "s", None), ("decl", "S", "t", None), ("assign", ("fld", "s", "x"), "=", V("a")), ("assign", V("t"), "=", V("s")), ("assign", ("fld", "t", "x"), "=", V("b")),
                                                      ("assign", ("fld", "s", "y"), "=", I(7)), ("return", B("+", B("*", ("fld", "s", "x"), I(100)), B("+", B("*", ("fld", "t", "x"), I(10)), ("fld", "t", "y"))))])],
                                 structs=[("S", [("int", "x"), ("int", "y")])], inputs={"a": "0..9", "b": "0..9"})
    # --- optimiser patterns (store immediately followed by a load, chains, loads feeding branches / members / calls)
    out["opt.chain"] = P([fn("f", "int", [("int", "a")], [("decl", "int", "x", None), ("decl", "int", "y", None), ("decl", "int", "z", None), ("assign", V("x"), "=", V("a")), ("assign", V("y"), "=", V("x")),
                                                          ("assign", V("z"), "=", V("y")), ("return", B("+", V("z"), V("x")))])], inputs={"a": "int"})
    out["opt.branch-on-forwarded"] = P([fn("f", "int", [("int", "a")], [("decl", "int", "b", V("a")), ("if", V("b"), [("return", I(1))], None), ("return", I(0))])], inputs={"a": "int"})
    out["opt.block-start"] = P([fn("f", "int", [("int", "a")], [("decl", "int", "x", I(1)), ("if", B(">", V("a"), I(0)), [("assign", V("x"), "=", B("+", V("x"), V("a")))], None), ("return", V("x"))])], inputs={"a": "int"})
    out["opt.loop-carried"] = P([fn("f", "int", [("int", "n")], [("decl", "int", "x", I(1)), ("for", ("decl", "int", "i", I(0)), B("<", V("i"), V("n")), ("expr", ("pre", "++", "i")), [("assign", V("x"), "=", B("+", V("x"), V("x")))]),
                                                                 ("return", V("x"))])], inputs={"n": "0..3"})
    out["opt.store-arg"] = P([fn("f", "int", [("int", "a")], [("decl", "int", "b", None), ("assign", V("b"), "=", I(5)), ("assign", V("a"), "=", V("b")), ("assign", V("g"), "=", I(7)), ("return", V("a"))])],
                             globals_=[("int", "g")], inputs={"a": "int", "@g": "int"})
    out["opt.arg-roundtrip"] = P([fn("f", "int", ii, [("assign", V("a"), "=", B("+", V("a"), V("b"))), ("decl", "int", "c", V("a")), ("assign", V("b"), "=", V("c")), ("return", B("+", V("b"), V("a")))])], inputs={"a": "int", "b": "int"})
    out["opt.const-cast"] = P([fn("f", "float", [("float", "x")], [("decl", "float", "y", B("+", V("x"), I(1))), ("assign", V("y"), "=", B("*", V("y"), I(2))), ("return", B("+", V("y"), F(1.0)))])], inputs={"x": "float"})
    out["opt.int-float-const"] = P([fn("f", "float", [("int", "a")], [("decl", "int", "b", B("+", V("a"), I(1))), ("decl", "float", "c", F(1.0)), ("return", B("+", V("c"), V("b")))])], inputs={"a": "int"})
    out["expr.float-cmp-int-div"] = P([fn("f", "int", [("float", "x"), ("float", "y"), ("float", "t")], [("return", B("/", B("+", B("+", B(">", V("x"), V("t")), B(">", V("y"), V("t"))), B("<=", V("x"), V("y"))), I(2)))])],
                                      inputs={"x": "float", "y": "float", "t": "float"})
    # a side effect in the index of a compound assignment happens once (KNOWN FINDING D25 on the pinned tree: the rewrite `l op= r -> l = l op r`
    # duplicates the target, so the index is evaluated twice)
    out["sidefx.compound-index"] = P([fn("f", "int", [("int", "a")], [("decl", ("arr", "int", (3,)), "t", None), ("decl", "int", "i", I(0)), ("assign", ("idx", "t", [("post", "++", "i")]), "+=", V("a")),
                                                                     ("return", B("+", B("+", B("*", ("idx", "t", [I(0)]), I(100)), B("*", ("idx", "t", [I(1)]), I(10))), V("i")))])], inputs={"a": "1..9"})
    # --- round-2 lessons: loops without a condition, a compound assignment as the for-increment, float storage holding Python ints
    out["for.no-condition"] = P([fn("f", "int", [("int", "n")], [("decl", "int", "s", I(0)), ("for", ("decl", "int", "i", I(0)), None, ("expr", ("pre", "++", "i")),
                                 [("if", B(">=", V("i"), V("n")), [("break",)], None), ("assign", V("s"), "=", B("+", B("*", V("s"), I(10)), V("i")))]), ("return", V("s"))])], inputs={"n": "0..3"})
    out["for.compound-next"] = P([fn("f", "int", [("int", "n")], [("decl", "int", "s", I(0)), ("for", ("decl", "int", "i", I(0)), B("<", V("i"), V("n")), ("assign", V("i"), "+=", I(2)),
                                  [("assign", V("s"), "=", B("+", B("*", V("s"), I(10)), B("+", V("i"), I(1))))]), ("return", V("s"))])], inputs={"n": "0..5"})
    out["for.next-assign-expr"] = P([fn("f", "int", [("int", "n")], [("decl", "int", "s", I(0)), ("for", ("decl", "int", "i", I(0)), B("<", V("i"), V("n")), ("assign", V("i"), "=", B("+", B("*", V("i"), I(2)), I(1))),
                                     [("assign", V("s"), "+=", V("i"))]), ("return", V("s"))])], inputs={"n": "0..8"})
    out["float.int-representation"] = P([fn("f", "float", [("int", "n")], [("decl", "float", "x", I(7)), ("decl", "float", "y", None), ("decl", "float", "z", None),
                                         ("for", ("decl", "int", "i", I(0)), B("<", V("i"), V("n")), ("expr", ("pre", "++", "i")), [("expr", ("post", "++", "y"))]),
                                         ("assign", V("z"), "=", B("+", V("y"), I(2))), ("return", B("+", B("/", V("x"), V("z")), B("/", V("y"), I(2))))])], inputs={"n": "0..3"})
    out["float.literal-div"] = P([fn("f", "float", [("int", "a")], [("decl", "float", "x", I(7)), ("decl", "float", "y", I(2)), ("assign", V("g"), "=", B("/", V("x"), V("y"))), ("return", B("+", V("g"), V("a")))])],
                                 globals_=[("float", "g")], inputs={"a": "int", "@g": "float"})
    # --- names reused in disjoint sibling scopes (C12): each declaration is its own zero-initialised variable
    A2 = ("arr", "int", (2,))
    out["scope.sibling-blocks"] = P([fn("f", "int", [("int", "a")], [("decl", "int", "r", I(0)),
                                     ("block", [("decl", A2, "x", None), ("assign", ("idx", "x", [I(0)]), "=", V("a")), ("assign", ("idx", "x", [I(1)]), "=", I(6)), ("assign", V("r"), "=", ("idx", "x", [I(1)]))]),
                                     ("block", [("decl", A2, "x", None), ("assign", ("idx", "x", [I(0)]), "=", I(1)), ("assign", V("r"), "=", B("+", B("*", V("r"), I(10)), B("+", ("idx", "x", [I(0)]), ("idx", "x", [I(1)]))))]),
                                     ("return", V("r"))])], inputs={"a": "int"})
    out["scope.if-else-same-name"] = P([fn("f", "int", ii, [("decl", "int", "r", I(0)), ("if", B(">", V("a"), I(0)), [("decl", A2, "t", None), ("assign", ("idx", "t", [I(1)]), "=", V("b")), ("assign", V("r"), "=", ("idx", "t", [I(1)]))],
                                                             [("decl", A2, "t", None), ("assign", ("idx", "t", [I(0)]), "=", I(7)), ("assign", V("r"), "=", B("+", ("idx", "t", [I(0)]), ("idx", "t", [I(1)])))]), ("return", V("r"))])],
                                       inputs={"a": "int", "b": "int"})
    out["scope.loop-then-block"] = P([fn("f", "int", [("int", "n")], [("decl", "int", "r", I(0)), ("decl", "int", "k", I(0)),
                                      ("while", B("<", V("k"), V("n")), [("decl", "int", "v", None), ("assign", V("v"), "+=", B("+", V("k"), I(7))), ("assign", V("r"), "+=", V("v")), ("expr", ("pre", "++", "k"))]),
                                      ("block", [("decl", "int", "v", None), ("assign", V("v"), "+=", I(5)), ("assign", V("r"), "=", B("+", B("*", V("r"), I(100)), V("v")))]), ("return", V("r"))])], inputs={"n": "0..3"})
    out["scope.kinds-differ"] = P([fn("f", "int", [("int", "a")], [("decl", "int", "r", I(0)), ("block", [("decl", "int", "x", V("a")), ("assign", V("r"), "=", V("x"))]),
                                   ("block", [("decl", ("arr", "int", (3,)), "x", None), ("assign", ("idx", "x", [I(1)]), "=", I(4)), ("assign", V("r"), "+=", B("+", ("idx", "x", [I(1)]), ("idx", "x", [I(2)])))]), ("return", V("r"))])],
                                  inputs={"a": "int"})
    return out


def _inputs(ctx, prog):
    """-> (invoke kwargs, global settings) with symbolic values per the program's input declarations"""
    kw, gl = {}, {}
    for name, dom in prog["inputs"].items():
        isg = name.startswith("@")
        key = name.lstrip("@")
        if dom == "float" or dom == "float!=0":
            v = ctx.real(key)
            if dom.endswith("!=0"):
                ctx.assume(v != 0)
        elif dom == "arr2":
            v = [ctx.int(key + "0"), ctx.int(key + "1")]
            for x in v:
                ctx.assume(x >= -1000)
                ctx.assume(x <= 1000)
        else:
            v = ctx.int(key)
            if ".." in dom:
                lo, hi = dom.split("..")
                ctx.assume(v >= int(lo))
                ctx.assume(v <= int(hi))
            else:
                ctx.assume(v >= -30000)
                ctx.assume(v <= 30000)
                if dom == "int!=0":
                    ctx.assume(v != 0)
                elif dom == "int>=0":
                    ctx.assume(v >= 0)
                elif dom == "int>0":
                    ctx.assume(v > 0)
        (gl if isg else kw)[key] = v
    return kw, gl


def _concrete_inputs(prog, model):
    kw, gl = {}, {}
    for name, dom in prog["inputs"].items():
        key = name.lstrip("@")
        if dom.startswith("float"):
            v = float(model.get(key, 1.5))
        elif dom == "arr2":
            v = [int(model.get(key + "0", 1)), int(model.get(key + "1", 2))]
        else:
            v = int(model.get(key, 1))
        (gl if name.startswith("@") else kw)[key] = v
    return kw, gl


def _eqv(a, b):
    if isinstance(b, list):
        return z3.And(*[_eqv(x, y) for x, y in zip(a, b)]) if isinstance(a, list) and len(a) == len(b) else z3.BoolVal(False)
    if isinstance(b, dict):
        return z3.And(*[_eqv(a[k], b[k]) for k in b]) if isinstance(a, dict) and set(a) == set(b) else z3.BoolVal(False)
    if a is None or b is None:
        return z3.BoolVal(a is None and b is None)
    return vm_c.teq(a, b)


def _replay(src, prog, options):
    def mk(model, clause):
        kw, gl = _concrete_inputs(prog, model)
        return script("""
            import io, contextlib, copy, signal
            from nsl import Compiler, LinearIR, VM
            src = {{src}}
            kw, gl, options = {{kw}}, {{gl}}, {{options}}
            def _late(*a):
                print(src); print('inputs', kw, gl); print('the VM has not returned after 20 s; reference semantics (C01):', {{want}}); print('REPLAY-CONFIRMED', flush=True); import os; os._exit(0)
            signal.signal(signal.SIGALRM, _late); signal.alarm(20)
            res = []
            for opts in ({}, options):
                try:
                    with contextlib.redirect_stdout(io.StringIO()):
                        r = Compiler.Compiler().Compile(src, opts)
                    l = LinearIR.Linker(); l.AddModule(r.IRModule)
                    vm = VM.VirtualMachine(l.Link())
                    for k, v in gl.items(): vm.SetGlobal(k, copy.deepcopy(v))
                    out = vm.Invoke('f', **kw)
                    res.append((out, {k: vm.GetGlobal(k) for k in gl}))
                except BaseException as e:
                    res.append('raised %s: %s' % (type(e).__name__, e))
            print(src); print('inputs', kw, gl); print('VM without options / with', options, ':', res); print('reference semantics (C01):', {{want}})
            def exc(x):
                return x.split()[-1].rstrip(':') if isinstance(x, str) and 'raised' in x else None
            want = {{want}}
            same_failure = exc(want) is not None and all(isinstance(r, str) and r.split(':')[0].split()[-1] == exc(want) for r in res)
            if not same_failure and (res[0] != res[1] or str(res[1][0] if isinstance(res[1], tuple) else res[1]) != str(want)): print('REPLAY-CONFIRMED')
            """, src=src, kw=kw, gl=gl, options=options, want=_ref_concrete(prog, kw, gl))
    return mk


def _ref_concrete(prog, kw, gl):
    import copy
    try:
        it = rs.Interp(prog, copy.deepcopy(gl))
        return it.invoke(prog["call"], **kw)
    except Exception as e:
        return f"reference raised {type(e).__name__}"


def _run_program(R, oid, name, prog, options, minimal, fn, timeout_fails=True):
    import copy
    src = rs.render(prog, minimal=minimal)
    r, exc = vs.program(src, options)
    if r is None:
        R.check(f"{oid}[{name}]", fn, False, detail=f"the program is rejected ({type(exc).__name__ if exc else 'pass failed'}: {str(exc)[:120]}):\n{src}",
                replay=script("""
                    import io, contextlib
                    from nsl import Compiler
                    src = {{src}}
                    try:
                        with contextlib.redirect_stdout(io.StringIO()):
                            r = Compiler.Compiler().Compile(src, {{options}})
                    except BaseException as e:
                        r = None; print('rejected:', type(e).__name__, e)
                    print(src)
                    if r is None: print('REPLAY-CONFIRMED')
                    """, src=src, options=options or {}))
        return

    def run(ctx):
        kw, gl = _inputs(ctx, prog)
        gvm = {k: (list(v) if isinstance(v, list) else v) for k, v in gl.items()}
        gref = {k: (list(v) if isinstance(v, list) else v) for k, v in gl.items()}
        it = rs.Interp(prog, gref)
        want = it.invoke(prog["call"], **kw)
        from pyvc.sym import PathTimeout
        try:
            got, vm = vs.invoke(r, prog["call"], setglobals=gvm, **kw)
        except PathTimeout:
            if not timeout_fails:
                raise          # sampled programs: a slow path (huge symbolic terms) is skipped, never a verdict
            # the reference interpreter has finished this path (in at most 4000 steps); the VM has not come back within the path budget
            return [("terminates", z3.BoolVal(False), f"the reference semantics finish this run in {it.steps} steps, the VM did not return within the path budget")]
        goals = [("result", _eqv(got, want), f"VM returned a value of type {type(got).__name__}")]
        for g in gl:
            goals.append(("globals", _eqv(vm.GetGlobal(g), gref[g]), f"global {g}"))
        return goals

    verify(R, oid, fn, run, _replay(src, prog, options or {}), label=name, max_paths=1500)


def _mk(kind, part, parts):
    options = {"optimize": True} if kind == "optimize" else {}
    minimal = kind == "grouping"
    props = {"scalar": ["C01", "C03", "C05", "C12", "C15", "C11"], "optimize": ["C02", "C14", "C05", "C01"], "grouping": ["C08", "C01"]}[kind]

    @family(f"E2E.{kind}.{part}", props=props,
            functions=["nsl.Compiler::Compiler.Compile", "nsl.parser::NslParser.Parse", "nsl.passes.ComputeTypes::ComputeTypeVisitor", "nsl.passes.AddImplicitCasts::AddImplicitCastVisitor",
                       "nsl.passes.LowerToIR::LowerToIRVisitor", "nsl.passes.RewriteFunctionArgAccess::RewriteFunctionArgAccessVisitor", "nsl.passes.OptimizeLoadAfterStore::OptimizeLoadAfterStoreVisitor",
                       "nsl.passes.OptimizeConstantCasts::OptimizeConstantCastVisitor", "nsl.VM::ExecutionContext.__Execute"],
            assumptions=["the family of programs is finite (about 45 curated scalar-core programs covering every statement and operator form); for EACH program the inputs are symbolic (loop bounds in a small stated range), so the obligation holds for all inputs of that program",
                         "oracle: contracts/refsem.py, the reference interpreter written from the text of C01; it runs in the same path context as the VM",
                         "floats are reals (A2)"])
    def f(R, part=part):
        items = sorted(programs().items())
        for i, (name, prog) in enumerate(items):
            if i % parts != part:
                continue
            if kind == "grouping" and not name.startswith(("expr.", "if.", "for.", "assign.")):
                continue
            if name.startswith("sidefx."):
                continue          # run by E2E.sidefx (C01 only): known finding D25 concerns the reference semantics of C01 alone
            _run_program(R, f"E2E.{kind}", name, prog, options, minimal, "nsl.Compiler::Compiler.Compile")
    f.__doc__ = {"scalar": "Each program of the family: VM result and globals equal the reference semantics for all inputs.",
                 "optimize": "Each program compiled with `optimize`: same result and globals as the reference semantics (hence as the unoptimised module) for all inputs.",
                 "grouping": "Each program rendered WITHOUT redundant parentheses: the parser's grouping yields the reference result for all inputs."}[kind]
    return f


for _k in ("scalar", "optimize", "grouping"):
    for _p in range(4):
        _mk(_k, _p, 4)


@family("E2E.sidefx", props=["C01"], functions=["nsl.passes.RewriteAssignEqualOperations::RewriteAssignEqualVisitor.v_AssignmentExpression", "nsl.passes.LowerToIR::LowerToIRVisitor.v_AssignmentExpression", "nsl.VM::ExecutionContext.__Execute"],
        assumptions=["curated programs with a side effect inside the target of a compound assignment; inputs symbolic; oracle refsem.py (the target is designated once)"])
def e2e_sidefx(R):
    """A side effect in the index of a compound-assignment target happens once."""
    for name, prog in sorted(programs().items()):
        if name.startswith("sidefx."):
            _run_program(R, "E2E.scalar", name, prog, {}, False, "nsl.Compiler::Compiler.Compile")


@family("E2E.history", props=["C15", "C03"], functions=["nsl.VM::VirtualMachine.Invoke", "nsl.VM::VirtualMachine.SetGlobal", "nsl.VM::VirtualMachine.GetGlobal", "nsl.VM::ExecutionContext.__Execute"],
        assumptions=["BOUNDED in histories (never counted as a proof over all histories): every sequence of up to 4 host operations {set, invoke f / bump, get} on two VMs of one program, argument values symbolic, against the reference state machine"])
def e2e_history(R):
    """Histories of host operations on two VMs of the same linked program behave like the reference state machine; the VMs do not influence each other."""
    prog = P([fn("bump", "int", [("int", "d")], [("decl", "int", "loc", None), ("assign", V("loc"), "+=", V("d")), ("assign", V("g"), "=", B("+", V("g"), V("loc"))), ("assign", ("idx", "ga", [I(1)]), "+=", I(1)), ("return", V("g"))]),
              fn("f", "int", [("int", "a")], [("decl", ("arr", "int", (2,)), "t", None), ("assign", ("idx", "t", [I(0)]), "+=", V("a")), ("assign", V("h"), "=", B("+", V("h"), ("idx", "t", [I(0)]))),
                                              ("return", B("+", B("*", V("g"), I(100)), V("h")))])],
             globals_=[("int", "g"), ("int", "h"), (("arr", "int", (2,)), "ga")])
    src = rs.render(prog)
    for options in ({}, {"optimize": True}):
        r, exc = vs.program(src, options)
        if r is None:
            R.check(f"E2E.history[compile,{options}]", "nsl.Compiler::Compiler.Compile", False, detail=f"rejected {exc!r}")
            continue
        ops = ["set", "bump", "f", "get"]
        seqs = [s for n in (2, 3, 4) for s in itertools.product(ops, repeat=n) if "bump" in s or "f" in s]
        if R.tier != "thorough":
            seqs = seqs[::3]
        else:                     # thorough tier: every history of up to 4 operations, and every 7th of length 5
            seqs += [s for s in itertools.product(ops, repeat=5) if "bump" in s or "f" in s][::7]
        bad = []

        def run(ctx, r=r, seqs=seqs):
            x, y = ctx.int("x"), ctx.int("y")
            goals = []
            for seq in seqs:
                vms = [vs.make_vm(r), vs.make_vm(r)]
                refs = [rs.Interp(prog, {"g": 0, "h": 0, "ga": [0, 0]}), rs.Interp(prog, {"g": 0, "h": 0, "ga": [0, 0]})]
                for vm in vms:
                    vm.SetGlobal("g", 0)
                    vm.SetGlobal("h", 0)
                    vm.SetGlobal("ga", [0, 0])
                conj = []
                for k, o in enumerate(seq):
                    w = k % 2
                    arg = x if w == 0 else y
                    if o == "set":
                        vms[w].SetGlobal("g", arg)
                        refs[w].globals["g"] = arg
                    elif o == "get":
                        conj.append(_eqv(vms[w].GetGlobal("g"), refs[w].globals["g"]))
                        conj.append(_eqv(vms[w].GetGlobal("ga"), refs[w].globals["ga"]))
                    else:
                        with vm_c.shims():
                            got = vms[w].Invoke(o, **({"d": arg} if o == "bump" else {"a": arg}))
                        conj.append(_eqv(got, refs[w].invoke(o, **({"d": arg} if o == "bump" else {"a": arg}))))
                for w in (0, 1):
                    for gname in ("g", "h", "ga"):
                        conj.append(_eqv(vms[w].GetGlobal(gname), refs[w].globals[gname]))
                goals.append(("history", z3.And(*conj), f"history {seq}"))
            return goals

        verify(R, "E2E.history", "nsl.VM::VirtualMachine.Invoke", run, label=f"{len(seqs)}-histories,{'optimize' if options else 'plain'}")


# ---------------------------------------------------------------------------
# C02 stated directly: optimised module == unoptimised module, beyond the scalar core (aggregate copies, vectors, casts, loops
# without a condition).  The oracle is the SAME VM running the unoptimised module in the same path context -- no reference
# semantics is involved, so whatever the unoptimised module does (including aliasing of whole-array assignments) is the expectation.

def raw_programs():
    out = {}
    out["array-copy.write-through"] = ("export function f(int v, int w) -> int { int[2] a; int[2] b; a[0] = v; b = a; b[0] = w; return ((a[0] * 1000) + b[0]); }", {"v": "0..9", "w": "0..9"})
    out["array-copy.literal-write"] = ("export function f(int v) -> int { int[2] a; int[2] b; a[0] = v; b = a; b[0] = 1; return a[0]; }", {"v": "int"})
    out["array-copy.read-both"] = ("export function f(int v) -> int { int[3] a; int[3] b; a[1] = v; b = a; b[1] = (b[1] + 3); a[2] = 4; return (((a[1] * 100) + (b[1] * 10)) + b[2]); }", {"v": "0..9"})
    out["struct-copy.write-through"] = ("struct S { int x; int y; } export function f(int v) -> int { S s; S t; s.x = v; t = s; t.x = 1; return ((s.x * 10) + t.x); }", {"v": "0..9"})
    out["vector-copy.index-write"] = ("export function f(float x, float y) -> float4 { float4 t; float4 u; t = float4(x, y, 3.0, 4.0); u = t; u[2] = 5.0; return t; }", {"x": "float", "y": "float"})
    out["vector-copy.swizzle-source"] = ("export function f(float4 p) -> float2 { float2 t; float2 u; t = p.zx; u = t; u[1] = 9.0; return t; }", {"p": "float4"})
    out["vector-copy.return-copy"] = ("export function f(float4 p) -> float4 { float4 u; u = p; u[0] = 7.0; u.y = 8.0; return u; }", {"p": "float4"})
    out["vector.global-kept"] = ("float4 g; export function f(float x) -> float4 { float4 u; g = float4(x, 1.0, 2.0, 3.0); u = g; u[3] = 0.5; return u; }", {"x": "float", "@g": "float4"})
    out["matrix-copy.elem-write"] = ("export function f(float3x3 m, float s) -> float3x3 { float3x3 t; t = m; t[1][2] = s; return m; }", {"m": "float3x3", "s": "float"})
    out["for.no-condition"] = ("export function f(int n) -> int { int s = 0; for (int i = 0; ; ++i) { if (i >= n) { break; } s = (s + i); } return s; }", {"n": "0..3"})
    out["for.no-condition-return"] = ("export function f(int n) -> int { for (int i = 0; ; ++i) { if ((i * i) >= n) { return i; } } return 0; }", {"n": "0..9"})
    out["float.int-representation"] = ("export function f(int n) -> float { float x = 7; float y; float z; for (int i = 0; i < n; ++i) { y++; } z = (y + 2); return ((x / z) + (y / 2)); }", {"n": "0..3"})
    out["uint.param-literal"] = ("function g(uint u) -> uint { return (u + 10); } export function f(int a) -> uint { return g(7); }", {"a": "int"})
    out["cast.int-to-float-arg"] = ("function g(float u) -> float { return (u / 2); } export function f(int a) -> float { return (g(a) + g(3)); }", {"a": "int"})
    # assignments used as values, constants stored to parameters under optimize (third element: the expected result as a function of the inputs)
    out["assign.chained"] = ("export function f(int a) -> int { int b; int c; b = c = a; return ((b * 10) + c); }", {"a": "int"}, lambda a: a * 11)
    out["assign.in-condition"] = ("export function f(int a) -> int { int b; if (b = a) { return (b + 100); } return b; }", {"a": "0..3"}, None)
    out["const-cast.store-arg"] = ("export function f(float a) -> float { a = float(1); return (a + 0.5); }", {"a": "float"}, lambda a: 1.5)
    out["const-cast.store-arg-int"] = ("export function f(float a, int b) -> float { a = 2; b = 3; return (a + b); }", {"a": "float", "b": "int"}, lambda a, b: 5)
    out["narrowing.index-from-float-init"] = ("export function f(int k) -> int { int[3] a; a[1] = 7; int i = 1.5; return (a[i] + k); }", {"k": "int"}, lambda k: 7 + k)
    out["narrowing.assign-then-divide"] = ("export function f(int k) -> int { int x; x = 5.0; return ((x / 2) + k); }", {"k": "int"}, lambda k: 2 + k)
    out["narrowing.return"] = ("function h(float x) -> int { return x; } export function f(int k) -> int { int[3] a; a[2] = 9; return (a[h(2.0)] + k); }", {"k": "int"}, lambda k: 9 + k)
    out["call.vector-arg"] = ("function g(float2 v) -> float { return (v.x + v.y); } export function f(float2 p) -> float { float2 q; q = p; q[0] = 1.0; return (g(q) + g(p)); }", {"p": "float2"})
    return out


def _raw_inputs(ctx, decl):
    kw, gl = {}, {}
    for name, dom in decl.items():
        key = name.lstrip("@")
        if dom == "float":
            v = ctx.real(key)
        elif dom.startswith("float") and "x" in dom:
            n = int(dom[5])
            v = vs.symmat(ctx, key, n)
        elif dom.startswith("float"):
            v = vs.symvec(ctx, key, int(dom[5]))
        else:
            v = ctx.int(key)
            if ".." in dom:
                lo, hi = dom.split("..")
                ctx.assume(v >= int(lo))
                ctx.assume(v <= int(hi))
            else:
                ctx.assume(v >= -30000)
                ctx.assume(v <= 30000)
        (gl if name.startswith("@") else kw)[key] = v
    return kw, gl


def _raw_concrete(decl, model):
    kw, gl = {}, {}
    for name, dom in decl.items():
        key = name.lstrip("@")
        if dom == "float":
            v = float(model.get(key, 1.5))
        elif dom.startswith("float") and "x" in dom:
            n = int(dom[5])
            v = [[float(model.get(f"{key}{i}{j}", i * n + j + 1)) for j in range(n)] for i in range(n)]
        elif dom.startswith("float"):
            v = [float(model.get(f"{key}{i}", i + 1)) for i in range(int(dom[5]))]
        else:
            v = int(model.get(key, int(dom.split("..")[0]) if ".." in dom else 1))
        (gl if name.startswith("@") else kw)[key] = v
    return kw, gl


@family("E2E.opt-vs-plain", props=["C02", "C04", "C05"],
        functions=["nsl.Compiler::Compiler.Compile", "nsl.passes.OptimizeLoadAfterStore::OptimizeLoadAfterStoreVisitor", "nsl.passes.OptimizeConstantCasts::OptimizeConstantCastVisitor", "nsl.VM::ExecutionContext.__Execute"],
        assumptions=["the family of programs is finite (curated: whole-array / struct / vector / matrix copies followed by writes through the copy, loops without a condition, float storage holding ints, constant casts); for EACH program the inputs are symbolic, so the obligation holds for all inputs of that program",
                     "oracle: the unoptimised module run by the same VM in the same path context (C02 as stated); floats are reals (A2)"])
def e2e_opt_vs_plain(R):
    """Each program: compiled with and without `optimize`, both accepted, same result and same globals for all inputs; neither run fails."""
    import copy
    fn = "nsl.Compiler::Compiler.Compile"
    for name, spec in sorted(raw_programs().items()):
        src, decl = spec[0], spec[1]
        wantf = spec[2] if len(spec) > 2 else None
        rp, excp = vs.program(src, {})
        ro, exco = vs.program(src, {"optimize": True})
        if rp is None or ro is None:
            R.check(f"E2E.opt-vs-plain[{name}]", fn, False, detail=f"rejected: plain {excp!r}, optimised {exco!r}\n{src}")
            continue

        def run(ctx, rp=rp, ro=ro, decl=decl, wantf=wantf):
            kw, gl = _raw_inputs(ctx, decl)
            outs = []
            for r in (rp, ro):
                g = copy.deepcopy(gl)
                k = copy.deepcopy(kw)
                got, vm = vs.invoke(r, "f", setglobals=g, **k)
                outs.append((got, {x: vm.GetGlobal(x) for x in gl}))
            goals = [("result", _eqv(outs[1][0], outs[0][0]), "optimised result differs from the unoptimised one")]
            for x in gl:
                goals.append(("globals", _eqv(outs[1][1][x], outs[0][1][x]), f"global {x}"))
            if wantf is not None:
                goals.append(("expected-value", _eqv(outs[0][0], wantf(**kw)), "the unoptimised result is not the value the source prescribes"))
            return goals

        def replay(model, clause, src=src, decl=decl):
            kw, gl = _raw_concrete(decl, model)
            return script("""
                import io, contextlib, copy
                from nsl import Compiler, LinearIR, VM
                src = {{src}}
                kw, gl = {{kw}}, {{gl}}
                res = []
                for opts in ({}, {'optimize': True}):
                    try:
                        with contextlib.redirect_stdout(io.StringIO()):
                            r = Compiler.Compiler().Compile(src, opts)
                        l = LinearIR.Linker(); l.AddModule(r.IRModule)
                        vm = VM.VirtualMachine(l.Link())
                        for k, v in gl.items(): vm.SetGlobal(k, copy.deepcopy(v))
                        out = vm.Invoke('f', **copy.deepcopy(kw))
                        res.append((out, {k: vm.GetGlobal(k) for k in gl}))
                    except BaseException as e:
                        res.append('raised %s: %s' % (type(e).__name__, e))
                print(src); print('inputs', kw, gl); print('unoptimised:', res[0]); print('optimised:  ', res[1])
                if res[0] != res[1] or isinstance(res[0], str): print('REPLAY-CONFIRMED')
                """, src=src, kw=kw, gl=gl)

        verify(R, "E2E.opt-vs-plain", fn, run, replay, label=name, max_paths=600)


# ---------------------------------------------------------------------------
# Compile is a function of (source, options): a Compiler object that compiled other programs before produces the same IR and the same
# WebAssembly bytes as a fresh one (the wasm pass owns the module under construction; the parser owns a line table; passes own flags).

def _ir_text(result):
    import nsl.LinearIR as IR
    out = []
    try:
        pr = IR.InstructionPrinter(lambda *a, end="\n": out.append(" ".join(str(x) for x in a) + end))
        pr.Print(result.IRModule)
    except Exception as e:
        out.append(f"<printer failed {type(e).__name__}>")
    return "".join(out)


def _wasm_bytes(result):
    import io
    if result.WasmModule is None:
        return None
    b = io.BytesIO()
    result.WasmModule.WriteTo(b)
    return b.getvalue()


@family("P.compile-history", props=["C07", "C06", "C02", "C14", "C20", "C10", "C05", "C11", "C16", "C12", "C13"],
        functions=["nsl.Compiler::Compiler.Compile", "nsl.Compiler::Compiler.__init__", "nsl.passes.GenerateWasm::GetPass", "nsl.passes.GenerateWasm::GenerateWasmVisitor.Finalize", "nsl.passes.LowerToIR::GetPass"],
        assumptions=["BOUNDED in histories (never counted as a proof over all histories): every ordered pair and triple drawn from 7 programs (5 accepted, 2 rejected), compiled one after the other by ONE Compiler object under each of the option sets {}, optimize, wasm, optimize+wasm, compared with a fresh Compiler"])
def compile_history(R):
    """The IR text and the WebAssembly bytes produced for a program do not depend on what the same Compiler object compiled before."""
    import io, contextlib
    from nsl import Compiler
    progs = [
        "export function f(int a, int b) -> int { return (a + b); }",
        "function helper(int a) -> int { return (a * 2); }\nexport function g(int a) -> int { return helper(a); }",
        "export function h(float x,\n float y) -> float {\n return (x * y); }",
        "function helper(int a) -> int { return (a * 2); }\nexport function k(int a, float z) -> int { return (a - 1); }",
        "int counter;\nexport function m(int a) -> int { return (a * a); }",
        # rejected on their own -- and so they must be after any other program: the names `helper` / `counter` of EARLIER programs are not
        # visible, and an earlier rejection does not stick
        "export function n(int a) -> int { return helper(a); }",
        "export function o(int a) -> int { break; return a; }",
    ]

    def comp(c, src, opts):
        try:
            with contextlib.redirect_stdout(io.StringIO()):
                r = c.Compile(src, dict(opts))
        except BaseException as e:
            if isinstance(e, KeyboardInterrupt):
                raise
            return "rejected"          # a failing pass surfaces as an exception (CompileException, or AttributeError from __RunPass)
        return (_ir_text(r), _wasm_bytes(r)) if r is not None else "rejected"

    for opts in ({}, {"optimize": True}, {"wasm": True}, {"optimize": True, "wasm": True}):
        fresh = {s: comp(Compiler.Compiler(), s, opts) for s in progs}
        usable = list(progs)
        bad = None
        n = 0
        for k in (2, 3):
            for seq in itertools.permutations(usable, k):
                c = Compiler.Compiler()
                for j, s in enumerate(seq):
                    n += 1
                    got = comp(c, s, opts)
                    if got != fresh[s] and bad is None:
                        if isinstance(got, tuple) and isinstance(fresh[s], tuple):
                            what = "different IR text" if got[0] != fresh[s][0] else "different wasm bytes"
                        else:
                            what = f"`{got if isinstance(got, str) else 'accepted'}` where a fresh Compiler says `{fresh[s] if isinstance(fresh[s], str) else 'accepted'}`"
                        bad = (seq[:j + 1], what)
                if bad:
                    break
            if bad:
                break
        lab = ",".join(sorted(opts)) or "plain"
        rp = None
        if bad:
            rp = script("""
                import io, contextlib
                from nsl import Compiler
                seq, opts = {{seq}}, {{opts}}
                def comp(c, s):
                    try:
                        with contextlib.redirect_stdout(io.StringIO()):
                            r = c.Compile(s, dict(opts))
                    except BaseException as e:
                        return 'rejected'
                    if r is None: return 'rejected'
                    b = io.BytesIO()
                    if r.WasmModule is not None: r.WasmModule.WriteTo(b)
                    return (sorted(r.IRModule.Functions), b.getvalue().hex())
                c = Compiler.Compiler()
                shared = [comp(c, s) for s in seq]
                fresh = [comp(Compiler.Compiler(), s) for s in seq]
                print('same Compiler  :', shared); print('fresh Compilers:', fresh)
                if shared != fresh: print('REPLAY-CONFIRMED')
                """, seq=list(bad[0]), opts=dict(opts))
        R.bounded(f"P.compile-history[{lab}]", "nsl.Compiler::Compiler.Compile", bad is None, n,
                  detail=f"{n} compilations in sequences of 2-3 programs on one Compiler" if bad is None else f"after compiling {len(bad[0]) - 1} other program(s) the same Compiler produces {bad[1]} for:\n{bad[0][-1]}", replay=rp)


# ---------------------------------------------------------------------------
# Compilation is a function of the source text, also across Compiler objects in one process: programs that use the SAME names for DIFFERENT
# things (struct members, overload sets, global / local types, array sizes), compiled one after the other by fresh Compiler objects, each behave
# as their own text says.  (P.compile-history compares with a fresh Compiler of the same process and is blind to state kept at class or module
# level -- memo tables keyed by a name or by str(type).)  Expected values are those the text of C01 / C03 / C10 prescribes.

_PROCESS_GROUPS = {
    "struct-members": [
        ("struct Acc { int total; }\nexport function f(int a) -> int { Acc s; s.total = (s.total + a); return s.total; }", dict(a=5), 5),
        ("struct Acc { int total; int count; }\nexport function f(int a) -> int { Acc s; s.count = (s.count + 1); s.total = (s.total + a); return (s.total + s.count); }", dict(a=5), 6),
        ("struct Acc { float total; int[3] hits; }\nexport function f(int a) -> float { Acc s; s.hits[2] = (s.hits[2] + 1); s.total = (s.total + 0.5); return (s.total + s.hits[2]); }", dict(a=5), 1.5),
    ],
    "overload-sets": [
        ("function sc(float x) -> float { return (x * 2.0); }\nexport function f(int a) -> float { return sc(a); }", dict(a=3), 6.0),
        ("function sc(int x) -> int { return (x + 100); }\nfunction sc(float x) -> float { return (x * 2.0); }\nexport function f(int a) -> float { return sc(a); }", dict(a=3), 103.0),
        ("function sc(int x) -> int { return (x + 7); }\nexport function f(int a) -> float { return sc(a); }", dict(a=3), 10.0),
        ("function sc(int x, int y) -> int { return (x - y); }\nexport function f(int a) -> float { return sc(a, 1); }", dict(a=3), 2.0),
    ],
    "global-types": [
        ("int g;\nexport function f(int a) -> int { g = a; return (g / 2); }", dict(a=3), 1),
        ("float g;\nexport function f(int a) -> float { g = a; return (g / 2); }", dict(a=3), 1.5),
        ("float g;\nexport function f(int a) -> float { g = (a / 2); return g; }", dict(a=3), 1.0),
    ],
    "parameter-types": [
        ("export function f(int a, int b) -> int { return (a / b); }", dict(a=7, b=2), 3),
        ("export function f(float a, float b) -> float { return (a / b); }", dict(a=7.0, b=2.0), 3.5),
        ("export function f(float a, int b) -> float { return (a / b); }", dict(a=7.0, b=2), 3.5),
    ],
    "local-types": [
        ("export function f(int a) -> int { int x = (a / 2); int[3] t; t[2] = x; return (t[2] * 2); }", dict(a=7), 6),
        ("export function f(int a) -> float { float x = (a / 2.0); float[5] t; t[4] = x; return (t[4] * 2); }", dict(a=7), 7.0),
        ("export function f(int a) -> int { int[5] t; t[4] = a; int x = t[4]; x++; return x; }", dict(a=7), 8),
    ],
    "constants": [
        ("export function f(int a) -> int { int x = 1; return ((a + x) / 2); }", dict(a=6), 3),
        ("export function f(float a) -> float { float x = 1.0; x++; return ((a + x) / 2); }", dict(a=6.0), 4.0),
        ("export function f(int a) -> float { float x = 1; return ((a + x) / 2); }", dict(a=6), 3.5),
    ],
    "loops": [
        ("export function f(int n) -> int { int r = 0; for (int i = 0; i < n; ++i) { if (i == 2) { break; } r = (r + 1); } for (int j = 0; j < n; ++j) { r = (r + 10); } return r; }", dict(n=4), 42),
        ("export function f(int n) -> int { int r = 0; int i = 0; while (i < n) { i = (i + 1); if (i == 2) { continue; } r = (r + i); } return r; }", dict(n=4), 8),
        ("export function f(int n) -> int { int r = 0; for (int i = 0; i < n; ++i) { for (int j = 0; j < n; ++j) { if (j == 1) { break; } r = (r + 1); } if (i == 2) { continue; } r = (r + 100); } return r; }", dict(n=4), 304),
    ],
}


@family("E2E.process-history", props=["C01", "C03", "C05", "C10", "C16", "C02", "C12", "C15"],
        functions=["nsl.Compiler::Compiler.Compile", "nsl.passes.ComputeTypes::ComputeTypeVisitor", "nsl.passes.LowerToIR::LowerToIRVisitor", "nsl.types::ResolveFunction", "nsl.VM::VirtualMachine.Invoke"],
        assumptions=["BOUNDED in histories and inputs (never counted as proved): 7 groups of 3-4 programs that give the same names different meanings; within each group every ordered pair, and the whole "
                     "list forwards and backwards, compiled by fresh Compiler objects in ONE process (plain and optimised) and run on one input each; expected values written from the property text"])
def process_history(R):
    """A program means what its own text says, whatever other programs this process compiled before (fresh Compiler objects)."""
    import io, contextlib, itertools
    from nsl import Compiler, LinearIR, VM

    def run_one(src, args, opt):
        try:
            with contextlib.redirect_stdout(io.StringIO()):
                r = Compiler.Compiler().Compile(src, {"optimize": opt})
            lk = LinearIR.Linker()
            lk.AddModule(r.IRModule)
            return VM.VirtualMachine(lk.Link()).Invoke("f", **dict(args))
        except BaseException as e:
            if isinstance(e, KeyboardInterrupt):
                raise
            return f"raised {type(e).__name__}: {str(e)[:80]}"

    def same(got, want):
        return isinstance(got, (int, float)) and not isinstance(got, bool) and got == want

    for gname, progs in _PROCESS_GROUPS.items():
        seqs = [list(p) for p in itertools.permutations(range(len(progs)), 2)] + [list(range(len(progs))), list(reversed(range(len(progs))))]
        for opt in (False, True):
            bad = None
            n = 0
            for seq in seqs:
                for pos, k in enumerate(seq):
                    src, args, want = progs[k]
                    got = run_one(src, args, opt)
                    n += 1
                    if not same(got, want) and bad is None:
                        bad = (seq[:pos + 1], got, want)
                if bad:
                    break
            rp = None
            if bad:
                rp = script("""
                    import io, contextlib
                    from nsl import Compiler, LinearIR, VM
                    progs, opt = {{progs}}, {{opt}}
                    def run_one(src, args):
                        try:
                            with contextlib.redirect_stdout(io.StringIO()):
                                r = Compiler.Compiler().Compile(src, {'optimize': opt})
                            lk = LinearIR.Linker(); lk.AddModule(r.IRModule)
                            return VM.VirtualMachine(lk.Link()).Invoke('f', **dict(args))
                        except BaseException as e:
                            return 'raised %s: %s' % (type(e).__name__, str(e)[:80])
                    got = None
                    for src, args, want in progs:
                        got = run_one(src, args)
                        print(src); print('   f(%r) = %r, expected %r' % (args, got, want))
                    if not (isinstance(got, (int, float)) and got == want): print('REPLAY-CONFIRMED')
                    """, progs=[list(progs[k]) for k in bad[0]], opt=opt)
            R.bounded(f"E2E.process-history[{gname},{'opt' if opt else 'plain'}]", "nsl.Compiler::Compiler.Compile", bad is None, n,
                      detail=f"{n} compilations" if bad is None else
                      f"after compiling {len(bad[0]) - 1} other program(s) of the group in this process, f returns {bad[1]!r} instead of {bad[2]!r} for:\n{progs[bad[0][-1]][0]}", replay=rp)
