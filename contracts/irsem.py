"""IRsem: reference semantics of the linear IR, written from the property texts
(C01: C-like scalar semantics; C04: component-wise vectors and matrices).

Values: int -> z3 Int term, float -> z3 Real term (A2: floats as reals),
vector -> list of terms, matrix -> list of lists, array -> nested lists,
struct -> dict.  All functions take and return *terms* (or Python containers of
terms)."""
from __future__ import annotations

import z3

from pyvc.sym import term, trunc_real, fop

I32_MIN, I32_MAX = -(2 ** 31), 2 ** 31 - 1


def in_i32(t):
    return z3.And(t >= I32_MIN, t <= I32_MAX)


def is_real(t):
    return z3.is_expr(t) and t.sort() == z3.RealSort()


def _lift(a, b):
    if is_real(a) or is_real(b):
        return (a if is_real(a) else z3.ToReal(a)), (b if is_real(b) else z3.ToReal(b)), True
    return a, b, False


def b2i(c):
    return z3.If(c, z3.IntVal(1), z3.IntVal(0))


def truthy(a):
    return a != 0


def binary(opname, a, b, int_result):
    """Result term of a scalar binary opcode, or None where the property leaves the value unconstrained."""
    x, y, real = _lift(a, b)
    if not int_result and not real and opname == "DIV":
        # a float-typed division of two whole numbers the VM holds as Python ints (zero-initialised float locals, `float x = 7;`)
        x, y, real = z3.ToReal(x), z3.ToReal(y), True
    if real and opname in ("ADD", "SUB", "MUL", "DIV"):
        return fop(opname.lower(), x, y)          # the real operator, or the uninterpreted IEEE one under FloatUF
    if opname == "ADD":
        return x + y
    if opname == "SUB":
        return x - y
    if opname == "MUL":
        return x * y
    if opname == "DIV":
        if real:
            return x / y
        # integer division truncates toward zero (C01)
        q = z3.If(y > 0, z3.If(x >= 0, x / y, -((-x) / y)), z3.If(x >= 0, -(x / (-y)), (-x) / (-y)))
        return q
    if opname == "MOD":
        return None if real else x % y          # constrained only for a >= 0, b > 0 (see mod_pre)
    if opname == "LG_AND":
        return b2i(z3.And(truthy(x), truthy(y)))
    if opname == "LG_OR":
        return b2i(z3.Or(truthy(x), truthy(y)))
    cmp = {"CMP_GT": lambda: x > y, "CMP_LT": lambda: x < y, "CMP_LE": lambda: x <= y, "CMP_GE": lambda: x >= y,
           "CMP_NE": lambda: x != y, "CMP_EQ": lambda: x == y}
    if opname in cmp:
        return b2i(cmp[opname]())
    raise KeyError(opname)


def mod_pre(a, b):
    return z3.And(a >= 0, b > 0)


def zero(irtype):
    """The zero-initialised value of an IR type (C01: locals are zero-initialised)."""
    import nsl.LinearIR as IR
    k = irtype.Kind
    if k == IR.TypeKind.Scalar:
        return 0
    if k == IR.TypeKind.Vector:
        return [0] * irtype.Size
    if k == IR.TypeKind.Matrix:
        return [[0] * irtype.ColumnCount for _ in range(irtype.RowCount)]
    if k == IR.TypeKind.Structure:
        return {n: zero(t) for n, t in irtype.Fields.items()}
    if k == IR.TypeKind.Array:
        def arr(sizes):
            if len(sizes) == 1:
                return [zero(irtype.ElementType) for _ in range(sizes[0])]
            return [arr(sizes[1:]) for _ in range(sizes[0])]
        return arr(list(irtype.Size))
    raise KeyError(k)


def same_structure(v, spec):
    """Python-level structural equality of a VM value against a spec value built from ints / lists / dicts."""
    if isinstance(spec, list):
        return isinstance(v, list) and len(v) == len(spec) and all(same_structure(a, b) for a, b in zip(v, spec))
    if isinstance(spec, dict):
        return isinstance(v, dict) and list(v.keys()) == list(spec.keys()) and all(same_structure(v[k], spec[k]) for k in spec)
    return (not isinstance(v, (list, dict))) and v == spec


def mutable_ids(v, irtype=None, out=None):
    """ids of every container inside a value that the VM mutates IN PLACE: the lists of
    arrays (STORE_ARRAY) and the dicts of structs (STORE_MEMBER).  Vectors and matrix rows
    are values (VECTOR_SET / MATRIX_SET copy), sharing them is unobservable."""
    import nsl.LinearIR as IR
    if out is None:
        out = []
    if irtype is None:
        if isinstance(v, list):
            out.append(id(v))
            for x in v:
                mutable_ids(x, None, out)
        elif isinstance(v, dict):
            out.append(id(v))
            for x in v.values():
                mutable_ids(x, None, out)
        return out
    k = irtype.Kind
    if k == IR.TypeKind.Array and isinstance(v, list):
        def arr(x, sizes):
            if not isinstance(x, list):
                return
            out.append(id(x))
            for y in x:
                if len(sizes) > 1:
                    arr(y, sizes[1:])
                else:
                    mutable_ids(y, irtype.ElementType, out)
        arr(v, list(irtype.Size))
    elif k == IR.TypeKind.Structure and isinstance(v, dict):
        out.append(id(v))
        for n, t in irtype.Fields.items():
            if n in v:
                mutable_ids(v[n], t, out)
    return out


def matmul(a, b):
    n, m, p = len(a), len(b), len(b[0])
    return [[sum((a[i][k] * b[k][j] for k in range(m)), z3.RealVal(0)) for j in range(p)] for i in range(n)]
