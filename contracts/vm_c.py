"""VM contracts (C01, C03, C04, C05, C15): the interpreter loop of
nsl.VM.ExecutionContext.__Execute is verified as a *step function* -- the body
of its while loop is sliced out mechanically (pyvc/slicer.py) and executed on
states produced by the sliced prologue, with symbolic operand values."""
from __future__ import annotations

import collections
import contextlib
import functools
import itertools

import z3

from pyvc import slicer
from pyvc.core import family, resolve, Missing
from pyvc.sym import SymInt, SymReal, SymBool, term, Unsupported, cur, is_sym, sym_float, sym_int, sym_isinstance, FloatUF
from pyvc.util import patched, script
from pyvc.verify import verify
from . import irsem

VMP = "nsl.VM::ExecutionContext"
EXEC = VMP + ".__Execute"


def IR():
    import nsl.LinearIR as m
    return m


def VM():
    import nsl.VM as m
    return m


def shims():
    """builtins that cannot accept proxies, bound in nsl.VM's globals during verification"""
    return patched(VM(), float=sym_float, isinstance=sym_isinstance)


class Harness:
    """One activation of __Execute on a one-block function built for the obligation."""

    _cache = {}

    def __init__(self, arg_types=None, ret=None, globals_=None):
        ir = IR()
        self.ir = ir
        args = collections.OrderedDict(arg_types or {})
        self.function = ir.Function("f", ir.FunctionType(ret or ir.IntegerType(), args))
        self.bb = self.function.CreateBasicBlock()
        self.globalScope = dict(globals_ or {})
        self.functions = {"f": self.function}
        self.ctx = VM().ExecutionContext(self.functions, self.globalScope)
        ex = resolve(EXEC)
        key = id(ex)
        if key not in Harness._cache:
            li = slicer.loop_index_of(ex, "While", 0)
            Harness._cache[key] = (slicer.prologue_slice(ex, li), slicer.step_slice(ex, li), slicer.epilogue_slice(ex, li))
        self.prologue, self.stepf, self.epilogue = Harness._cache[key]

    producer = "decl"

    def value(self, irtype, name=None):
        """An instruction producing a value of the given type (its result is bound by hand, the instruction itself is never executed).
        Harness.producer selects the CLASS of that instruction: what a step does with an operand value must not depend on which kind of
        instruction produced it (a constructor result is as much a value as a loaded variable)."""
        ir = self.ir
        k = Harness.producer
        if k == "decl" or name is not None:
            i = ir.DeclareVariableInstruction(irtype, name)
        else:
            d = self.bb.AddInstruction(ir.DeclareVariableInstruction(irtype, None))
            if k == "load":
                i = ir.VariableAccessInstruction(irtype, "someLocal", ir.VariableAccessScope.FUNCTION_LOCAL)
            elif k == "construct":
                i = ir.ConstructPrimitiveInstruction(irtype, [d])
            elif k == "shuffle":
                i = ir.ShuffleInstruction(irtype, d, d, [0, 1])
            elif k == "call":
                i = ir.CallInstruction(irtype, "g", [d])
            elif k == "binary":
                i = ir.BinaryInstruction(ir.OpCode.VECTOR_ADD if irtype.Kind == ir.TypeKind.Vector else ir.OpCode.ADD, irtype, d, d)
            elif k == "cast":
                i = ir.CastInstruction(d, irtype)
            elif k == "vector-set" and irtype.Kind != ir.TypeKind.Vector:
                i = d
                return i
            elif k == "vector-set":
                ix = self.bb.AddInstruction(ir.DeclareVariableInstruction(ir.IntegerType(), None))
                i = ir.VectorAccessInstruction(irtype, d, ix)
                i.SetStore(ix)
            else:
                raise KeyError(k)
        return self.bb.AddInstruction(i)

    def add(self, instr):
        return self.bb.AddInstruction(instr)

    def start(self, args, binds, at):
        kind, _, loc = self.prologue(self.ctx, self.function, args)
        assert kind == "next"
        for k, v in binds.items():
            loc["localScope"][k.Reference if hasattr(k, "Reference") else k] = v
        idx = [i for i, x in enumerate(loc["instructions"]) if x is at]
        if len(idx) != 1:
            raise Unsupported("instruction under test not found exactly once in the flattened instruction list")
        loc["currentInstruction"] = idx[0]
        self.pre = loc
        self.pc = idx[0]
        return loc

    def step(self):
        pre = self.pre
        self.snap = Snapshot(self, pre)
        params = self.stepf.slice_info["params"]
        with shims():
            kind, val, post = self.stepf(**{k: pre[k] for k in params if k in pre})
        self.kind, self.val, self.post = kind, val, post
        return kind, val, post


PRODUCERS = ("decl", "load", "construct", "shuffle", "call", "binary", "cast", "vector-set")


@contextlib.contextmanager
def produced_by(kind):
    prev = Harness.producer
    Harness.producer = kind
    try:
        yield
    finally:
        Harness.producer = prev


def _deep(v):
    """structural snapshot of a value: (id, type, contents) for containers, identity for leaves"""
    if isinstance(v, list):
        return ("list", id(v), [_deep(x) for x in v])
    if isinstance(v, dict):
        return ("dict", id(v), [(k, _deep(x)) for k, x in v.items()])
    return ("leaf", id(v))


def _graph(function):
    """attribute snapshot of the program objects reachable from a function (blocks, instructions, constants)"""
    ir = IR()
    seen = {}
    todo = [function]
    while todo:
        o = todo.pop()
        if id(o) in seen or not isinstance(o, (ir.Value, ir.Type)):
            continue
        d = {}
        for k, v in vars(o).items():
            if isinstance(v, (list, tuple)):
                d[k] = ("seq", [id(x) for x in v])
                todo += [x for x in v if isinstance(x, (ir.Value, ir.Type))]
            elif isinstance(v, dict):
                d[k] = ("map", [(kk, id(x)) for kk, x in v.items()])
                todo += [x for x in v.values() if isinstance(x, (ir.Value, ir.Type))]
            else:
                d[k] = ("v", id(v) if not isinstance(v, (int, str, float, bool, type(None))) else v)
                if isinstance(v, (ir.Value, ir.Type)):
                    todo.append(v)
        seen[id(o)] = (type(o).__name__, d)
    return seen


class Snapshot:
    def __init__(self, h, pre):
        self.ids = {k: id(pre[k]) for k in ("localScope", "args", "instructions", "blockOffsets", "function", "self")}
        self.local = dict(pre["localScope"])
        self.local_deep = {k: _deep(v) for k, v in pre["localScope"].items()}
        self.args = list(pre["args"])
        self.args_deep = [_deep(v) for v in pre["args"]]
        self.globals = dict(h.globalScope)
        self.globals_deep = {k: _deep(v) for k, v in h.globalScope.items()}
        self.instructions = list(pre["instructions"])
        self.offsets = dict(pre["blockOffsets"])
        self.last = pre["lastInstruction"]
        self.graph = _graph(h.function)
        self.functions = dict(h.functions)


def frame_goals(h, writes_local=(), writes_args=(), writes_global=(), mutates=(), next_pc=None, kind="next"):
    """The frame condition of one step: everything not named is unchanged."""
    s, post = h.snap, h.post
    g = []

    def ok(name, cond, det=""):
        g.append((name, z3.BoolVal(bool(cond)), det))

    ok("frame.same-localScope-object", id(post["localScope"]) == s.ids["localScope"], "the activation's value map was replaced")
    ok("frame.args-variable", id(post["args"]) == s.ids["args"], "the activation's `args` variable was rebound to another list")
    ok("frame.loop-variables", id(post["instructions"]) == s.ids["instructions"] and id(post["blockOffsets"]) == s.ids["blockOffsets"]
       and post["function"] is h.function and post["lastInstruction"] == s.last and post["instructions"] == s.instructions and post["blockOffsets"] == s.offsets,
       "instructions / blockOffsets / lastInstruction / function changed")
    ls = post["localScope"]
    changed = [k for k in set(ls) | set(s.local) if (k not in ls) or (k not in s.local) or (ls[k] is not s.local[k])]
    extra = [k for k in changed if k not in writes_local]
    ok("frame.localScope-other-keys", not extra, f"value map changed at {extra}, allowed {list(writes_local)}")
    a = post["args"] if id(post["args"]) == s.ids["args"] else h.pre["args"]
    chg = [i for i in range(max(len(a), len(s.args))) if i >= len(a) or i >= len(s.args) or a[i] is not s.args[i]]
    ok("frame.args-contents", [i for i in chg if i not in writes_args] == [], f"argument slots changed: {chg}, allowed {list(writes_args)}")
    gs = h.globalScope
    gch = [k for k in set(gs) | set(s.globals) if k not in gs or k not in s.globals or gs[k] is not s.globals[k]]
    ok("frame.globals", [k for k in gch if k not in writes_global] == [], f"globals changed: {gch}, allowed {list(writes_global)}")
    # no pre-existing container was mutated in place (except the named ones)
    mut = []
    allowed = set(id(m) for m in mutates)

    def cmp(deep, v, path):
        if deep[0] == "leaf":
            return
        if id(v) != deep[1]:
            return          # rebinding is judged by the key checks above
        if deep[0] == "list":
            now = _deep(v)
            if [x[1] if x[0] != "leaf" else x[1] for x in now[2]] != [x[1] for x in deep[2]] and id(v) not in allowed:
                mut.append(path)
            for i, (d, x) in enumerate(zip(deep[2], v)):
                cmp(d, x, path + [i])
        else:
            now = _deep(v)
            if [(k, x[1]) for k, x in now[2]] != [(k, x[1]) for k, x in deep[2]] and id(v) not in allowed:
                mut.append(path)
            for (k, d) in deep[2]:
                if k in v:
                    cmp(d, v[k], path + [k])

    for k, d in s.local_deep.items():
        cmp(d, s.local[k], ["localScope", k])
    for i, d in enumerate(s.args_deep):
        cmp(d, s.args[i], ["args", i])
    for k, d in s.globals_deep.items():
        cmp(d, s.globals[k], ["globals", k])
    ok("frame.no-in-place-mutation", not mut, f"pre-existing containers mutated in place: {mut}")
    ok("frame.program-read-only", _graph(h.function) == s.graph and h.functions == s.functions, "the function / its blocks / instructions / constants were modified during execution")
    ok("kind", h.kind == kind, f"step ended with {h.kind!r}, expected {kind!r}")
    if kind == "next":
        want = h.pc + 1 if next_pc is None else next_pc
        pc = post["currentInstruction"]
        g.append(("pc", term(pc) == want if (is_sym(pc) or isinstance(pc, int)) else z3.BoolVal(False), f"next instruction index {pc!r}, expected {want}"))
    return g


def sym_of(ctx, irtype, name, dims=None):
    """A symbolic VM value of the shape of an IR type."""
    ir = IR()
    k = irtype.Kind
    if k == ir.TypeKind.Scalar:
        if isinstance(irtype, ir.IntegerType):
            v = ctx.int(name)
            ctx.assume(irsem.in_i32(v.t))
            if irtype.Unsigned:
                ctx.assume(v >= 0)
            return v
        return ctx.real(name)
    if k == ir.TypeKind.Vector:
        return [sym_of(ctx, irtype.ElementType, f"{name}{i}") for i in range(irtype.Size)]
    if k == ir.TypeKind.Matrix:
        return [[sym_of(ctx, irtype.ElementType, f"{name}{i}{j}") for j in range(irtype.ColumnCount)] for i in range(irtype.RowCount)]
    if k == ir.TypeKind.Structure:
        return {n: sym_of(ctx, t, f"{name}.{n}") for n, t in irtype.Fields.items()}
    if k == ir.TypeKind.Array:
        def arr(sizes, nm):
            if len(sizes) == 1:
                return [sym_of(ctx, irtype.ElementType, f"{nm}_{i}") for i in range(sizes[0])]
            return [arr(sizes[1:], f"{nm}_{i}") for i in range(sizes[0])]
        return arr(list(irtype.Size), name)
    raise Unsupported(f"no symbolic value for {irtype}")


def T(kind):
    ir = IR()
    return {"i": ir.IntegerType(), "u": ir.IntegerType(unsigned=True), "f": ir.FloatType(), "F": ir.FloatType()}[kind]


def sym_repr(ctx, kind, name):
    """A scalar operand value: kind 'F' is a float-typed value that the VM holds as a Python int (zero-initialised float storage is the
    int 0, `float x = 7;` stores the int 7, ++/-- keep it an int) -- the static type, not the representation, selects the semantics."""
    if kind == "F":
        return ctx.int(name)
    return sym_of(ctx, T(kind), name)


def vec(kind, n):
    return IR().VectorType(T(kind), n)


def mat(n):
    ir = IR()
    return ir.MatrixType(ir.VectorType(ir.FloatType(), n), n)


def teq(a, b):
    """z3 equality of two numeric VM values (proxy / python number / term)"""
    ta, tb = term(a), term(b)
    if ta.sort() != tb.sort():
        ta = z3.ToReal(ta) if ta.sort() == z3.IntSort() else ta
        tb = z3.ToReal(tb) if tb.sort() == z3.IntSort() else tb
    return ta == tb


def veq(a, b):
    if isinstance(b, list):
        if not isinstance(a, list) or len(a) != len(b):
            return z3.BoolVal(False)
        return z3.And(*[veq(x, y) for x, y in zip(a, b)]) if b else z3.BoolVal(True)
    if isinstance(a, (list, dict)):
        return z3.BoolVal(False)
    return teq(a, b)


def ieee(run):
    """The obligation `run` under the uninterpreted (IEEE) float model, see pyvc.sym.FloatUF."""
    def run_ieee(ctx):
        with FloatUF():
            return run(ctx)
    return run_ieee


SCALAR_BIN = ["ADD", "SUB", "MUL", "DIV", "MOD", "LG_AND", "LG_OR", "CMP_GT", "CMP_LT", "CMP_LE", "CMP_GE", "CMP_NE", "CMP_EQ"]
NSL_OP = {"ADD": "+", "SUB": "-", "MUL": "*", "DIV": "/", "MOD": "%", "LG_AND": "&&", "LG_OR": "||", "CMP_GT": ">", "CMP_LT": "<", "CMP_LE": "<=",
          "CMP_GE": ">=", "CMP_NE": "!=", "CMP_EQ": "=="}
NSLT = {"i": "int", "f": "float", "u": "uint", "F": "float"}


def replay_binary(opname, k0, k1, model):
    a, b = model.get("a", 1), model.get("b", 1)
    a = int(a) if k0 != "f" else float(a)
    b = int(b) if k1 != "f" else float(b)
    both_int = k0 not in "fF" and k1 not in "fF"
    is_cmp = opname.startswith("CMP") or opname.startswith("LG")
    rt = "int" if (both_int or is_cmp) else "float"
    return script("""
        import io, contextlib, math
        from nsl import Compiler, LinearIR, VM
        src = 'export function f(%s a, %s b) -> %s { return (a %s b); }' % ({{t0}}, {{t1}}, {{rt}}, {{op}})
        a, b = {{a}}, {{b}}
        with contextlib.redirect_stdout(io.StringIO()):
            r = Compiler.Compiler().Compile(src)
        l = LinearIR.Linker(); l.AddModule(r.IRModule)
        got = VM.VirtualMachine(l.Link()).Invoke('f', a=a, b=b)
        op = {{op}}
        if op == '/':
            want = (abs(a) // abs(b)) * (1 if (a < 0) == (b < 0) else -1) if {{both_int}} else a / b
        elif op == '%':
            want = a % b
        elif op == '&&': want = 1 if (a and b) else 0
        elif op == '||': want = 1 if (a or b) else 0
        else:
            want = eval('a %s b' % op)
            if isinstance(want, bool): want = 1 if want else 0
        print(src, 'f(%r, %r) =' % (a, b), repr(got), '; C-like semantics:', repr(want))
        if got != want or (isinstance(want, int) and isinstance(got, float) and not got.is_integer()): print('REPLAY-CONFIRMED')
        """, t0=NSLT[k0], t1=NSLT[k1], rt=rt, op=NSL_OP[opname], a=a, b=b, both_int=both_int)


@family("VM.step.binary", props=["C01", "C05", "C15"], functions=[EXEC],
        assumptions=["step slice of the while loop of __Execute (pyvc/slicer.py); states come from the sliced prologue run on a one-block function",
                     "float operands are reals (A2); integer operands lie in the signed 32-bit range; divisor != 0; MOD constrained only for a >= 0, b > 0"])
def step_binary(R):
    """Every scalar binary opcode x operand kinds (int/float): one execution of the loop body binds the instruction's reference to
    IRsem(opcode) of the operand values (integer division truncates toward zero, comparisons and logical operators yield the ints 0/1),
    advances to the next instruction and changes nothing else (frame)."""
    ir = IR()
    for opname in SCALAR_BIN:
        for k0, k1 in itertools.product("ifF", repeat=2):
            both_int = k0 == "i" and k1 == "i"
            is_cmp = opname.startswith("CMP") or opname.startswith("LG")
            rtype = T("i") if (both_int or is_cmp) else T("f")

            def run(ctx, opname=opname, k0=k0, k1=k1, rtype=rtype, both_int=both_int):
                h = Harness({"p": T("i")})
                v0, v1 = h.value(T(k0)), h.value(T(k1))
                ins = h.add(ir.BinaryInstruction(ir.OpCode[opname], rtype, v0, v1))
                h.add(ir.ReturnInstruction(ins))
                a, b = sym_repr(ctx, k0, "a"), sym_repr(ctx, k1, "b")
                if opname in ("DIV", "MOD"):
                    ctx.assume(b != 0)
                if opname == "MOD":
                    if not both_int:
                        ctx.assume(a >= 0)
                        ctx.assume(b > 0)
                    else:
                        ctx.assume(irsem.mod_pre(a.t, b.t))
                other = ctx.int("other")
                h.start([ctx.int("arg0")], {v0: a, v1: b, "unrelated": other}, ins)
                h.step()
                want = irsem.binary(opname, a.t, b.t, both_int)
                got = h.post["localScope"].get(ins.Reference)
                goals = []
                if want is not None:
                    goals.append(("value", teq(got, want) if got is not None and not isinstance(got, (list, dict)) else z3.BoolVal(False),
                                  f"{opname} on ({k0},{k1})"))
                else:
                    goals.append(("value-bound", z3.BoolVal(got is not None)))
                goals += frame_goals(h, writes_local=[ins.Reference])
                return goals

            def replay(model, clause, opname=opname, k0=k0, k1=k1):
                if clause != "value":
                    return None
                return replay_binary(opname, k0, k1, model)

            verify(R, f"VM.step.{opname}", EXEC, run, replay, label=f"{k0}x{k1}")
            if opname in ("ADD", "SUB", "MUL", "DIV") and not both_int:
                # the same obligation with float arithmetic UNINTERPRETED (IEEE view): the arm applies exactly the one operator the opcode
                # names to exactly the two operand values (no reciprocal, no re-association)
                verify(R, f"VM.step.{opname}", EXEC, ieee(run), replay, label=f"{k0}x{k1},ieee")
    # division by zero is the defined failure
    for opname in ("DIV", "MOD"):
        h = Harness({"p": T("i")})
        v0, v1 = h.value(T("i")), h.value(T("i"))
        ins = h.add(ir.BinaryInstruction(ir.OpCode[opname], T("i"), v0, v1))
        h.start([0], {v0: 7, v1: 0}, ins)
        try:
            h.step()
            ok, det = False, "no exception"
        except ZeroDivisionError:
            ok, det = True, ""
        except Exception as e:
            ok, det = False, f"raised {type(e).__name__}"
        R.check(f"VM.step.{opname}.by-zero", EXEC, ok, detail=f"division by zero must raise ZeroDivisionError: {det}")


@family("VM.step.float-concrete", props=["C01", "C04"], functions=[EXEC],
        assumptions=["BOUNDED stand-in for floating-point rounding, which the real-number model (A2) cannot see: each float arithmetic arm is run natively on 300 seeded random operand tuples plus special values and compared with the IEEE result of the operator"])
def step_float_concrete(R):
    """Bounded: ADD/SUB/MUL/DIV on floats and VECTOR_*_SCALAR / VECTOR_* on float vectors compute exactly the IEEE double result of the
    single operator the instruction names (no re-association, no reciprocal)."""
    import random
    import os
    ir = IR()
    rnd = random.Random(int(os.environ.get("VERIF_SEED", "0") or 0))
    import operator
    ops = {"ADD": operator.add, "SUB": operator.sub, "MUL": operator.mul, "DIV": operator.truediv}
    samples = [(3.0, 10.0), (49.0, 49.0), (5.0, 3.0), (1.0, 3.0), (0.1, 0.3), (1e-7, 3.0), (7.0, 0.1)]
    samples += [(rnd.uniform(-100, 100), rnd.choice([rnd.uniform(-100, 100), float(rnd.randint(1, 50)), rnd.uniform(0.001, 1)])) for _ in range(300)]
    samples = [(a, b) for a, b in samples if b != 0]
    for opname, f in ops.items():
        bad = None
        for a, b in samples:
            h = Harness({"p": T("i")})
            v0, v1 = h.value(T("f")), h.value(T("f"))
            ins = h.add(ir.BinaryInstruction(ir.OpCode[opname], T("f"), v0, v1))
            h.start([0], {v0: a, v1: b}, ins)
            h.step()
            if h.post["localScope"].get(ins.Reference) != f(a, b):
                bad = (a, b, h.post["localScope"].get(ins.Reference), f(a, b))
                break
        R.bounded(f"VM.float.{opname}", EXEC, bad is None, len(samples), detail="" if not bad else f"{opname}({bad[0]!r}, {bad[1]!r}) = {bad[2]!r}, IEEE result {bad[3]!r}")
    for opname, f in (("VECTOR_MUL_SCALAR", operator.mul), ("VECTOR_DIV_SCALAR", operator.truediv)):
        bad = None
        for a, b in samples:
            vecv = [a, a + 1.5, 49.0, 3.0]
            h = Harness({"p": T("i")})
            v0, v1 = h.value(vec("f", 4)), h.value(T("f"))
            ins = h.add(ir.BinaryInstruction(ir.OpCode[opname], vec("f", 4), v0, v1))
            h.start([0], {v0: vecv, v1: b}, ins)
            h.step()
            want = [f(x, b) for x in vecv]
            if h.post["localScope"].get(ins.Reference) != want:
                bad = (vecv, b, h.post["localScope"].get(ins.Reference), want)
                break
        R.bounded(f"VM.float.{opname}", EXEC, bad is None, len(samples), detail="" if not bad else f"{opname}({bad[0]!r}, {bad[1]!r}) = {bad[2]!r}, component-wise IEEE result {bad[3]!r}",
                  replay=None if not bad else script("""
                      import io, contextlib
                      from nsl import Compiler, LinearIR, VM
                      src = 'export function f(float4 v, float s) -> float4 { return (v %s s); }' % {{op}}
                      with contextlib.redirect_stdout(io.StringIO()):
                          r = Compiler.Compiler().Compile(src)
                      l = LinearIR.Linker(); l.AddModule(r.IRModule)
                      v, s = {{v}}, {{s}}
                      got = VM.VirtualMachine(l.Link()).Invoke('f', v=v, s=s)
                      want = [x * s for x in v] if {{op}} == '*' else [x / s for x in v]
                      print(src, got, want)
                      if got != want: print('REPLAY-CONFIRMED')
                      """, op="*" if "MUL" in opname else "/", v=bad[0], s=bad[1]))
    for opname, f in (("VECTOR_ADD", operator.add), ("VECTOR_SUB", operator.sub), ("VECTOR_MUL", operator.mul), ("VECTOR_DIV", operator.truediv)):
        bad = None
        for a, b in samples[:120]:
            x, y = [a, 1.0, 49.0], [b, 3.0, 49.0]
            h = Harness({"p": T("i")})
            v0, v1 = h.value(vec("f", 3)), h.value(vec("f", 3))
            ins = h.add(ir.BinaryInstruction(ir.OpCode[opname], vec("f", 3), v0, v1))
            h.start([0], {v0: x, v1: y}, ins)
            h.step()
            want = [f(p, q) for p, q in zip(x, y)]
            if h.post["localScope"].get(ins.Reference) != want:
                bad = (x, y, h.post["localScope"].get(ins.Reference), want)
                break
        R.bounded(f"VM.float.{opname}", EXEC, bad is None, 120, detail="" if not bad else f"{opname}({bad[0]!r}, {bad[1]!r}) = {bad[2]!r}, expected {bad[3]!r}")


SCOPES = ["GLOBAL", "FUNCTION_ARGUMENT", "FUNCTION_LOCAL"]


@family("VM.step.access", props=["C01", "C02", "C03", "C05", "C15"], functions=[EXEC])
def step_access(R):
    """LOAD / STORE for the three scopes, LOAD_ARRAY / STORE_ARRAY, LOAD_MEMBER / STORE_MEMBER, BRANCH (conditional and not), RETURN
    (value and void): the arm reads/writes exactly the named variable slot of the named scope and nothing else."""
    ir = IR()
    S = ir.VariableAccessScope
    st0 = ir.StructureType(collections.OrderedDict([("a", T("i")), ("b", T("f"))]), name="S")
    VT = collections.OrderedDict([("int", T("i")), ("float", T("f")), ("int[2]", ir.ArrayType(T("i"), [2])), ("int[2][2]", ir.ArrayType(T("i"), [2, 2])), ("struct", st0), ("float3", vec("f", 3)), ("float3x3", mat(3))])
    for scope, (tl, vt) in itertools.product(SCOPES, VT.items()):
        # A LOAD yields the very object that is bound (element / member writes go through the loaded object and must reach the variable).
        # A STORE gives the variable the stored VALUE; for arrays and structures -- which STORE_ARRAY / STORE_MEMBER update in place -- the
        # variable must not share a container with the source.  (Load-after-store forwarding must then leave aggregate loads alone:
        # IR.opt.las.aggregates.)
        def run_load(ctx, scope=scope, vt=vt):
            h = Harness({"p0": vt, "p1": vt}, globals_={"g": None, "h": None})
            var = {"GLOBAL": "g", "FUNCTION_ARGUMENT": 1, "FUNCTION_LOCAL": "x"}[scope]
            ins = h.add(ir.VariableAccessInstruction(vt, var, S[scope]))
            gv, a0, a1, xv = sym_of(ctx, vt, "g"), sym_of(ctx, vt, "a0"), sym_of(ctx, vt, "a1"), sym_of(ctx, vt, "x")
            h.globalScope.update(g=gv, h=ctx.int("h"))
            h.start([a0, a1], {"x": xv, "y": ctx.int("y")}, ins)
            h.step()
            want = {"GLOBAL": gv, "FUNCTION_ARGUMENT": a1, "FUNCTION_LOCAL": xv}[scope]
            got = h.post["localScope"].get(ins.Reference)
            return [("value", z3.BoolVal(got is want), f"LOAD {scope}: the bound object itself")] + frame_goals(h, writes_local=[ins.Reference])

        verify(R, "VM.step.LOAD", EXEC, run_load, label=scope if tl == "int" else f"{scope},{tl}")

        def run_store(ctx, scope=scope, vt=vt, producer="decl"):
            h = Harness({"p0": vt, "p1": vt}, globals_={"g": None, "h": None})
            var = {"GLOBAL": "g", "FUNCTION_ARGUMENT": 1, "FUNCTION_LOCAL": "x"}[scope]
            with produced_by(producer):
                src = h.value(vt)
            ins = ir.VariableAccessInstruction(vt, var, S[scope])
            ins.SetStore(src)
            h.add(ins)
            v = sym_of(ctx, vt, "v")
            h.globalScope.update(g=sym_of(ctx, vt, "g"), h=ctx.int("h"))
            args = [sym_of(ctx, vt, "a0"), sym_of(ctx, vt, "a1")]
            h.start(args, {src: v, "x": sym_of(ctx, vt, "x"), "y": ctx.int("y")}, ins)
            h.step()
            if scope == "GLOBAL":
                got = h.globalScope.get("g")
                fr = frame_goals(h, writes_global=["g"])
            elif scope == "FUNCTION_ARGUMENT":
                got = args[1]
                fr = frame_goals(h, writes_args=[1], mutates=[args])
            else:
                got = h.post["localScope"].get("x")
                fr = frame_goals(h, writes_local=["x"])
            from .programs_c import _eqv
            mutable = vt.Kind in (ir.TypeKind.Array, ir.TypeKind.Structure)
            if not isinstance(v, (list, dict)):
                vg = ("value", z3.BoolVal(got is v), f"STORE {scope}: binds the value it is given")
            else:
                vg = ("value", _eqv(got, v), f"STORE {scope}: the variable holds a value equal to the stored one")
            goals = [vg, ("source-register-intact", z3.BoolVal(h.post["localScope"].get(src.Reference) is v))]
            if mutable:
                # arrays and structures are updated IN PLACE (STORE_ARRAY / STORE_MEMBER): two variables must never share such a container,
                # or a write through one is a write to the other (`r = ga; r[0] = x;` would change the global ga -- C15, C12)
                shared = set(irsem.mutable_ids(got, vt)) & set(irsem.mutable_ids(v, vt))
                goals.append(("no-sharing-with-the-source", z3.BoolVal(not shared), "the variable shares an array / struct object with the value it was assigned from"))
            return goals + fr

        for producer in (PRODUCERS if tl in ("int[2]", "float3") else ("decl",)):
            lab = scope if tl == "int" else f"{scope},{tl}"
            verify(R, "VM.step.STORE", EXEC, functools.partial(run_store, producer=producer), label=lab if producer == "decl" else f"{lab},value-from-{producer}")

    # arrays
    def run_la(ctx):
        h = Harness({"p": T("i")})
        at = ir.ArrayType(T("i"), [3])
        arr, idx = h.value(at), h.value(T("i"))
        ins = h.add(ir.ArrayAccessInstruction(T("i"), arr, idx))
        a = sym_of(ctx, at, "a")
        i = ctx.int("i")
        ctx.assume(i >= 0)
        ctx.assume(i < 3)
        h.start([0], {arr: a, idx: i}, ins)
        h.step()
        got = h.post["localScope"].get(ins.Reference)
        want = z3.If(i.t == 0, a[0].t, z3.If(i.t == 1, a[1].t, a[2].t))
        return [("value", teq(got, want))] + frame_goals(h, writes_local=[ins.Reference])

    verify(R, "VM.step.LOAD_ARRAY", EXEC, run_la)

    def run_sa(ctx):
        h = Harness({"p": T("i")})
        at = ir.ArrayType(T("i"), [3])
        arr, idx, src = h.value(at), h.value(T("i")), h.value(T("i"))
        ins = ir.ArrayAccessInstruction(T("i"), arr, idx)
        ins.SetStore(src)
        h.add(ins)
        a = sym_of(ctx, at, "a")
        old = list(a)
        i, v = ctx.int("i"), ctx.int("v")
        ctx.assume(i >= 0)
        ctx.assume(i < 3)
        h.start([0], {arr: a, idx: i, src: v, "alias": a}, ins)
        h.step()
        conj = [z3.If(i.t == j, teq(a[j], v), z3.BoolVal(a[j] is old[j])) for j in range(3)]
        return [("in-place-update", z3.And(z3.BoolVal(h.post["localScope"][arr.Reference] is a and len(a) == 3), *conj))] + frame_goals(h, mutates=[a])

    verify(R, "VM.step.STORE_ARRAY", EXEC, run_sa)

    # element / member stores of an AGGREGATE value (`t[i] = row;`, `o.inner = s;`): the slot gets the value, and shares no array / struct
    # object with the source (a later write through either must not reach the other)
    def run_sa_agg(ctx):
        from .programs_c import _eqv
        h = Harness({"p": T("i")})
        at, rt = ir.ArrayType(T("i"), [2, 2]), ir.ArrayType(T("i"), [2])
        arr, idx, src = h.value(at), h.value(T("i")), h.value(rt)
        ins = ir.ArrayAccessInstruction(rt, arr, idx)
        ins.SetStore(src)
        h.add(ins)
        a, row = sym_of(ctx, at, "a"), sym_of(ctx, rt, "row")
        i = ctx.int("i")
        ctx.assume(i >= 0)
        ctx.assume(i < 2)
        h.start([0], {arr: a, idx: i, src: row}, ins)
        h.step()
        conj = [z3.If(i.t == j, _eqv(a[j], row), z3.BoolVal(True)) for j in range(2)]
        shared = set(irsem.mutable_ids(a, at)) & set(irsem.mutable_ids(row, rt))
        return [("value", z3.And(*conj)), ("no-sharing-with-the-source", z3.BoolVal(not shared), "the array slot shares the row object with the value it was assigned from")]

    verify(R, "VM.step.STORE_ARRAY", EXEC, run_sa_agg, label="row-of-int[2][2]")

    # struct members
    st = ir.StructureType(collections.OrderedDict([("a", T("i")), ("b", T("f"))]), name="S")

    def run_lm(ctx):
        h = Harness({"p": T("i")})
        sv = h.value(st)
        ins = h.add(ir.MemberAccessInstruction(T("f"), sv, "b"))
        s = sym_of(ctx, st, "s")
        h.start([0], {sv: s}, ins)
        h.step()
        return [("value", z3.BoolVal(h.post["localScope"].get(ins.Reference) is s["b"]))] + frame_goals(h, writes_local=[ins.Reference])

    verify(R, "VM.step.LOAD_MEMBER", EXEC, run_lm)

    def run_sm(ctx):
        h = Harness({"p": T("i")})
        sv, src = h.value(st), h.value(T("f"))
        ins = ir.MemberAccessInstruction(T("f"), sv, "b")
        ins.SetStore(src)
        h.add(ins)
        s = sym_of(ctx, st, "s")
        olda = s["a"]
        v = ctx.real("v")
        h.start([0], {sv: s, src: v}, ins)
        h.step()
        return [("in-place-update", z3.BoolVal(s["b"] is v and s["a"] is olda and list(s) == ["a", "b"]))] + frame_goals(h, mutates=[s])

    verify(R, "VM.step.STORE_MEMBER", EXEC, run_sm)

    def run_sm_agg(ctx):
        from .programs_c import _eqv
        outer = ir.StructureType(collections.OrderedDict([("inner", st), ("k", T("i"))]), name="Outer")
        h = Harness({"p": T("i")})
        sv, src = h.value(outer), h.value(st)
        ins = ir.MemberAccessInstruction(st, sv, "inner")
        ins.SetStore(src)
        h.add(ins)
        o, v = sym_of(ctx, outer, "o"), sym_of(ctx, st, "v")
        h.start([0], {sv: o, src: v}, ins)
        h.step()
        shared = set(irsem.mutable_ids(o, outer)) & set(irsem.mutable_ids(v, st))
        return [("value", _eqv(o["inner"], v)), ("no-sharing-with-the-source", z3.BoolVal(not shared), "the member shares the struct object with the value it was assigned from")]

    verify(R, "VM.step.STORE_MEMBER", EXEC, run_sm_agg, label="struct-member")

    # branches: two further blocks; the step must continue at the first instruction of the target block
    for cond in ("unconditional", "conditional", "no-predicate-with-false-block"):
        def run_br(ctx, cond=cond):
            h = Harness({"p": T("i")})
            f = h.function
            pv = h.value(T("i"))
            b1, b2 = f.CreateBasicBlock(), f.CreateBasicBlock()
            t1 = b1.AddInstruction(ir.ReturnInstruction())
            filler = b1.AddInstruction(ir.ReturnInstruction())
            t2 = b2.AddInstruction(ir.ReturnInstruction())
            # the third form is what a `for (init; ; next)` without a condition lowers to: both targets set, no predicate -> always the first
            br = {"conditional": lambda: ir.BranchInstruction(b2, b1, pv), "unconditional": lambda: ir.BranchInstruction(b2),
                  "no-predicate-with-false-block": lambda: ir.BranchInstruction(b2, b1)}[cond]()
            h.add(br)
            p = ctx.int("pred")
            h.start([0], {pv: p}, br)
            h.step()
            pc = h.post["currentInstruction"]
            ins = h.pre["instructions"]
            i1, i2 = ins.index(t1), ins.index(t2)
            want = z3.If(p.t != 0, i2, i1) if cond == "conditional" else z3.IntVal(i2)
            return [("target", term(pc) == want, cond)] + [g for g in frame_goals(h) if g[0] != "pc"]

        verify(R, "VM.step.BRANCH", EXEC, run_br, label=cond)

    for withval in (True, False):
        def run_ret(ctx, withval=withval):
            h = Harness({"p": T("i")})
            v = h.value(T("i"))
            ins = h.add(ir.ReturnInstruction(v if withval else None))
            x = ctx.int("x")
            h.start([0], {v: x}, ins)
            h.step()
            return [("value", z3.BoolVal((h.val is x) if withval else (h.val is None)))] + frame_goals(h, kind="return")

        verify(R, "VM.step.RETURN", EXEC, run_ret, label="value" if withval else "void")


@family("VM.prologue", props=["C01", "C03", "C15"], functions=[EXEC, VMP + ".Invoke", VMP + "._Invoke", "nsl.VM::VirtualMachine.__init__",
                                                               "nsl.VM::VirtualMachine.SetGlobal", "nsl.VM::VirtualMachine.GetGlobal", "nsl.VM::VirtualMachine.Invoke"],
        assumptions=["block and instruction counts enumerated (1-3 blocks of 0-2 instructions): the prologue loops are executed, not cut at an invariant"])
def prologue(R):
    """Every activation starts from a FRESH value map holding exactly the function's constants; `instructions` is the concatenation of the
    blocks in order and blockOffsets[b] the index of b's first instruction; falling off the end returns None.  Invoke builds a new positional
    list in parameter order (missing -> None); _Invoke passes its list through; each VM owns a fresh globals dict keyed by the program's globals."""
    ir = IR()
    vm = VM()
    for shape in ([1], [2, 1], [0, 2], [1, 0, 2], [2, 2, 2]):
        h = Harness({"p": T("i")})
        f = h.function
        blocks = [h.bb] + [f.CreateBasicBlock() for _ in shape[1:]]
        for b, n in zip(blocks, shape):
            for _ in range(n):
                b.AddInstruction(ir.ReturnInstruction())
        c1 = f.CreateConstant(T("i"), 7)
        c2 = f.CreateConstant(T("f"), 2.5)
        args = [5]
        k1, _, l1 = h.prologue(h.ctx, f, args)
        k2, _, l2 = h.prologue(h.ctx, f, args)
        flat = [i for b in blocks for i in b.Instructions]
        okflat = len(l1["instructions"]) == len(flat) and all(x is y for x, y in zip(l1["instructions"], flat))
        offs = {}
        n = 0
        for b in blocks:
            offs[b.Reference] = n
            n += len(b.Instructions)
        lab = "-".join(map(str, shape))
        R.check(f"VM.prologue.layout[{lab}]", EXEC, okflat and l1["blockOffsets"] == offs and l1["currentInstruction"] == 0 and l1["lastInstruction"] == len(flat),
                detail=f"instructions/blockOffsets do not describe the block layout: offsets {l1['blockOffsets']} expected {offs}")
        R.check(f"VM.prologue.constants[{lab}]", EXEC, l1["localScope"] == {c1.Reference: 7, c2.Reference: 2.5}, detail=f"initial value map {l1['localScope']}")
        reach = set()

        def scan(o, depth=0):
            if id(o) in reach or depth > 6:
                return
            reach.add(id(o))
            if isinstance(o, dict):
                for v in o.values():
                    scan(v, depth + 1)
            elif isinstance(o, (list, tuple, set)):
                for v in o:
                    scan(v, depth + 1)
            elif hasattr(o, "__dict__"):
                scan(vars(o), depth + 1)

        scan(h.ctx)
        scan(f)
        scan(vars(type(h.ctx)))
        R.check(f"VM.prologue.fresh[{lab}]", EXEC, l1["localScope"] is not l2["localScope"] and id(l1["localScope"]) not in reach and id(l2["localScope"]) not in reach
                and l1["args"] is args, detail="the value map of an activation must be a new dict not reachable from the context, the function or the class")
    # falling off the end
    h = Harness({"p": T("i")})
    h.start([0], {}, h.add(ir.DeclareVariableInstruction(T("i"), "x")))
    kind, val, _ = h.epilogue(**{k: h.pre[k] for k in h.epilogue.slice_info["params"] if k in h.pre})
    R.check("VM.epilogue", EXEC, kind == "return" and val is None, detail=f"falling off the end gives {kind} {val!r}")

    # Invoke / _Invoke: cut __Execute by a recording stub
    f = ir.Function("f", ir.FunctionType(T("i"), collections.OrderedDict([("a", T("i")), ("b", T("f")), ("c", T("i"))])))
    g = ir.Function("g", ir.FunctionType(T("i"), collections.OrderedDict()))
    funcs = {"f": f, "g": g}
    gs = {}
    ctx = vm.ExecutionContext(funcs, gs)
    calls = []
    name = "_ExecutionContext__Execute"
    if not hasattr(ctx, name):
        raise Missing(EXEC)
    setattr(ctx, name, lambda fn, a: calls.append((fn, a)) or "RESULT")
    r = ctx.Invoke("f", c=3, a=1)
    R.check("VM.Invoke.positional", VMP + ".Invoke", r == "RESULT" and len(calls) == 1 and calls[0][0] is f and calls[0][1] == [1, None, 3],
            detail=f"Invoke(f, c=3, a=1) executed {[(c[0].Name, c[1]) for c in calls]}")
    r = ctx.Invoke("f", c=3, a=1)
    R.check("VM.Invoke.fresh-list", VMP + ".Invoke", calls[0][1] is not calls[1][1], detail="each invocation must get its own argument list")
    lst = [9, 8, 7]
    calls.clear()
    r = ctx._Invoke("f", lst)
    R.check("VM._Invoke", VMP + "._Invoke", r == "RESULT" and len(calls) == 1 and calls[0][0] is f and calls[0][1] is lst, detail="_Invoke must run the named function on the list it was given")
    # VirtualMachine
    prog = ir.Program(funcs, collections.OrderedDict([("g1", T("i")), ("g2", T("f"))]))
    v1, v2 = vm.VirtualMachine(prog), vm.VirtualMachine(prog)
    d1, d2 = v1._VirtualMachine__globalScope, v2._VirtualMachine__globalScope
    R.check("VM.init", "nsl.VM::VirtualMachine.__init__", d1 is not d2 and d1 == {"g1": None, "g2": None} and v1._VirtualMachine__ctx is not v2._VirtualMachine__ctx
            and v1._VirtualMachine__ctx._ExecutionContext__globalScope is d1 and v1._VirtualMachine__ctx._ExecutionContext__functions is funcs,
            detail="each VM needs its own globals dict (keys = program globals, all None) shared only with its own execution context")
    v1.SetGlobal("g1", 5)
    R.check("VM.setget", "nsl.VM::VirtualMachine.SetGlobal", v1.GetGlobal("g1") == 5 and v1.GetGlobal("g2") is None and d2 == {"g1": None, "g2": None} and d1 == {"g1": 5, "g2": None},
            detail="SetGlobal/GetGlobal must touch exactly one key of this VM's globals")
    c2 = v2._VirtualMachine__ctx
    seen = []
    c2.Invoke = lambda n, **kw: seen.append((n, kw)) or 42
    R.check("VM.Invoke.delegates", "nsl.VM::VirtualMachine.Invoke", v2.Invoke("f", a=1, b=2) == 42 and seen == [("f", {"a": 1, "b": 2})], detail=f"VirtualMachine.Invoke forwarded {seen}")


@family("VM.step.call", props=["C03", "C15", "C05"], functions=[EXEC, VMP + "._Invoke"],
        assumptions=["modular cut: self._Invoke is replaced by its contract (runs the named function on the list it is given, returns its result); the callee's own activation is covered by VM.prologue and the other step obligations"])
def step_call(R):
    """CALL evaluates the operands in order into a FRESH list, activates the callee named by the instruction with that list, binds the result to
    the instruction's reference -- and leaves the caller's own `args` variable and list, its value map elsewhere and the globals unchanged."""
    ir = IR()
    for n in (0, 1, 2, 3):
        def run(ctx, n=n):
            h = Harness({"p0": T("i"), "p1": T("i")})
            vals = [h.value(T("i")) for _ in range(n)]
            ins = h.add(ir.CallInstruction(T("i"), "callee", list(vals)))
            syms = [ctx.int(f"v{i}") for i in range(n)]
            res = ctx.int("result")
            calls = []

            def stub(name, lst):
                calls.append((name, lst, list(lst)))
                return res

            h.ctx._Invoke = stub
            myargs = [ctx.int("a0"), ctx.int("a1")]
            h.start(myargs, dict(zip(vals, syms)), ins)
            h.step()
            okcall = len(calls) == 1 and calls[0][0] == "callee" and len(calls[0][2]) == n and all(x is y for x, y in zip(calls[0][2], syms))
            fresh = len(calls) == 1 and calls[0][1] is not myargs and all(calls[0][1] is not v for v in h.pre["localScope"].values())
            goals = [("callee-and-arguments", z3.BoolVal(okcall), f"_Invoke calls: {[(c[0], len(c[2])) for c in calls]}"),
                     ("fresh-argument-list", z3.BoolVal(fresh), "the callee must get a list of its own"),
                     ("result-bound", z3.BoolVal(h.post["localScope"].get(ins.Reference) is res))]
            return goals + frame_goals(h, writes_local=[ins.Reference])

        def replay(model, clause):
            return script("""
                import io, contextlib
                from nsl import Compiler, LinearIR, VM
                src = '''function g(int x) -> int { x = (x + 100); return x; }
                export function f(int a) -> int { int r = g(5); return (a + r); }'''
                with contextlib.redirect_stdout(io.StringIO()):
                    r = Compiler.Compiler().Compile(src)
                l = LinearIR.Linker(); l.AddModule(r.IRModule)
                got = VM.VirtualMachine(l.Link()).Invoke('f', a=1)
                print(src); print('f(a=1) =', got, '; the caller parameter a must still be 1 after the call: expected 106')
                if got != 106: print('REPLAY-CONFIRMED')
                """)

        verify(R, "VM.step.CALL", EXEC, run, replay, label=f"{n}-args")

    # Aggregate arguments are passed BY VALUE: whatever the callee does to its parameter -- including in-place element / member writes, which
    # is how STORE_ARRAY and STORE_MEMBER work -- is invisible to the caller (C03: "the caller's parameters and locals hold exactly the values
    # they held before the call").  The callee stub therefore mutates every container it receives in place.
    st = ir.StructureType(collections.OrderedDict([("a", T("i")), ("b", T("f"))]), name="S")
    st2 = ir.StructureType(collections.OrderedDict([("inner", st), ("arr", ir.ArrayType(T("i"), [2]))]), name="Outer")
    for tl, vt in (("int[2]", ir.ArrayType(T("i"), [2])), ("int[2][2]", ir.ArrayType(T("i"), [2, 2])), ("struct", st), ("struct-nested", st2)):
        # (vectors and matrices are not in this list: no instruction writes into one in place -- VECTOR_SET / MATRIX_SET copy -- so sharing
        # them between caller and callee is unobservable; E2E programs `call.vector-arg` cover them end to end)
        def run_agg(ctx, vt=vt):
            h = Harness({"p0": T("i")})
            v0, v1 = h.value(vt), h.value(T("i"))
            ins = h.add(ir.CallInstruction(T("i"), "callee", [v0, v1]))
            val = sym_of(ctx, vt, "v")
            k = ctx.int("k")
            res = ctx.int("result")
            got = []

            def scribble(o):
                if isinstance(o, list):
                    for i, x in enumerate(o):
                        if isinstance(x, (list, dict)):
                            scribble(x)
                        else:
                            o[i] = 424242
                elif isinstance(o, dict):
                    for kk, x in list(o.items()):
                        if isinstance(x, (list, dict)):
                            scribble(x)
                        else:
                            o[kk] = 424242

            def stub(name, lst):
                got.append(_deep_copy_terms(lst[0]))
                scribble(lst[0])
                return res

            h.ctx._Invoke = stub
            before = _deep_copy_terms(val)
            h.start([ctx.int("a0")], {v0: val, v1: k, "alias": val}, ins)
            h.step()
            after = h.post["localScope"].get(v0.Reference)
            from .programs_c import _eqv
            goals = [("callee-gets-the-value", _eqv(got[0], before) if got else z3.BoolVal(False)),
                     ("caller-value-unchanged", z3.And(z3.BoolVal(after is val), _eqv(val, before)), "the callee's in-place writes to its parameter are visible in the caller's variable"),
                     ("result-bound", z3.BoolVal(h.post["localScope"].get(ins.Reference) is res))]
            return goals

        def replay_agg(model, clause):
            return script("""
                import io, contextlib
                from nsl import Compiler, LinearIR, VM
                src = ("struct S { int a; int b; }\\n"
                       "function g(S s) -> int { s.a = 100; return (s.a + s.b); }\\n"
                       "function h(int[2] t) -> int { t[0] = 100; return (t[0] + t[1]); }\\n"
                       "export function f(int x) -> int { S s; s.a = x; s.b = 2; int[2] t; t[0] = x; t[1] = 2; int r = (g(s) + h(t)); return (((r * 10000) + (s.a * 100)) + t[0]); }")
                with contextlib.redirect_stdout(io.StringIO()):
                    r = Compiler.Compiler().Compile(src)
                l = LinearIR.Linker(); l.AddModule(r.IRModule)
                got = VM.VirtualMachine(l.Link()).Invoke('f', x=3)
                print(src); print('f(x=3) =', got, '; s.a and t[0] of the caller must still be 3 after the calls: expected 2040303')
                if got != 2040303: print('REPLAY-CONFIRMED')
                """)

        verify(R, "VM.step.CALL.by-value", EXEC, run_agg, replay_agg, label=tl)


def _deep_copy_terms(v):
    """structural copy of a VM value (containers copied, leaves shared)"""
    if isinstance(v, list):
        return [_deep_copy_terms(x) for x in v]
    if isinstance(v, dict):
        return {k: _deep_copy_terms(x) for k, x in v.items()}
    return v


def _instance_types():
    ir = IR()
    st = ir.StructureType(collections.OrderedDict([("a", T("i")), ("b", T("f"))]), name="S")
    st2 = ir.StructureType(collections.OrderedDict([("r", st), ("arr", ir.ArrayType(T("i"), [2])), ("v", vec("f", 3))]), name="Outer")
    out = collections.OrderedDict()
    out["int"] = T("i")
    out["float"] = T("f")
    for n in (2, 3, 4):
        out[f"float{n}"] = vec("f", n)
    out["float3x3"] = mat(3)
    out["float4x4"] = mat(4)
    out["int[3]"] = ir.ArrayType(T("i"), [3])
    out["int[2][3]"] = ir.ArrayType(T("i"), [2, 3])
    out["int[3][2]"] = ir.ArrayType(T("i"), [3, 2])
    out["float[2][1][3]"] = ir.ArrayType(T("f"), [2, 1, 3])
    out["float2[2]"] = ir.ArrayType(vec("f", 2), [2])
    out["struct"] = st
    out["struct[2]"] = ir.ArrayType(st, [2])
    out["struct-nested"] = st2
    return out


NSL_DECL = {"int[2][3]": ("int[2][3] t;", "t[0][1] = 5; t[1][2] = 1; return t[1][1];", "int", 0), "int[3][2]": ("int[3][2] t;", "t[2][0] = 7; return t[2][0];", "int", 7),
            "float[2][1][3]": ("float[2][1][3] t;", "t[0][0][2] = 5; return t[1][0][2];", "float", 0)}


@family("VM.step.newvar", props=["C01", "C03", "C05", "C15", "C12"], functions=[EXEC, VMP + ".__CreateInstance", VMP + ".__CreatePrimitiveInstance", VMP + ".__CreateStructureInstance"],
        assumptions=["type shapes enumerated: scalars, vectors 2-4, 3x3/4x4 matrices, arrays of rank 1-3 with sizes 1-3, arrays of vectors/structs, nested structs"])
def step_newvar(R):
    """NEW_VARIABLE binds the variable name and the instruction's reference to a zero value of the declared type with the index structure the
    front end assumes (T[a][b] is indexed first by < a), none of whose mutable parts is shared with another slot of itself, with the value of a
    previous execution of the same declaration, or with anything reachable from the program or the context (re-initialised every time)."""
    ir = IR()
    for label, t in _instance_types().items():
        h = Harness({"p": T("i")})
        ins = h.add(ir.DeclareVariableInstruction(t, "t", ir.VariableAccessScope.FUNCTION_LOCAL))
        h.start([0], {}, ins)
        try:
            h.step()
            first = h.post["localScope"].get(ins.Reference)
            byname = h.post["localScope"].get("t")
            fr = frame_goals(h, writes_local=[ins.Reference, "t"])
            # the program writes into the first instance (element / member stores work in place) before the declaration executes again

            def scribble(o):
                if isinstance(o, list):
                    for i, x in enumerate(o):
                        if isinstance(x, (list, dict)):
                            scribble(x)
                        else:
                            o[i] = 77
                elif isinstance(o, dict):
                    for kk, x in list(o.items()):
                        if isinstance(x, (list, dict)):
                            scribble(x)
                        else:
                            o[kk] = 77
            first_zero = irsem.same_structure(first, irsem.zero(t))
            scribble(first)
            h.pre = dict(h.post)
            h.pre["currentInstruction"] = h.pc
            h.step()
            second = h.post["localScope"].get(ins.Reference)
            err = None
        except Exception as e:
            err = e
        fn = VMP + ".__CreateInstance"
        rp = None
        if label in NSL_DECL:
            d, body, rt, want = NSL_DECL[label]
            rp = script("""
                import io, contextlib
                from nsl import Compiler, LinearIR, VM
                src = 'export function f() -> %s { %s %s }' % ({{rt}}, {{d}}, {{stmts}})
                with contextlib.redirect_stdout(io.StringIO()):
                    r = Compiler.Compiler().Compile(src)
                l = LinearIR.Linker(); l.AddModule(r.IRModule)
                try:
                    got = VM.VirtualMachine(l.Link()).Invoke('f')
                except Exception as e:
                    got = 'raised %s: %s' % (type(e).__name__, e)
                print(src, '->', got, '; expected', {{want}})
                if got != {{want}}: print('REPLAY-CONFIRMED')
                """, rt=rt, d=d, stmts=body, want=want)
        if err is not None:
            R.check(f"VM.newvar.total[{label}]", fn, False, detail=f"raised {type(err).__name__}: {err}", replay=rp)
            continue
        R.check(f"VM.newvar.zero[{label}]", fn, first_zero, detail=f"fresh {label} is not the zero value {irsem.zero(t)!r}", replay=rp)
        R.check(f"VM.newvar.zero-again[{label}]", fn, irsem.same_structure(second, irsem.zero(t)),
                detail=f"the declaration executed a second time, after the program wrote into the first instance, yields {second!r} instead of the zero value (locals are re-initialised each time their declaration executes)")
        ids = irsem.mutable_ids(first, t)
        R.check(f"VM.newvar.no-internal-aliasing[{label}]", fn, len(ids) == len(set(ids)), detail=f"two slots of the fresh {label} are the same object (writing one element changes another)", replay=rp)
        R.check(f"VM.newvar.name-and-ref[{label}]", EXEC, byname is first, detail="NEW_VARIABLE must bind the name and the reference to the same value")
        R.check(f"VM.newvar.fresh-each-time[{label}]", fn, not (set(irsem.mutable_ids(first, t)) & set(irsem.mutable_ids(second, t))),
                detail="executing the declaration again yields parts of the previous instance (a local in a loop would keep old contents)")
        for nm, g, det in [(x[0], x[1], x[2] if len(x) > 2 else "") for x in fr]:
            if not z3.is_true(z3.simplify(g)):
                R.check(f"VM.newvar.{nm}[{label}]", EXEC, False, detail=det)
        R.check(f"VM.newvar.frame[{label}]", EXEC, all(z3.is_true(z3.simplify(x[1])) for x in fr), detail="frame")


@family("VM.step.cast", props=["C01", "C05"], functions=[EXEC], assumptions=["float() is shimmed for proxies; float -> int conversion is left unconstrained by the property (only 'no failure' is required)"])
def step_cast(R):
    """CAST int -> float preserves the value; CAST to int/uint of a float does not fail; frame."""
    ir = IR()
    for src, dst in (("i", "f"), ("u", "f"), ("f", "i"), ("f", "u"), ("i", "i"), ("f", "f")):
        def run(ctx, src=src, dst=dst):
            h = Harness({"p": T("i")})
            v = h.value(T(src))
            ins = h.add(ir.CastInstruction(v, T(dst)))
            x = sym_of(ctx, T(src), "x")
            h.start([0], {v: x}, ins)
            h.step()
            got = h.post["localScope"].get(ins.Reference)
            goals = frame_goals(h, writes_local=[ins.Reference])
            if dst == "f":
                goals.append(("value", teq(got, x.t)))
            else:
                goals.append(("value-bound", z3.BoolVal(got is not None)))
                if src != "f":
                    goals.append(("value", teq(got, x.t)))
            return goals

        verify(R, "VM.step.CAST", EXEC, run, label=f"{src}->{dst}")
    # vectors are converted component by component
    for n in (2, 3, 4):
        for src, dst in (("i", "f"), ("u", "f"), ("f", "f"), ("i", "i")):
            def runv(ctx, n=n, src=src, dst=dst):
                h = Harness({"p": T("i")})
                v = h.value(vec(src, n))
                ins = h.add(ir.CastInstruction(v, vec(dst, n)))
                x = sym_of(ctx, vec(src, n), "x")
                orig = list(x)
                h.start([0], {v: x}, ins)
                h.step()
                got = h.post["localScope"].get(ins.Reference)
                return [("value", veq(got, [c.t for c in orig])), ("source-intact", z3.BoolVal(len(x) == n and all(a is b for a, b in zip(x, orig))))] + frame_goals(h, writes_local=[ins.Reference])

            verify(R, "VM.step.CAST", EXEC, runv, label=f"{src}{n}->{dst}{n}")


# ---------------------------------------------------------------------------
# C04: vector and matrix arms

VEC_BIN = {"VECTOR_ADD": "ADD", "VECTOR_SUB": "SUB", "VECTOR_MUL": "MUL", "VECTOR_DIV": "DIV",
           "VECTOR_CMP_GT": "CMP_GT", "VECTOR_CMP_LT": "CMP_LT", "VECTOR_CMP_LE": "CMP_LE", "VECTOR_CMP_GE": "CMP_GE",
           "VECTOR_CMP_NE": "CMP_NE", "VECTOR_CMP_EQ": "CMP_EQ"}


@family("VM.step.vector", props=["C04", "C05", "C15"], functions=[EXEC, VMP + ".__MatrixMatrixMultiply"],
        assumptions=["sizes enumerated: vectors of 2, 3, 4 components, 3x3 and 4x4 matrices (the complete spellable set); components symbolic",
                     "float components are reals (A2); integer vectors divide like integer scalars (truncation toward zero, C01)"])
def step_vector(R):
    """Component-wise vector arms (+, -, *, /, six comparisons giving 0/1 per component), vector x scalar and vector / scalar, the matrix
    product (sum over k of a[i][k]*b[k][j]), SHUFFLE, CONSTRUCT_PRIMITIVE, VECTOR_GET/SET and MATRIX_GET/SET (SET yields a NEW value, the old
    one stays intact): value and frame."""
    ir = IR()
    for opc, sop in VEC_BIN.items():
        for n in (2, 3, 4):
            for kind in ("f", "i"):
                rt = vec("i" if "CMP" in opc else kind, n)

                def run(ctx, opc=opc, sop=sop, n=n, kind=kind, rt=rt):
                    h = Harness({"p": T("i")})
                    v0, v1 = h.value(vec(kind, n)), h.value(vec(kind, n))
                    ins = h.add(ir.BinaryInstruction(ir.OpCode[opc], rt, v0, v1))
                    a, b = sym_of(ctx, vec(kind, n), "a"), sym_of(ctx, vec(kind, n), "b")
                    if sop == "DIV":
                        for y in b:
                            ctx.assume(y != 0)
                    h.start([0], {v0: a, v1: b}, ins)
                    h.step()
                    got = h.post["localScope"].get(ins.Reference)
                    want = [irsem.binary(sop, x.t, y.t, kind == "i") for x, y in zip(a, b)]
                    return [("value", veq(got, want), f"{opc} on {kind}{n}"), ("operands-intact", z3.BoolVal(len(a) == n and len(b) == n))] + frame_goals(h, writes_local=[ins.Reference])

                verify(R, f"VM.step.{opc}", EXEC, run, label=f"{kind}{n}")
                if kind == "f" and "CMP" not in opc:
                    verify(R, f"VM.step.{opc}", EXEC, ieee(run), label=f"{kind}{n},ieee")

    for opc, sop in (("VECTOR_MUL_SCALAR", "MUL"), ("VECTOR_DIV_SCALAR", "DIV")):
        for n in (2, 3, 4):
            for kind in ("f", "i"):

                def run(ctx, opc=opc, sop=sop, n=n, kind=kind):
                    h = Harness({"p": T("i")})
                    v0, v1 = h.value(vec(kind, n)), h.value(T(kind))
                    ins = h.add(ir.BinaryInstruction(ir.OpCode[opc], vec(kind, n), v0, v1))
                    a, s = sym_of(ctx, vec(kind, n), "a"), sym_of(ctx, T(kind), "s")
                    if sop == "DIV":
                        ctx.assume(s != 0)
                    h.start([0], {v0: a, v1: s}, ins)
                    h.step()
                    got = h.post["localScope"].get(ins.Reference)
                    want = [irsem.binary(sop, x.t, s.t, kind == "i") for x in a]
                    return [("value", veq(got, want), f"{opc} on {kind}{n}")] + frame_goals(h, writes_local=[ins.Reference])

                verify(R, f"VM.step.{opc}", EXEC, run, label=f"{kind}{n}")
                if kind == "f":
                    verify(R, f"VM.step.{opc}", EXEC, ieee(run), label=f"{kind}{n},ieee")

    for n in (3, 4):
        def run(ctx, n=n):
            h = Harness({"p": T("i")})
            v0, v1 = h.value(mat(n)), h.value(mat(n))
            ins = h.add(ir.BinaryInstruction(ir.OpCode.MATRIX_MUL_MATRIX, mat(n), v0, v1))
            a, b = sym_of(ctx, mat(n), "a"), sym_of(ctx, mat(n), "b")
            h.start([0], {v0: a, v1: b}, ins)
            h.step()
            got = h.post["localScope"].get(ins.Reference)
            want = irsem.matmul([[x.t for x in row] for row in a], [[x.t for x in row] for row in b])
            goals = []
            ok_shape = isinstance(got, list) and len(got) == n and all(isinstance(r, list) and len(r) == n for r in got)
            goals.append(("shape", z3.BoolVal(ok_shape)))
            if ok_shape:
                for i in range(n):
                    for j in range(n):
                        goals.append((f"entry", teq(got[i][j], want[i][j]), f"entry [{i}][{j}]"))
            return goals + frame_goals(h, writes_local=[ins.Reference])

        verify(R, "VM.step.MATRIX_MUL_MATRIX", EXEC, run, label=f"{n}x{n}")

    # SHUFFLE: every index list over the combined operands, for first/second of sizes 2..4 (and scalar operands)
    for n1, n2 in ((2, 2), (3, 3), (4, 4), (4, 1), (3, 2), (1, 1)):
        tot = n1 + n2
        idx_lists = [list(p) for k in (1, 2, 3, 4) for p in itertools.product(range(tot), repeat=k)] if tot <= 4 else \
                    [list(range(tot))[:4], [tot - 1, 0, tot - 2, 1], [0, 0, 0, 0], [tot - 1], [n1, n1 + n2 - 1], [1, n1], list(reversed(range(tot)))[:4]] + \
                    [[i] for i in range(tot)] + [[i, (i + n1) % tot] for i in range(tot)]
        bad = None
        cnt = 0
        for idx in idx_lists:
            h = Harness({"p": T("i")})
            t1 = vec("f", n1) if n1 > 1 else T("f")
            t2 = vec("f", n2) if n2 > 1 else T("f")
            v0, v1 = h.value(t1), h.value(t2)
            ins = h.add(ir.ShuffleInstruction(vec("f", max(len(idx), 2)), v0, v1, list(idx)))
            a = [float(10 + i) for i in range(n1)] if n1 > 1 else 10.0
            b = [float(20 + i) for i in range(n2)] if n2 > 1 else 20.0
            h.start([0], {v0: a, v1: b}, ins)
            h.step()
            comb = (a if isinstance(a, list) else [a]) + (b if isinstance(b, list) else [b])
            got = h.post["localScope"].get(ins.Reference)
            cnt += 1
            fr = frame_goals(h, writes_local=[ins.Reference])
            if got != [comb[i] for i in idx] or not all(z3.is_true(z3.simplify(g[1])) for g in fr):
                bad = (idx, got)
                break
        R.check(f"VM.step.SHUFFLE[{n1}+{n2}]", EXEC, bad is None, detail=f"{cnt} index lists" if not bad else f"indices {bad[0]} gave {bad[1]}")

    # CONSTRUCT_PRIMITIVE
    for label, parts, rt in (("float4(s,s,s,s)", ["s", "s", "s", "s"], vec("f", 4)), ("float4(v2,s,s)", ["v2", "s", "s"], vec("f", 4)), ("float4(s,v3)", ["s", "v3"], vec("f", 4)),
                             ("float3(v2,s)", ["v2", "s"], vec("f", 3)), ("float2(s,s)", ["s", "s"], vec("f", 2)), ("float4(v2,v2)", ["v2", "v2"], vec("f", 4)),
                             ("float3x3(rows)", ["v3", "v3", "v3"], mat(3)), ("float4x4(rows)", ["v4", "v4", "v4", "v4"], mat(4))):
        def run(ctx, parts=parts, rt=rt):
            h = Harness({"p": T("i")})
            tys = [T("f") if p == "s" else vec("f", int(p[1])) for p in parts]
            vals = [h.value(t) for t in tys]
            ins = h.add(ir.ConstructPrimitiveInstruction(rt, list(vals)))
            syms = [sym_of(ctx, t, f"x{i}_") for i, t in enumerate(tys)]
            h.start([0], dict(zip(vals, syms)), ins)
            h.step()
            got = h.post["localScope"].get(ins.Reference)
            if rt.Kind == ir.TypeKind.Matrix:
                want = [[c for c in s] for s in syms]
                fresh = isinstance(got, list) and got is not syms
            else:
                want = []
                for s in syms:
                    want += s if isinstance(s, list) else [s]
                fresh = all(got is not s for s in syms)
            return [("value", veq(got, want)), ("new-object", z3.BoolVal(fresh))] + frame_goals(h, writes_local=[ins.Reference])

        verify(R, "VM.step.CONSTRUCT_PRIMITIVE", EXEC, run, label=label)

    # element access: GET with a symbolic in-range index; SET yields a new value and leaves the old one intact
    for what, cls, ty, n in (("VECTOR", "VectorAccessInstruction", lambda n: vec("f", n), 2), ("VECTOR", "VectorAccessInstruction", lambda n: vec("f", n), 3),
                             ("VECTOR", "VectorAccessInstruction", lambda n: vec("f", n), 4), ("MATRIX", "MatrixAccessInstruction", mat, 3), ("MATRIX", "MatrixAccessInstruction", mat, 4)):
        et = T("f") if what == "VECTOR" else vec("f", n)

        def run_get(ctx, what=what, cls=cls, ty=ty, n=n, et=et):
            h = Harness({"p": T("i")})
            v, ix = h.value(ty(n)), h.value(T("i"))
            ins = h.add(getattr(ir, cls)(et, v, ix))
            a = sym_of(ctx, ty(n), "a")
            i = ctx.int("i")
            ctx.assume(i >= 0)
            ctx.assume(i < n)
            h.start([0], {v: a, ix: i}, ins)
            h.step()
            got = h.post["localScope"].get(ins.Reference)
            conj = [z3.Implies(i.t == j, veq(got, a[j]) if isinstance(a[j], list) else teq(got, a[j])) for j in range(n)]
            return [("value", z3.And(*conj))] + frame_goals(h, writes_local=[ins.Reference])

        verify(R, f"VM.step.{what}_GET", EXEC, run_get, label=str(n))

        def run_set(ctx, what=what, cls=cls, ty=ty, n=n, et=et, producer="decl"):
            h = Harness({"p": T("i")})
            with produced_by(producer):
                v, ix, src = h.value(ty(n)), h.value(T("i")), h.value(et)
            ins = getattr(ir, cls)(ty(n), v, ix)
            ins.SetStore(src)
            h.add(ins)
            a = sym_of(ctx, ty(n), "a")
            old = list(a)
            i = ctx.int("i")
            ctx.assume(i >= 0)
            ctx.assume(i < n)
            nv = sym_of(ctx, et, "nv")
            h.start([0], {v: a, ix: i, src: nv}, ins)
            h.step()
            got = h.post["localScope"].get(ins.Reference)
            ok_shape = isinstance(got, list) and len(got) == n
            conj = []
            if ok_shape:
                for j in range(n):
                    eqnew = veq(got[j], nv) if isinstance(nv, list) else teq(got[j], nv)
                    eqold = veq(got[j], a[j]) if isinstance(a[j], list) else teq(got[j], a[j])
                    conj.append(z3.If(i.t == j, eqnew, eqold))
            goals = [("value", z3.And(z3.BoolVal(ok_shape), *conj))]
            if producer in ("decl", "load"):
                # the operand register holds the very object of a VARIABLE (NEW_VARIABLE and LOAD bind the variable's object): the write must
                # go to a copy, the variable keeps its value until the result is stored back
                goals += [("copy", z3.BoolVal(got is not a)), ("old-value-intact", z3.BoolVal(len(a) == n and all(x is y for x, y in zip(a, old))))]
                return goals + frame_goals(h, writes_local=[ins.Reference])
            # any other producer (constructor, shuffle, call, arithmetic, cast, another element write) yields a temporary that no variable
            # holds -- stores copy (VM.step.STORE.no-sharing-with-the-source) -- so reusing it for the result is unobservable; only the
            # variables, arguments and globals must stay as they are
            return goals + frame_goals(h, writes_local=[ins.Reference], mutates=[a])

        for producer in PRODUCERS:
            verify(R, f"VM.step.{what}_SET", EXEC, functools.partial(run_set, producer=producer), label=str(n) if producer == "decl" else f"{n},operands-from-{producer}")
