"""C16: separately compiled, imported and linked modules.  Contracts on
LinearIR.Linker / MemoryModuleLoader / Module, on the producer and the consumer
of the module metadata (LowerToIR.v_Module / ComputeTypes.v_Module) and, bounded,
end to end through the file loader."""
from __future__ import annotations

import collections
import itertools

from pyvc.core import family, resolve, Missing
from pyvc.util import script, getpriv
from . import types_c as tc
from . import astgen as ag

L = "nsl.LinearIR"


def IR():
    import nsl.LinearIR as m
    return m


def mk_module(funcs=(), globals_=(), imports=()):
    ir = IR()
    m = ir.Module()
    for f in funcs:
        m.CreateFunction(f, ir.FunctionType(ir.IntegerType(), collections.OrderedDict()))
    for g in globals_:
        m.CreateGlobalVariable(g, ir.IntegerType())
    for i in imports:
        m.AddImport(i)
    return m


class CountingLoader:
    def __init__(self, modules):
        self.modules = modules
        self.loads = collections.Counter()

    def Load(self, name):
        self.loads[name] += 1
        return self.modules[name]


GRAPHS = {
    # name -> (modules: name -> (functions, globals, imports), roots added explicitly)
    "single": ({"main": (["f"], ["g"], [])}, ["main"]),
    "one-import": ({"main": (["f"], [], ["lib"]), "lib": (["h"], ["gl"], [])}, ["main"]),
    "chain": ({"main": (["f"], [], ["a"]), "a": (["fa"], [], ["b"]), "b": (["fb"], [], ["c"]), "c": (["fc"], ["gc"], [])}, ["main"]),
    "diamond": ({"main": (["f"], [], ["a", "b"]), "a": (["fa"], [], ["base"]), "b": (["fb"], [], ["base"]), "base": (["fbase"], ["gbase"], [])}, ["main"]),
    "two-roots-shared-import": ({"m1": (["f1"], [], ["lib"]), "m2": (["f2"], [], ["lib"]), "lib": (["h"], [], [])}, ["m1", "m2"]),
    "import-twice-in-chain": ({"main": (["f"], [], ["a", "c"]), "a": (["fa"], [], ["c"]), "c": (["fc"], [], [])}, ["main"]),
    # module names are opaque keys: names that share a file stem, a prefix, or differ only in a suffix / directory are different modules
    "names-sharing-a-stem": ({"main": (["f"], [], ["shapes/util", "colors/util"]), "shapes/util": (["area"], [], ["shapes/api"]), "colors/util": (["tint"], [], ["colors/api"]),
                              "shapes/api": (["sapi"], [], []), "colors/api": (["capi"], ["gc"], [])}, ["main"]),
    "names-with-common-affixes": ({"main": (["f"], [], ["light", "lights", "colors", "utils.v2"]), "light": (["l1"], [], []), "lights": (["l2"], [], []), "colors": (["c1"], [], ["utils"]),
                                   "utils.v2": (["u2"], [], []), "utils": (["u1"], [], [])}, ["main"]),
}


@family("C16.link", props=["C16", "C14", "C05"], functions=[L + "::Linker.__init__", L + "::Linker.AddModule", L + "::Linker.Link", L + "::MemoryModuleLoader.Load", L + "::MemoryModuleLoader.AddModule",
                                               L + "::Module.AddImport", L + "::Module.CreateFunction", L + "::Module.CreateGlobalVariable", L + "::Program"],
        assumptions=["the loader is a finite map name -> module; import graphs enumerated: single, one import, chain of 4, diamond, two roots sharing an import, a module imported along two paths; every order of adding the root modules; set iteration order is whatever CPython gives for the run (hash seed 0) AND its reverse (A5)"])
def c16_link(R):
    """AddModule adds the module's functions and globals or raises on a duplicate name and queues its imports; Link terminates without an
    internal error for any import DAG, loads each module reachable through imports EXACTLY ONCE, and returns the union of all function and
    global tables, independent of the order in which modules were added; two definitions of one function or global are rejected."""
    ir = IR()
    for gname, (mods, roots) in GRAPHS.items():
        want_f = sorted(f for m in mods.values() for f in m[0])
        want_g = sorted(g for m in mods.values() for g in m[1])
        for order in itertools.permutations(roots):
            objs = {n: mk_module(*spec) for n, spec in mods.items()}
            ld = CountingLoader(objs)
            lk = ir.Linker(loader=ld)
            label = f"{gname},{'+'.join(order)}"
            try:
                for r in order:
                    lk.AddModule(objs[r])
                prog = lk.Link()
                ok = sorted(prog.Functions) == want_f and sorted(prog.Globals) == want_g
                det = f"linked functions {sorted(prog.Functions)} globals {sorted(prog.Globals)}; expected {want_f} / {want_g}"
                once = all(ld.loads[n] == 1 for n in mods if n not in roots) and all(ld.loads[n] == 0 for n in roots)
                same_objects = ok and all(prog.Functions[f] is objs[n].Functions[f] for n, spec in mods.items() for f in spec[0])
            except Exception as e:
                ok, once, same_objects, det = False, True, True, f"raised {type(e).__name__}: {e}"
            rp = script("""
                from nsl import LinearIR
                import collections
                mods, roots = {{mods}}, {{order}}
                def mk(fs, gs, imps):
                    m = LinearIR.Module()
                    for f in fs: m.CreateFunction(f, LinearIR.FunctionType(LinearIR.IntegerType(), collections.OrderedDict()))
                    for g in gs: m.CreateGlobalVariable(g, LinearIR.IntegerType())
                    for i in imps: m.AddImport(i)
                    return m
                objs = {n: mk(*s) for n, s in mods.items()}
                ld = LinearIR.MemoryModuleLoader()
                for n, m in objs.items(): ld.AddModule(n, m)
                lk = LinearIR.Linker(loader=ld)
                try:
                    for r in roots: lk.AddModule(objs[r])
                    p = lk.Link(); got = sorted(p.Functions)
                except Exception as e:
                    got = 'raised %s: %s' % (type(e).__name__, e)
                want = sorted(f for s in mods.values() for f in s[0])
                print('import graph', {n: s[2] for n, s in mods.items()}, 'roots', roots, '->', got, '; expected', want)
                if got != want: print('REPLAY-CONFIRMED')
                """, mods={n: (list(s[0]), list(s[1]), list(s[2])) for n, s in mods.items()}, order=list(order))
            R.check(f"C16.link.union[{label}]", L + "::Linker.Link", ok, detail=det, replay=rp)
            R.check(f"C16.link.once[{label}]", L + "::Linker.Link", once, detail=f"loads per module: {dict(ld.loads)} (every imported module exactly once, added modules never)", replay=rp)
            R.check(f"C16.link.identity[{label}]", L + "::Linker.Link", same_objects, detail="the linked table must hold the modules' own function objects")
            # frame: linking reads the modules -- afterwards every module still has its imports, functions and globals, and linking the SAME module
            # objects again (another order tried, the program linked a second time, a module stored after a trial link) gives the same program
            try:
                kept = all(set(objs[n].Imports) == set(spec[2]) and sorted(objs[n].Functions) == sorted(spec[0]) and sorted(objs[n].Globals) == sorted(spec[1]) for n, spec in mods.items())
                detk = "; ".join(f"{n}: imports {sorted(objs[n].Imports)} (had {sorted(spec[2])})" for n, spec in mods.items() if set(objs[n].Imports) != set(spec[2]))
            except Exception as e:
                kept, detk = False, f"{type(e).__name__}: {e}"
            try:
                lk2 = ir.Linker(loader=CountingLoader(objs))
                for r in reversed(order):
                    lk2.AddModule(objs[r])
                prog2 = lk2.Link()
                again = sorted(prog2.Functions) == want_f and sorted(prog2.Globals) == want_g
                deta = f"second link of the same module objects: functions {sorted(prog2.Functions)}, expected {want_f}"
            except Exception as e:
                again, deta = False, f"second link of the same module objects raised {type(e).__name__}: {e}"
            rp2 = script("""
                from nsl import LinearIR
                import collections
                mods, roots = {{mods}}, {{order}}
                def mk(fs, gs, imps):
                    m = LinearIR.Module()
                    for f in fs: m.CreateFunction(f, LinearIR.FunctionType(LinearIR.IntegerType(), collections.OrderedDict()))
                    for g in gs: m.CreateGlobalVariable(g, LinearIR.IntegerType())
                    for i in imps: m.AddImport(i)
                    return m
                objs = {n: mk(*s) for n, s in mods.items()}
                ld = LinearIR.MemoryModuleLoader()
                for n, m in objs.items(): ld.AddModule(n, m)
                want = sorted(f for s in mods.values() for f in s[0])
                res = []
                for attempt in (1, 2):
                    lk = LinearIR.Linker(loader=ld)
                    try:
                        for r in roots: lk.AddModule(objs[r])
                        res.append(sorted(lk.Link().Functions))
                    except Exception as e:
                        res.append('raised %s: %s' % (type(e).__name__, e))
                imports = {n: sorted(objs[n].Imports) for n in mods}
                print('two links of the same modules:', res, '; expected', want, 'both times; imports afterwards', imports)
                if res != [want, want] or any(imports[n] != sorted(mods[n][2]) for n in mods): print('REPLAY-CONFIRMED')
                """, mods={n: (list(s[0]), list(s[1]), list(s[2])) for n, s in mods.items()}, order=list(order))
            if ok:
                R.check(f"C16.link.frame.modules-unchanged[{label}]", L + "::Linker.Link", kept, detail=f"a module was changed by linking: {detk}", replay=rp2)
                R.check(f"C16.link.frame.relink[{label}]", L + "::Linker.Link", again, detail=deta, replay=rp2)
    # a module both added and imported (same object from the loader) is not loaded / added twice
    objs = {"main": mk_module(["f"], [], ["lib"]), "lib": mk_module(["h"], ["gl"], [])}
    for order in (("main", "lib"), ("lib", "main")):
        ld = CountingLoader(objs)
        lk = ir.Linker(loader=ld)
        try:
            for r in order:
                lk.AddModule(objs[r])
            prog = lk.Link()
            ok, det = sorted(prog.Functions) == ["f", "h"], f"functions {sorted(prog.Functions)}"
        except Exception as e:
            ok, det = False, f"raised {type(e).__name__}: {e}"
        R.check(f"C16.link.added-and-imported[{'+'.join(order)}]", L + "::Linker.Link", ok, detail=f"a module that is added explicitly and also imported by another one: {det}")
    # duplicates are rejected, whichever module comes first, for functions and for globals
    for what in ("function", "global"):
        for order in ((0, 1), (1, 0)):
            a = mk_module(["f"] if what == "function" else ["fa"], ["g"] if what == "global" else [], [])
            b = mk_module(["f"] if what == "function" else ["fb"], ["g"] if what == "global" else [], [])
            lk = ir.Linker(loader=CountingLoader({}))
            ms = [a, b]
            try:
                lk.AddModule(ms[order[0]])
                lk.AddModule(ms[order[1]])
                lk.Link()
                ok = False
            except Exception:
                ok = True
            R.check(f"C16.link.duplicate[{what},{order}]", L + "::Linker.AddModule", ok, detail=f"two definitions of the same {what} were linked silently")
    # duplicate through an import
    objs = {"main": mk_module(["f"], [], ["lib"]), "lib": mk_module(["f"], [], [])}
    lk = ir.Linker(loader=CountingLoader(objs))
    try:
        lk.AddModule(objs["main"])
        lk.Link()
        ok = False
    except Exception:
        ok = True
    R.check("C16.link.duplicate[through-import]", L + "::Linker.Link", ok, detail="an imported module redefining a function of the importing module was linked silently")
    # frame of AddModule: nothing but the tables and the pending set
    a = mk_module(["f"], ["g"], ["lib"])
    before = (dict(a.Functions), dict(a.Globals), set(a.Imports))
    lk = ir.Linker(loader=CountingLoader({}))
    lk.AddModule(a)
    R.check("C16.link.add.frame", L + "::Linker.AddModule", (dict(a.Functions), dict(a.Globals), set(a.Imports)) == before, detail="AddModule modified the module it was given")
    # two linkers do not share state (default arguments)
    l1, l2 = ir.Linker(loader=CountingLoader({})), ir.Linker(loader=CountingLoader({}))
    l1.AddModule(mk_module(["f"], [], []))
    R.check("C16.link.isolated", L + "::Linker.__init__", sorted(l2.Link().Functions) == [], detail="a second Linker sees the first one's modules")
    # the file loader returns what the file holds NOW (a rebuilt library must not be served from an earlier load), also through Linker()'s default loader
    import os, pickle, tempfile, shutil
    tmp = tempfile.mkdtemp(prefix="nslverif-c16-")
    try:
        path = os.path.join(tmp, "lib")
        results = []
        fl = ir.FilesystemModuleLoader()
        for rnd, fname in enumerate(("first", "second")):
            with open(path + ".nslir", "wb") as fh:
                pickle.dump(mk_module([fname]), fh)
            results.append(sorted(fl.Load(path).Functions))
            lk = ir.Linker()
            lk.AddModule(mk_module(["main"], [], [path]))
            results.append(sorted(lk.Link().Functions))
        R.check("C16.loader.file.current", L + "::FilesystemModuleLoader.Load", results == [["first"], ["first", "main"], ["second"], ["main", "second"]],
                detail=f"a module stored, loaded, stored again with other contents and loaded again (same loader object / default loader of Linker): {results}")
    finally:
        shutil.rmtree(tmp, ignore_errors=True)
    ml = ir.MemoryModuleLoader()
    m = mk_module(["f"])
    ml.AddModule("x", m)
    R.check("C16.loader.memory", L + "::MemoryModuleLoader.Load", ml.Load("x") is m, detail="MemoryModuleLoader must return the module stored under the name")


@family("C16.meta", props=["C16", "C03", "C10"], functions=["nsl.passes.LowerToIR::LowerToIRVisitor.v_Module", "nsl.passes.ComputeTypes::ComputeTypeVisitor.v_Module", "nsl.passes.ComputeTypes::ComputeTypeVisitor.__RegisterFunction"],
        assumptions=["the module loader of the typing pass is replaced by an in-memory loader (the file loader and pickle are trusted, see C17)"])
def c16_meta(R):
    """Producer/consumer agreement on module metadata: what LowerToIR.v_Module writes (imports, exported signatures, types) is what
    ComputeTypes.v_Module reads when the module is imported: every imported signature is registered exactly once, BEFORE the importing module's
    own functions are typed, modules with globals and structs can be imported, and a call to an imported function is lowered to the name the
    exporting module registered."""
    import io, contextlib
    from nsl import Compiler, LinearIR
    from nsl.passes import ComputeTypes

    def compile_with(src, loader, options=None):
        # the typing pass creates its module loader as LinearIR.FilesystemModuleLoader(): that name is bound to a factory returning the in-memory
        # loader while the Compiler is constructed and runs (wherever the passes are created: constructor or per compilation)
        from pyvc.util import patched
        if "FilesystemModuleLoader" not in ComputeTypes.ComputeTypeVisitor.__init__.__code__.co_names:
            raise Missing("ComputeTypeVisitor.__init__ no longer creates a LinearIR.FilesystemModuleLoader")
        try:
            with patched(LinearIR, FilesystemModuleLoader=lambda *a, **k: loader), contextlib.redirect_stdout(io.StringIO()):
                c = Compiler.Compiler()
                return c.Compile(src, options or {}), None
        except BaseException as e:
            return None, e

    ld = LinearIR.MemoryModuleLoader()
    libs = {
        "plain": "export function twice(int a) -> int { return (a * 2); }\nexport function half(float a) -> float { return (a / 2.0); }",
        "with-global": "int counter;\nexport function bump(int a) -> int { counter = (counter + a); return counter; }",
        "with-struct": "struct Pair { int a; int b; }\nexport function first(int a) -> int { Pair p; p.a = a; return p.a; }",
        "overloads": "function pick(int a) -> int { return 1; }\nfunction pick(float a) -> int { return 2; }\nexport function use(int a) -> int { return pick(a); }",
        "half-overload-set": "function choose(int a) -> int { return 100; }\nexport function libuse(int a) -> int { return choose(a); }",
    }
    compiled = {}
    for name, src in libs.items():
        r, exc = compile_with(src, ld)
        R.check(f"C16.meta.lib-compiles[{name}]", "nsl.passes.LowerToIR::LowerToIRVisitor.v_Module", r is not None, detail=f"library does not compile: {exc!r}")
        if r is not None:
            compiled[name] = r.IRModule
            ld.AddModule(name, r.IRModule)
            md = r.IRModule.Metadata
            fnames = sorted(getattr(f, "name", "?") for f in md.get("functions", []))
            R.check(f"C16.meta.functions[{name}]", "nsl.passes.LowerToIR::LowerToIRVisitor.v_Module", len(md.get("functions", [])) == src.count("function "),
                    detail=f"metadata lists functions {fnames}")
    mains = {
        "plain": ('import "plain";\nexport function f(int x) -> int { return twice(x); }', "twice"),
        "with-global": ('import "with-global";\nexport function f(int x) -> int { return bump(x); }', "bump"),
        "with-struct": ('import "with-struct";\nexport function f(int x) -> int { return first(x); }', "first"),
        "import-not-first": ('int mine;\nimport "plain";\nexport function f(int x) -> int { return twice(x); }', "twice"),
        "two-imports": ('import "plain";\nimport "with-global";\nexport function f(int x) -> int { return bump(twice(x)); }', "bump"),
        # an overload set split over the two modules is ranked as ONE set: the exact match lives in the library
        "split-overloads": ('import "half-overload-set";\nfunction choose(float a) -> int { return 200; }\nexport function f(int x) -> int { return choose(x); }', None),
        "split-overloads-local-exact": ('import "half-overload-set";\nfunction choose(float a) -> int { return 200; }\nexport function f(float x) -> int { return choose(x); }', None),
    }
    # a function that is imported AND defined again with the same signature is two definitions of one function: rejected (C16), split or not
    dup_lib = "export function price(int a) -> int { return (a * 2); }"
    r, exc = compile_with(dup_lib, ld)
    if r is not None:
        ld.AddModule("pricing", r.IRModule)
    for lab, src in (("imported+local", 'import "pricing";\nfunction price(int a) -> int { return (a * 3); }\nexport function total(int x) -> int { return price(x); }'),
                     ("one-module", 'export function price(int a) -> int { return (a * 2); }\nfunction price(int a) -> int { return (a * 3); }\nexport function total(int x) -> int { return price(x); }')):
        r2, exc2 = compile_with(src, ld)
        R.check(f"C16.meta.duplicate-definition[{lab}]", "nsl.types::Scope.RegisterFunction", r2 is None,
                detail=f"`price(int) -> int` is defined twice ({lab}) and called, but the program was accepted:\n{src}")
    # ... also when nothing calls it (nothing ranks the candidates then): one definition must not silently replace the other
    for lab, src in (("imported+local,uncalled", 'import "pricing";\nfunction price(int a) -> int { return (a * 3); }\nexport function total(int x) -> int { return x; }'),
                     ("one-module,uncalled", 'function price(int a) -> int { return (a * 2); }\nfunction price(int a) -> int { return (a * 3); }\nexport function total(int x) -> int { return x; }'),
                     ("one-module,other-parameter-name,uncalled", 'function price(int a) -> int { return (a * 2); }\nfunction price(int b) -> int { return (b * 3); }\nexport function total(int x) -> int { return x; }')):
        r2, exc2 = compile_with(src, ld)
        R.check(f"C16.meta.duplicate-definition[{lab}]", "nsl.types::Scope.RegisterFunction", r2 is None,
                detail=f"`price(int) -> int` is defined twice ({lab}); the program was accepted and one definition replaced the other:\n{src}",
                replay=script("""
                    import io, contextlib
                    from nsl import Compiler
                    src = 'function price(int a) -> int { return (a * 2); }\\nfunction price(int a) -> int { return (a * 3); }\\nexport function total(int x) -> int { return x; }'
                    try:
                        with contextlib.redirect_stdout(io.StringIO()):
                            r = Compiler.Compiler().Compile(src)
                    except BaseException as e:
                        r = None; print('rejected:', type(e).__name__, str(e)[:100])
                    if r is not None:
                        print(src); print('accepted; functions of the module:', sorted(r.IRModule.Functions)); print('REPLAY-CONFIRMED')
                    """))
    # overloads that differ in a parameter type are NOT duplicates
    r3, exc3 = compile_with('function price(int a) -> int { return (a * 2); }\nfunction price(float a) -> int { return 7; }\nexport function total(int x) -> int { return price(x); }', ld)
    R.check("C16.meta.duplicate-definition[overloads-are-not-duplicates]", "nsl.types::Scope.RegisterFunction", r3 is not None, detail=f"two overloads with different parameter types were rejected: {exc3!r}")
    for name, (src, callee) in mains.items():
        r, exc = compile_with(src, ld)
        rp = None
        ok = r is not None
        det = f"importing module does not compile: {type(exc).__name__ if exc else ''}: {str(exc)[:160]}"
        if ok:
            m = r.IRModule
            want_imports = set(x.split('"')[1] for x in src.splitlines() if x.startswith("import"))
            calls = [i for fn in m.Functions.values() for i in fn.Instructions if isinstance(i, LinearIR.CallInstruction)]
            ok = set(m.Imports) == want_imports and (callee is None or (any(c.Function == callee for c in calls) and all(any(c.Function in lib.Functions for lib in compiled.values()) for c in calls)))
            det = f"imports {set(m.Imports)} (expected {want_imports}); calls {[c.Function for c in calls]}"
            if ok:
                # link and run: behaves like the single-module program
                lk = LinearIR.Linker(loader=ld)
                try:
                    lk.AddModule(m)
                    prog = lk.Link()
                    from nsl import VM
                    vm = VM.VirtualMachine(prog)
                    if "counter" in prog.Globals:
                        vm.SetGlobal("counter", 10)
                    got = vm.Invoke("f", x=4)
                    want = {"plain": 8, "with-global": 14, "with-struct": 4, "import-not-first": 8, "two-imports": 18, "split-overloads": 100, "split-overloads-local-exact": 200}[name]
                    ok, det = got == want, f"linked program: f(4) = {got}, expected {want}"
                except Exception as e:
                    ok, det = False, f"link/run raised {type(e).__name__}: {e}"
        R.check(f"C16.meta.import[{name}]", "nsl.passes.ComputeTypes::ComputeTypeVisitor.v_Module", ok, detail=det)


def _e2e_programs():
    funcs = collections.OrderedDict([
        ("base", "export function base(int a) -> int { return (a + 1); }"),
        ("mid1", "export function mid1(int a) -> int { return (base(a) * 2); }"),
        ("mid2", "export function mid2(int a) -> int { return (base(a) + 10); }"),
        ("top", "export function top(int a) -> int { return (mid1(a) + mid2(a)); }"),
    ])
    deps = {"base": [], "mid1": ["base"], "mid2": ["base"], "top": ["mid1", "mid2"]}
    partitions = {
        "one-module": [["base", "mid1", "mid2", "top"]],
        "lib+main": [["base", "mid1", "mid2"], ["top"]],
        "chain": [["base"], ["mid1", "mid2"], ["top"]],
        "diamond": [["base"], ["mid1"], ["mid2"], ["top"]],
    }
    return funcs, deps, partitions


@family("C16.e2e", props=["C16"], functions=["nslc.py", L + "::FilesystemModuleLoader.Load", L + "::Linker.Link", "nsl.passes.ComputeTypes::ComputeTypeVisitor.v_Module"],
        assumptions=["BOUNDED stand-in (never counted as proved): one four-function program partitioned into modules as one module / lib+main / chain / diamond, compiled separately, stored with pickle in a scratch directory, imported by name through the real FilesystemModuleLoader, linked and run"])
def c16_e2e(R):
    """Bounded end-to-end check through the file loader: every partition behaves like the single module."""
    import io, contextlib, os, pickle, tempfile, shutil
    from nsl import Compiler, LinearIR, VM
    funcs, deps, partitions = _e2e_programs()
    want = None
    bad = None
    cwd = os.getcwd()
    tmp = tempfile.mkdtemp(prefix="nslverif-c16-")
    try:
        os.chdir(tmp)
        for pname, parts in partitions.items():
            modname = {}
            for k, part in enumerate(parts):
                for f in part:
                    modname[f] = f"mod{pname.replace('+', '_').replace('-', '_')}{k}"
            irmods = {}
            for k, part in enumerate(parts):
                me = modname[part[0]]
                imports = sorted({modname[d] for f in part for d in deps[f] if modname[d] != me})
                src = "".join(f'import "{i}";\n' for i in imports) + "\n".join(funcs[f] for f in part)
                try:
                    with contextlib.redirect_stdout(io.StringIO()):
                        r = Compiler.Compiler().Compile(src)
                except BaseException as e:
                    r = None
                    bad = bad or (pname, f"module {me} does not compile: {type(e).__name__}: {e}\n{src}")
                if r is None:
                    bad = bad or (pname, f"module {me} rejected:\n{src}")
                    break
                with open(me + ".nslir", "wb") as fh:
                    pickle.dump(r.IRModule, fh)
                irmods[me] = r.IRModule
            if bad and bad[0] == pname:
                continue
            try:
                lk = LinearIR.Linker(loader=LinearIR.FilesystemModuleLoader())
                lk.AddModule(LinearIR.FilesystemModuleLoader().Load(modname["top"]))
                prog = lk.Link()
                got = [VM.VirtualMachine(prog).Invoke("top", a=a) for a in (0, 3, -5)]
            except BaseException as e:
                got = f"raised {type(e).__name__}: {e}"
            if pname == "one-module":
                want = got
            if got != [(a + 1) * 2 + (a + 1) + 10 for a in (0, 3, -5)]:
                bad = bad or (pname, f"partition {pname}: top(0,3,-5) = {got}, expected {[(a + 1) * 2 + (a + 1) + 10 for a in (0, 3, -5)]}")
        # a library that is recompiled and stored again under the same name: a client compiled afterwards is typed against (and linked with)
        # the CURRENT file -- the loader of the typing pass keeps nothing from an earlier compilation of this process
        hist = None
        try:
            def store(name, src):
                with contextlib.redirect_stdout(io.StringIO()):
                    r = Compiler.Compiler().Compile(src)
                with open(name + ".nslir", "wb") as fh:
                    pickle.dump(r.IRModule, fh)
                return r

            def run_client(src, fname, **args):
                r = store("clientv", src)
                lk = LinearIR.Linker(loader=LinearIR.FilesystemModuleLoader())
                lk.AddModule(LinearIR.FilesystemModuleLoader().Load("clientv"))
                return VM.VirtualMachine(lk.Link()).Invoke(fname, **args)

            store("libv", "function scale(int x) -> int { return (x * 2); }")
            g1 = run_client('import "libv";\nexport function main(int a) -> int { return scale(a); }', "main", a=3)
            store("libv", "function scale(int x) -> int { return (x * 2); }\nfunction scale(float x) -> float { return (x + 0.25); }")
            g2 = run_client('import "libv";\nexport function mainf(float x) -> float { return scale(x); }', "mainf", x=1.5)
            store("libv", "function scale(int x) -> int { return (x + 1000); }")
            g3 = run_client('import "libv";\nexport function main(int a) -> int { return scale(a); }', "main", a=3)
            if (g1, g2, g3) != (6, 1.75, 1003):
                hist = f"library stored three times under one name, a client compiled after each: main(3), mainf(1.5), main(3) = {(g1, g2, g3)}, expected (6, 1.75, 1003)"
        except BaseException as e:
            if isinstance(e, KeyboardInterrupt):
                raise
            hist = f"library stored three times under one name, a client compiled after each: raised {type(e).__name__}: {str(e)[:120]}"
    finally:
        os.chdir(cwd)
        shutil.rmtree(tmp, ignore_errors=True)
    R.bounded("C16.e2e", "nslc.py", bad is None, len(partitions), detail="all partitions agree with the single module" if not bad else bad[1])
    R.bounded("C16.e2e.recompiled-library", "nsl.passes.ComputeTypes::ComputeTypeVisitor.v_Module", hist is None, 3, detail=hist or "3 versions of a library, clients see the current one",
              replay=script("""
                  import io, contextlib, os, pickle, tempfile
                  from nsl import Compiler, LinearIR, VM
                  import atexit, shutil
                  _d = tempfile.mkdtemp(prefix='nslverif-c16-'); os.chdir(_d); atexit.register(lambda: (os.chdir('/'), shutil.rmtree(_d, ignore_errors=True)))
                  def store(name, src):
                      with contextlib.redirect_stdout(io.StringIO()):
                          r = Compiler.Compiler().Compile(src)
                      pickle.dump(r.IRModule, open(name + '.nslir', 'wb'))
                  def run_client(src, fname, **args):
                      store('clientv', src)
                      lk = LinearIR.Linker(loader=LinearIR.FilesystemModuleLoader())
                      lk.AddModule(LinearIR.FilesystemModuleLoader().Load('clientv'))
                      return VM.VirtualMachine(lk.Link()).Invoke(fname, **args)
                  try:
                      store('libv', 'function scale(int x) -> int { return (x * 2); }')
                      g1 = run_client('import "libv";\\nexport function main(int a) -> int { return scale(a); }', 'main', a=3)
                      store('libv', 'function scale(int x) -> int { return (x * 2); }\\nfunction scale(float x) -> float { return (x + 0.25); }')
                      g2 = run_client('import "libv";\\nexport function mainf(float x) -> float { return scale(x); }', 'mainf', x=1.5)
                      store('libv', 'function scale(int x) -> int { return (x + 1000); }')
                      g3 = run_client('import "libv";\\nexport function main(int a) -> int { return scale(a); }', 'main', a=3)
                      print((g1, g2, g3), 'expected (6, 1.75, 1003)')
                      if (g1, g2, g3) != (6, 1.75, 1003): print('REPLAY-CONFIRMED')
                  except Exception as e:
                      print('raised', type(e).__name__, e); print('REPLAY-CONFIRMED')
                  """) if hist else None)


@family("C16.e2e.types", props=["C16"], functions=["nsl.passes.ComputeTypes::ComputeTypeVisitor.v_Module", "nsl.types::IsCompatible", "nsl.types::StructType", L + "::FilesystemModuleLoader.Load", L + "::Linker.Link"],
        assumptions=["BOUNDED stand-in (never counted as proved): one three-function program whose functions pass a struct (and an array of ints) through their signatures, partitioned as one module / "
                     "lib+main / diamond (the struct's module imported by two modules that a fourth imports), compiled separately, stored with pickle, imported by name through the real file loader, linked and run"])
def c16_e2e_types(R):
    """Functions whose signatures use a struct type declared in an imported module: every partition is accepted and behaves like the single module
    (a type that reaches a module along two import paths is ONE type)."""
    import io, contextlib, os, pickle, tempfile, shutil
    from nsl import Compiler, LinearIR, VM
    S = "struct P { int a; int b; int[2] t; }\n"
    MK = "function mk(int x) -> P { P p; p.a = x; p.b = (x * 2); p.t[1] = x; return p; }"
    USE = "function usep(P p) -> int { return ((p.a + p.b) + p.t[1]); }"
    TOP = "export function top(int x) -> int { return usep(mk(x)); }"
    partitions = {
        "one-module": [("one", S + MK + "\n" + USE + "\n" + TOP)],
        "lib+main": [("tla", S + MK + "\n" + USE), ("tma", 'import "tla";\n' + TOP)],
        "chain": [("tca", S + MK), ("tcb", 'import "tca";\n' + USE), ("tcc", 'import "tcb";\nimport "tca";\n' + TOP)],
        "diamond": [("tda", S + "function idp(P p) -> P { return p; }"), ("tdb", 'import "tda";\n' + MK), ("tdc", 'import "tda";\n' + USE), ("tdd", 'import "tdb";\nimport "tdc";\n' + TOP)],
    }
    cwd = os.getcwd()
    tmp = tempfile.mkdtemp(prefix="nslverif-c16t-")
    results = {}
    try:
        os.chdir(tmp)
        for pname, mods in partitions.items():
            got = None
            for name, src in mods:
                try:
                    with contextlib.redirect_stdout(io.StringIO()):
                        r = Compiler.Compiler().Compile(src)
                    if r is None:
                        raise RuntimeError("Compile returned None")
                    with open(name + ".nslir", "wb") as fh:
                        pickle.dump(r.IRModule, fh)
                except BaseException as e:
                    if isinstance(e, KeyboardInterrupt):
                        raise
                    got = f"module {name} rejected: {type(e).__name__}: {str(e)[:100]}"
                    break
            if got is None:
                try:
                    lk = LinearIR.Linker(loader=LinearIR.FilesystemModuleLoader())
                    lk.AddModule(LinearIR.FilesystemModuleLoader().Load(mods[-1][0]))
                    prog = lk.Link()
                    got = [VM.VirtualMachine(prog).Invoke("top", x=x) for x in (0, 3, -5)]
                except BaseException as e:
                    if isinstance(e, KeyboardInterrupt):
                        raise
                    got = f"raised {type(e).__name__}: {str(e)[:100]}"
            results[pname] = got
    finally:
        os.chdir(cwd)
        shutil.rmtree(tmp, ignore_errors=True)
    # whatever makes two copies of one declared type one type must keep DIFFERENT struct types apart (name, field types, array sizes, field order)
    import collections as _c, pickle as _p
    from nsl import types as ty
    def mkS(name="P", fields=(("a", ty.Integer()), ("t", ty.ArrayType(ty.Integer(), [2])))):
        return ty.StructType(name, _c.OrderedDict(fields))
    base = mkS()
    others = [mkS(name="Q"), mkS(fields=(("a", ty.Integer()),)), mkS(fields=(("a", ty.Float()), ("t", ty.ArrayType(ty.Integer(), [2])))),
              mkS(fields=(("a", ty.Integer()), ("t", ty.ArrayType(ty.Integer(), [3])))), mkS(fields=(("t", ty.ArrayType(ty.Integer(), [2])), ("a", ty.Integer())))]
    diff_ok = all(not ty.IsCompatible(base, o) and not ty.IsCompatible(o, base) and ty.Match(base, o) == -1 for o in others)
    R.check("C16.types.other-structs-stay-distinct", "nsl.types::IsCompatible", diff_ok,
            detail="a struct with another name, other field types, other array sizes or another field order is compatible with the original")
    want = [0, 12, -20]
    for pname, got in results.items():
        R.bounded(f"C16.e2e.types[{pname}]", "nsl.passes.ComputeTypes::ComputeTypeVisitor.v_Module", got == want, 3,
                  detail=f"top(0, 3, -5) = {got}, expected {want} (as the single module)\n" + "\n--\n".join(f"[{n}]\n{s}" for n, s in partitions[pname]),
                  replay=script("""
                      import io, contextlib, os, pickle, tempfile, atexit, shutil
                      from nsl import Compiler, LinearIR, VM
                      _d = tempfile.mkdtemp(prefix='nslverif-c16t-'); os.chdir(_d); atexit.register(lambda: (os.chdir('/'), shutil.rmtree(_d, ignore_errors=True)))
                      mods = {{mods}}
                      try:
                          for name, src in mods:
                              with contextlib.redirect_stdout(io.StringIO()):
                                  r = Compiler.Compiler().Compile(src)
                              pickle.dump(r.IRModule, open(name + '.nslir', 'wb'))
                          lk = LinearIR.Linker(loader=LinearIR.FilesystemModuleLoader())
                          lk.AddModule(LinearIR.FilesystemModuleLoader().Load(mods[-1][0]))
                          got = [VM.VirtualMachine(lk.Link()).Invoke('top', x=x) for x in (0, 3, -5)]
                          print(got, 'expected [0, 12, -20]')
                          if got != [0, 12, -20]: print('REPLAY-CONFIRMED')
                      except BaseException as e:
                          print('raised', type(e).__name__, str(e)[:200]); print('REPLAY-CONFIRMED')
                      """, mods=[list(m) for m in partitions[pname]]))
