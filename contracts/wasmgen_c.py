"""C06 / C07: the WebAssembly generator.  Per-handler simulation contracts against a
transcription of the WebAssembly 1.0 semantics and validation rules of the opcodes
the generator can emit (wasmsem, below), structural contracts on the module
(counts, index spaces, local declarations, section order) and a bounded
end-to-end family validated and executed by wasmtime."""
from __future__ import annotations

import collections
import itertools

import z3

from pyvc.core import family, resolve, Missing
from pyvc.sym import term, SymInt, Unsupported
from pyvc.util import script, getpriv
from pyvc.verify import verify
from . import irsem
from . import ir_c
from . import types_c as tc

GW = "nsl.passes.GenerateWasm"
WA = "nsl.WebAssembly"


def IR():
    import nsl.LinearIR as m
    return m


def W():
    import nsl.WebAssembly as m
    return m


def GEN():
    import nsl.passes.GenerateWasm as m
    return m


# ---------------------------------------------------------------------------
# wasmsem: semantics and validation of the emitted opcodes (WebAssembly 1.0)

def wrap32(t):
    """two's-complement wrap of an Int term into the signed 32-bit range"""
    m = (t + 2 ** 31) % (2 ** 32)
    return m - 2 ** 31


def opname(code):
    for k, v in W().opcodes.items():
        if v == code:
            return k
    return f"0x{code:02x}"


def decode(instr):
    return opname(getpriv(instr, "Instruction", "__opcode")), tuple(getpriv(instr, "Instruction", "__args") or ())


I32, F32 = "i32", "f32"


def _u(t):
    return z3.If(t < 0, t + 2 ** 32, t)

BIN_I = {"i32.add": lambda a, b: wrap32(a + b), "i32.sub": lambda a, b: wrap32(a - b), "i32.mul": lambda a, b: wrap32(a * b),
         "i32.div_s": lambda a, b: wrap32(irsem.binary("DIV", a, b, True)),
         "i32.div_u": lambda a, b: wrap32(irsem.binary("DIV", _u(a), _u(b), True))}
CMP_I = {"i32.eq": lambda a, b: a == b, "i32.ne": lambda a, b: a != b, "i32.lt_s": lambda a, b: a < b, "i32.gt_s": lambda a, b: a > b,
         "i32.le_s": lambda a, b: a <= b, "i32.ge_s": lambda a, b: a >= b}


CMP_U = {"i32.lt_u": lambda a, b: _u(a) < _u(b), "i32.gt_u": lambda a, b: _u(a) > _u(b), "i32.le_u": lambda a, b: _u(a) <= _u(b), "i32.ge_u": lambda a, b: _u(a) >= _u(b)}
BIN_F = {"f32.add": lambda a, b: a + b, "f32.sub": lambda a, b: a - b, "f32.mul": lambda a, b: a * b, "f32.div": lambda a, b: a / b}


class Trap(Exception):
    pass


class Invalid(Exception):
    pass


def run_wasm(instrs, locals_, local_types, results=None):
    """Execute a straight-line instruction list under wasmsem with validation.  locals_: list of terms; returns (locals, stack, returned)."""
    stack = []          # (type, term)
    ret = None

    def pop(t):
        if not stack:
            raise Invalid("stack underflow")
        ty, v = stack.pop()
        if ty != t:
            raise Invalid(f"expected {t} on the stack, found {ty}")
        return v

    for ins in instrs:
        op, args = decode(ins)
        if op == "local.get":
            i = args[0]
            if not (isinstance(i, int) and 0 <= i < len(locals_)):
                raise Invalid(f"local index {i!r} out of range")
            if locals_[i] is None:
                raise Invalid(f"local {i} read before it is set")
            stack.append((local_types[i], locals_[i]))
        elif op == "local.set":
            i = args[0]
            if not (isinstance(i, int) and 0 <= i < len(locals_)):
                raise Invalid(f"local index {i!r} out of range")
            locals_[i] = pop(local_types[i])
        elif op == "i32.const":
            stack.append((I32, wrap32(term(args[0]))))
        elif op in BIN_I:
            b, a = pop(I32), pop(I32)
            stack.append((I32, BIN_I[op](a, b)))
        elif op in ("i32.shr_s", "i32.shr_u", "i32.shl"):
            b, a = pop(I32), pop(I32)
            kb = z3.simplify(b)
            if not z3.is_int_value(kb):
                raise Unsupported(f"{op} by an amount that is not a constant")
            k = kb.as_long() % 32                      # (the shift count is taken modulo 32)
            if op == "i32.shr_s":
                stack.append((I32, a / z3.IntVal(2 ** k)))                       # arithmetic shift = floor division (z3 `/` on Int floors for a positive divisor)
            elif op == "i32.shr_u":
                stack.append((I32, wrap32(_u(a) / z3.IntVal(2 ** k))))
            else:
                stack.append((I32, wrap32(a * z3.IntVal(2 ** k))))
        elif op in CMP_I or op in CMP_U:
            b, a = pop(I32), pop(I32)
            stack.append((I32, irsem.b2i((CMP_I.get(op) or CMP_U[op])(a, b))))
        elif op in BIN_F:
            b, a = pop(F32), pop(F32)
            stack.append((F32, BIN_F[op](a, b)))
        elif op == "return":
            if results is not None:
                vals = [pop(t) for t in reversed(results)]
                ret = list(reversed(vals))
            else:
                ret = [v for _, v in stack]
            stack = []
            break
        else:
            raise Invalid(f"opcode {op} is outside the modelled subset")
    return locals_, stack, ret


def T(k):
    ir = IR()
    return {"i": ir.IntegerType(), "u": ir.IntegerType(unsigned=True), "f": ir.FloatType()}[k]


def wt(k):
    return I32 if k in "iu" else F32


def shims_w():
    """proxy-friendly isinstance etc. inside the generator module"""
    from .vm_c import shims
    return shims()


def new_gen():
    g = GEN()
    ctx = g.GenerateWasmVisitor.Context()
    vis = g.GenerateWasmVisitor(ctx)
    return g, vis, ctx


def emitted(ctx):
    return list(getpriv(ctx.Code, "Code", "__instructions"))


@family("C06.total", props=["C06", "C07"], functions=[GW + "::GenerateWasmVisitor.v_VariableAccessInstruction", GW + "::GenerateWasmVisitor.v_BinaryInstruction", GW + "::GenerateWasmVisitor.v_ReturnInstruction",
                                                     "nsl.Visitor::Visitor.v_Generic", "nsl.Visitor::DefaultVisitor.v_Default"],
        assumptions=["one shape per instruction class (the reflection obligation IR.uses.covered guarantees every Instruction subclass has one) plus load/store x scope of variable accesses"])
def c06_total(R):
    """Visiting ANY instruction of the IR either appends code for it or raises: an instruction the backend has no translation for must be
    reported, never silently dropped."""
    ir = IR()
    shapes = dict(ir_c.instruction_shapes())
    S = ir.VariableAccessScope
    for scope in (S.GLOBAL, S.FUNCTION_ARGUMENT, S.FUNCTION_LOCAL):
        for store in (False, True):
            def mk(f, bb, scope=scope, store=store):
                i = ir.VariableAccessInstruction(ir.IntegerType(), 0 if scope == S.FUNCTION_ARGUMENT else "x", scope)
                if store:
                    i.SetStore(ir_c.val(bb))
                return i, []
            shapes[f"VariableAccessInstruction/{'store' if store else 'load'}.{scope.name}"] = mk
    del shapes["VariableAccessInstruction/load"], shapes["VariableAccessInstruction/store"]
    for label, mk in shapes.items():
        f, bb = ir_c.fresh_function()
        ins, ops = mk(f, bb)
        bb.AddInstruction(ins)
        g, vis, ctx = new_gen()
        ctx.OnEnterFunction("f")
        refmap = {i.Reference: k for k, i in enumerate(f.Instructions)}
        refmap.update({b.Reference: 90 + k for k, b in enumerate(f.BasicBlocks)})
        ctx.SetReferenceToLocalMap(refmap)
        before = len(emitted(ctx))
        try:
            vis.v_Generic(ins, ctx)
            raised = None
        except Exception as e:
            raised = e
        n = len(emitted(ctx)) - before
        src = {"BranchInstruction/conditional": "export function f(int a) -> int { if (a > 0) { return 1; } return 2; }",
               "CallInstruction": "function g(int a) -> int { return a; }\nexport function f(int a) -> int { return g(a); }",
               "CastInstruction": "export function f(int a) -> float { float b = a; return b; }",
               "DeclareVariableInstruction": "export function f(int a) -> int { int b = a; return b; }"}.get(label)
        rp = None
        if src:
            rp = script("""
                import io, contextlib
                from nsl import Compiler, LinearIR, VM
                src = {{src}}
                try:
                    with contextlib.redirect_stdout(io.StringIO()):
                        r = Compiler.Compiler().Compile(src, {'wasm': True})
                    out = io.BytesIO(); r.WasmModule.WriteTo(out)
                    print(src, '-> wasm generation completed without an error,', len(out.getvalue()), 'bytes')
                    import wasmtime
                    try:
                        wasmtime.Module.validate(wasmtime.Engine(), out.getvalue()); valid = True
                    except Exception as e:
                        valid = False; print('wasmtime:', str(e)[:200])
                    l = LinearIR.Linker(); l.AddModule(r.IRModule)
                    want = VM.VirtualMachine(l.Link()).Invoke('f', a=3)
                    got = None
                    if valid:
                        st = wasmtime.Store(); inst = wasmtime.Instance(st, wasmtime.Module(st.engine, out.getvalue()), [])
                        got = inst.exports(st)['f'](st, 3)
                    print('VM:', want, 'wasm:', got)
                    if not valid or got != want: print('REPLAY-CONFIRMED')
                except BaseException as e:
                    print(src, '-> refused:', type(e).__name__, e)
                """, src=src)
        R.check(f"C06.total[{label}]", GW + "::GenerateWasmVisitor", raised is not None or n > 0,
                detail=f"{type(ins).__name__}: no code emitted and no error raised (the instruction is silently dropped from the module)", replay=rp)


# the backend's scalar straight-line subset (C06: "those inside ... must agree"): the operators its opcode table translates
SUBSET_OPS = ("ADD", "SUB", "MUL", "DIV", "CMP_EQ", "CMP_LT", "CMP_GT")
IROPS = ["ADD", "SUB", "MUL", "DIV", "MOD", "LG_AND", "LG_OR", "CMP_GT", "CMP_LT", "CMP_LE", "CMP_GE", "CMP_NE", "CMP_EQ"]


@family("C06.sem", props=["C06", "C07"], functions=[GW + "::GenerateWasmVisitor.v_BinaryInstruction", GW + "::GenerateWasmVisitor.__PushValueOntoStack", GW + "::_GenerateConstant",
                                                   GW + "::GenerateWasmVisitor.v_VariableAccessInstruction", GW + "::GenerateWasmVisitor.v_ReturnInstruction", GW + "::GenerateWasmVisitor.Context.GetLocalForReference"],
        assumptions=["wasmsem: the WebAssembly 1.0 execution and validation rules of local.get/set, i32.const, i32.add/sub/mul/div_s, i32 comparisons, f32.add/sub/mul/div, return -- transcribed by hand, trusted",
                     "simulation relation R: wasm local map[r] holds the VM value of IR reference r (ints compared as 32-bit two's complement, floats as reals: 'to single precision' is assumed)"])
def c06_sem(R):
    """For every (IR opcode, result type, operand types) for which the handler does not raise: the emitted instruction sequence is well-typed
    under the 1.0 validation rules, leaves the operand stack as found and the result local equal to what the VM computes (IRsem), wrapped to 32 bits."""
    ir = IR()
    for opn in IROPS:
        for k0, k1 in (("i", "i"), ("u", "u"), ("f", "f")):
            iscmp = opn.startswith("CMP") or opn.startswith("LG")
            rk = "i" if iscmp else k0
            for const_operand in (False, True):
                label = f"{opn},{k0}x{k1}->{rk}{',const' if const_operand else ''}"
                if const_operand and k0 == "f":
                    continue

                def run(ctx, opn=opn, k0=k0, k1=k1, rk=rk, const_operand=const_operand, cval=None):
                    f, bb = ir_c.fresh_function()
                    v0 = ir_c.val(bb, T(k0))
                    c = ctx.int("c")
                    ctx.assume(irsem.in_i32(c.t))
                    if cval is not None:
                        c = SymInt(z3.IntVal(cval))
                    if const_operand:
                        v1 = ir.ConstantValue(T(k1), c if cval is None else cval)
                        f.RegisterValue(v1)
                    else:
                        v1 = ir_c.val(bb, T(k1))
                    ins = bb.AddInstruction(ir.BinaryInstruction(ir.OpCode[opn], T(rk), v0, v1))
                    g, vis, gctx = new_gen()
                    gctx.OnEnterFunction("f")
                    lm = {v0.Reference: 2, ins.Reference: 4}
                    if not const_operand:
                        lm[v1.Reference] = 3
                    gctx.SetReferenceToLocalMap(lm)
                    a = ctx.int("a") if k0 != "f" else ctx.real("a")
                    b = c if const_operand else (ctx.int("b") if k1 != "f" else ctx.real("b"))
                    for x, k in ((a, k0), (b, k1)):
                        if k == "i":
                            ctx.assume(irsem.in_i32(x.t))
                        if k == "u":
                            # the whole unsigned range: values from 2^31 on are where signed and unsigned opcodes differ
                            ctx.assume(x.t >= 0)
                            ctx.assume(x.t < 2 ** 32)
                    if opn in ("DIV", "MOD"):
                        ctx.assume(b != 0)
                        if k0 != "f":
                            ctx.assume(z3.Not(z3.And(a.t == -(2 ** 31), b.t == -1)))
                    try:
                        from .leb import ChunkIO
                        vis.v_Generic(ins, gctx)
                    except Exception as e:
                        if opn in SUBSET_OPS and not (k0 == "f" and opn.startswith("CMP")):      # (there are no f32 comparison opcodes in the writer's table)
                            # C06: programs inside the backend's scalar straight-line subset MUST agree -- refusing them is not an option
                            return [("translates", z3.BoolVal(False), f"{opn} on {k0} operands is in the backend's scalar straight-line subset, but the handler raised {type(e).__name__}: {e}")]
                        return [("refused", z3.BoolVal(True), f"handler raised {type(e).__name__}: refusal is acceptable")]
                    code = emitted(gctx)
                    types = [I32, I32, wt(k0), wt(k1), wt(rk)]
                    # simulation relation: an integer local holds the VM value as a 32-bit pattern (two's complement)
                    locs = [z3.IntVal(0), z3.IntVal(0), a.t if k0 == "f" else wrap32(a.t), b.t if k1 == "f" else wrap32(b.t), None]
                    try:
                        locs2, stack, ret = run_wasm(code, list(locs), types)
                    except Invalid as e:
                        return [("well-typed", z3.BoolVal(False), f"emitted {[decode(i) for i in code]}: {e}")]
                    want = irsem.binary(opn, a.t, b.t, k0 != "f")
                    goals = [("well-typed", z3.BoolVal(True)), ("stack-balanced", z3.BoolVal(not stack and ret is None), f"stack after the sequence: {len(stack)} value(s)")]
                    if want is None or (opn == "MOD"):
                        return goals
                    got = locs2[4]
                    if got is None:
                        goals.append(("result-stored", z3.BoolVal(False), "the result local is never set"))
                    elif rk == "f":
                        goals.append(("agrees-with-VM", got == want, f"emitted {[decode(i)[0] for i in code]}"))
                    else:
                        goals.append(("agrees-with-VM", got == wrap32(want), f"emitted {[decode(i)[0] for i in code]}"))
                    goals.append(("frame", z3.BoolVal(all(locs2[i] is locs[i] for i in (0, 1, 2, 3))), "other locals changed"))
                    return goals

                def replay(model, clause, opn=opn, k0=k0, cval=None):
                    from .vm_c import NSL_OP, NSLT
                    iscmp = opn.startswith("CMP") or opn.startswith("LG")
                    a, b = model.get("a", 7), (cval if cval is not None else model.get("b", model.get("c", 2)))
                    return script("""
                        import io, contextlib
                        from nsl import Compiler, LinearIR, VM
                        import wasmtime
                        src = 'export function f(%s a, %s b) -> %s { return (a %s b); }' % ({{t}}, {{t}}, {{rt}}, {{op}})
                        a, b = {{a}}, {{b}}
                        if {{lit}}:      # the second operand is a literal of the program (b is passed too, but not used)
                            src = 'export function f(%s a, %s b) -> %s { return (a %s %d); }' % ({{t}}, {{t}}, {{rt}}, {{op}}, b)
                        try:
                            with contextlib.redirect_stdout(io.StringIO()):
                                r = Compiler.Compiler().Compile(src, {'wasm': True})
                            out = io.BytesIO(); r.WasmModule.WriteTo(out)
                        except BaseException as e:
                            print(src, 'refused:', type(e).__name__, e)
                            if {{must}}: print('(inside the backend subset: must be translated)'); print('REPLAY-CONFIRMED')
                            raise SystemExit
                        l = LinearIR.Linker(); l.AddModule(r.IRModule)
                        want = VM.VirtualMachine(l.Link()).Invoke('f', a=a, b=b)
                        try:
                            st = wasmtime.Store(); inst = wasmtime.Instance(st, wasmtime.Module(st.engine, out.getvalue()), [])
                            got = inst.exports(st)['f'](st, a, b)
                        except Exception as e:
                            got = 'wasmtime: ' + str(e)[:160]
                        print(src, 'f(%r, %r): VM' % (a, b), want, 'wasm', got)
                        if got != want: print('REPLAY-CONFIRMED')
                        """, t=NSLT[k0], rt="int" if (iscmp or k0 != "f") else "float", op=NSL_OP[opn], a=int(a) if k0 != "f" else float(a), b=int(b) if k0 != "f" else float(b), must=(clause == "translates"), lit=cval is not None and cval >= 0)

                verify(R, "C06.sem.BinaryInstruction", GW + "::GenerateWasmVisitor.v_BinaryInstruction", run, replay, label=label)
                if const_operand:
                    # a handler may look AT a constant operand (strength reduction, immediates): the symbolic constant above covers handlers that
                    # do not; these run the same obligation with the other operand symbolic for literal values a peephole would single out
                    import functools
                    for cv in (0, 1, 2, 3, 4, 8, 10, 65536, 2 ** 30, 2 ** 31 - 1, -1, -2, -4, -(2 ** 31)):
                        if (cv == 0 and opn in ("DIV", "MOD")) or (cv < 0 and k1 == "u"):
                            continue
                        verify(R, "C06.sem.BinaryInstruction", GW + "::GenerateWasmVisitor.v_BinaryInstruction", functools.partial(run, cval=cv),
                               functools.partial(replay, cval=cv), label=f"{opn},{k0}x{k1}->{rk},const={cv}")

    # argument loads
    for k in ("i", "f"):
        def run(ctx, k=k):
            f, bb = ir_c.fresh_function()
            ins = bb.AddInstruction(ir.VariableAccessInstruction(T(k), 1, ir.VariableAccessScope.FUNCTION_ARGUMENT))
            g, vis, gctx = new_gen()
            gctx.OnEnterFunction("f")
            gctx.SetReferenceToLocalMap({ins.Reference: 2})
            try:
                vis.v_Generic(ins, gctx)
            except Exception as e:
                return [("translates", z3.BoolVal(False), f"a load of a scalar argument is in the backend's subset, but the handler raised {type(e).__name__}: {e}")]
            a0, a1 = ctx.int("a0"), (ctx.int("a1") if k == "i" else ctx.real("a1"))
            try:
                locs, stack, ret = run_wasm(emitted(gctx), [a0.t, a1.t, None], [I32, wt(k), wt(k)])
            except Invalid as e:
                return [("well-typed", z3.BoolVal(False), str(e))]
            return [("loads-the-argument", z3.BoolVal(locs[2] is a1.t)), ("stack-balanced", z3.BoolVal(not stack)), ("frame", z3.BoolVal(locs[0] is a0.t and locs[1] is a1.t))]

        verify(R, "C06.sem.VariableAccessInstruction", GW + "::GenerateWasmVisitor.v_VariableAccessInstruction", run, label=f"load.arg,{k}")
    # return: the function's DECLARED result type (converted by the real _ConvertFunctionType) x the type of the returned value.  There is no
    # conversion on `return` in the front end (`-> float { return a; }` with an int a reaches the IR as it stands), so the handler must either
    # refuse or leave exactly the declared results on the stack.
    import collections
    cft = resolve(GW + "::_ConvertFunctionType")
    RT = {"int": ir.IntegerType, "float": ir.FloatType, "void": ir.VoidType}
    for declared, valk in itertools.product(("int", "float", "void"), ("i", "f", None)):
        def run(ctx, declared=declared, valk=valk):
            f = ir.Function("f", ir.FunctionType(RT[declared](), collections.OrderedDict([("p0", ir.IntegerType())])))
            bb = f.CreateBasicBlock()
            v = ir_c.val(bb, T(valk)) if valk else None
            ins = bb.AddInstruction(ir.ReturnInstruction(v))
            g, vis, gctx = new_gen()
            gctx.OnEnterFunction("f")
            if v is not None:
                gctx.SetReferenceToLocalMap({v.Reference: 1})
            try:
                results = [{"i32": I32, "f32": F32}.get(getattr(x, "name", None), str(x)) for x in getpriv(cft(f.Type), "FunctionType", "__returnTypes")]
                vis.v_Generic(ins, gctx)
            except Exception as e:
                if (declared, valk) in (("int", "i"), ("float", "f"), ("void", None)):
                    return [("translates", z3.BoolVal(False), f"a return matching the declared type is in the backend's subset, but the handler raised {type(e).__name__}: {e}")]
                return [("refused", z3.BoolVal(True), f"handler raised {type(e).__name__}: refusal is acceptable")]
            x = ctx.int("x") if valk != "f" else ctx.real("x")
            try:
                locs, stack, ret = run_wasm(emitted(gctx), [z3.IntVal(0), x.t], [I32, wt(valk or "i")], results=results)
            except Invalid as e:
                return [("well-typed", z3.BoolVal(False), f"function declared -> {declared}, `return` of {'nothing' if valk is None else T(valk)}: {e}")]
            return [("well-typed", z3.BoolVal(True)), ("returns-the-value", z3.BoolVal((ret == [x.t]) if results else (ret == []))), ("nothing-left", z3.BoolVal(not stack))]

        def replay(model, clause, declared=declared, valk=valk):
            from .vm_c import NSLT
            return script("""
                import io, contextlib
                from nsl import Compiler
                import wasmtime
                src = 'export function f(%s a) -> %s { %s }' % ({{pt}}, {{declared}}, 'return a;' if {{hasval}} else 'return;')
                try:
                    with contextlib.redirect_stdout(io.StringIO()):
                        r = Compiler.Compiler().Compile(src, {'wasm': True})
                    out = io.BytesIO(); r.WasmModule.WriteTo(out)
                except BaseException as e:
                    print(src, 'refused:', type(e).__name__, e); raise SystemExit
                try:
                    wasmtime.Module.validate(wasmtime.Engine(), out.getvalue()); print(src, 'valid')
                except Exception as e:
                    print(src); print('wasmtime rejects the emitted module:', str(e)[:200]); print('REPLAY-CONFIRMED')
                """, pt=NSLT[valk or "i"], declared=declared, hasval=valk is not None)

        verify(R, "C06.sem.ReturnInstruction", GW + "::GenerateWasmVisitor.v_ReturnInstruction", run, replay, label=f"declared-{declared},value-{ {'i': 'int', 'f': 'float', None: 'none'}[valk] }")
    # integer constants of ANY magnitude: refused, or an i32.const whose immediate is a valid signed 32-bit immediate with the bit pattern of the
    # constant (an int constant outside the int range, or a uint constant >= 2^32, has no 32-bit representation: it must be refused)
    gc0 = resolve(GW + "::_GenerateConstant")
    for k in ("i", "u"):
        def run_const(ctx, k=k):
            c = ctx.int("c")
            ctx.assume(c.t >= -(2 ** 40))
            ctx.assume(c.t <= 2 ** 40)
            if k == "u":
                ctx.assume(c.t >= 0)
            try:
                from pyvc.sym import FormatTrace
                with shims_w(), FormatTrace():          # (the refusal message formats the constant)
                    ins = gc0(ir.ConstantValue(T(k), c))
            except Exception as e:
                representable = irsem.in_i32(c.t) if k == "i" else z3.And(c.t >= 0, c.t < 2 ** 32)
                return [("refused-only-if-unrepresentable", z3.Not(representable), f"a representable {T(k)} constant was refused: {type(e).__name__}: {e}")]
            opn, args = decode(ins)
            imm = term(args[0]) if args else None
            if opn != "i32.const" or imm is None:
                return [("i32.const", z3.BoolVal(False), f"emitted {opn} {args}")]
            return [("immediate-in-range", z3.And(imm >= -(2 ** 31), imm < 2 ** 31), "i32.const immediate outside the signed 32-bit range (the module does not validate)"),
                    ("same-bit-pattern", (imm - c.t) % (2 ** 32) == 0)]

        def replay_const(model, clause, k=k):
            c = int(model.get("c", 3000000000))
            return script("""
                import io, contextlib
                from nsl import Compiler
                import wasmtime
                src = ('export function f(%s a) -> %s { return (a + %d); }' if {{t}} == 'int' else 'export function f(%s a) -> %s { return (a + uint(%d)); }') % ({{t}}, {{t}}, {{c}})
                try:
                    with contextlib.redirect_stdout(io.StringIO()):
                        r = Compiler.Compiler().Compile(src, {'wasm': True, 'optimize': True})
                    out = io.BytesIO(); r.WasmModule.WriteTo(out)
                except BaseException as e:
                    print(src, 'refused:', type(e).__name__, e)
                    if {{mustaccept}}: print('(this constant has a 32-bit representation: it is inside the backend subset)'); print('REPLAY-CONFIRMED')
                    raise SystemExit
                try:
                    wasmtime.Module.validate(wasmtime.Engine(), out.getvalue()); print(src, 'valid')
                except Exception as e:
                    print(src); print('wasmtime rejects the emitted module:', str(e)[:200]); print('REPLAY-CONFIRMED')
                """, t="int" if k == "i" else "uint", c=c, mustaccept=(clause == "refused-only-if-unrepresentable"))

        verify(R, "C07.const-range", GW + "::_GenerateConstant", run_const, replay_const, label="int" if k == "i" else "uint")
    # constants
    gc = resolve(GW + "::_GenerateConstant")
    c = ir.ConstantValue(ir.IntegerType(), -65)
    i = gc(c)
    R.check("C06.const.int", GW + "::_GenerateConstant", decode(i) == ("i32.const", (-65,)), detail=f"constant -65 emitted as {decode(i)}")
    try:
        i = gc(ir.ConstantValue(ir.FloatType(), 1.5))
        out = __import__("io").BytesIO()
        i.WriteTo(out)
        ok, det = False, f"float constant emitted as {decode(i)} / bytes {out.getvalue().hex()} (f32.const needs a 4-byte IEEE immediate, which the writer cannot produce)"
    except Exception as e:
        ok, det = True, f"refused with {type(e).__name__}"
    R.check("C06.const.float", GW + "::_GenerateConstant", ok, detail=det)


@family("C07.structure", props=["C07", "C06"], functions=[WA + "::Code.AddLocal", WA + "::Code.Encode", WA + "::Local.SetCount", WA + "::Module.WriteTo", GW + "::_ConvertFunctionType", GW + "::_ConvertType",
                                                         GW + "::GenerateWasmVisitor.v_Function", GW + "::GenerateWasmVisitor.Context.OnEnterFunction", GW + "::GenerateWasmVisitor.Context.OnLeaveFunction",
                                                         GW + "::GenerateWasmVisitor.Context.Finalize"],
        assumptions=["local type sequences of length 0-5 over {i32, f32} enumerated completely; functions per module 1-3"])
def c07_structure(R):
    """Code.AddLocal(l) returns the number of locals declared before it, and the groups Encode declares expand to exactly the sequence of added
    local types; _ConvertFunctionType yields only 1.0 value types (void -> no result) or raises; after generating k functions the module has k
    function entries, k code bodies, a type for each, and export i names function index i < k; Module.WriteTo writes the preamble and the
    sections in ascending id order."""
    w = W()
    ir = IR()
    VT = w.ValueType
    for n in range(0, 6):
        for seq in itertools.product((VT.i32, VT.f32), repeat=n):
            c = w.Code()
            idx = [c.AddLocal(w.Local(t)) for t in seq]
            groups = [(l.Count, l.Type) for l in getpriv(c, "Code", "__locals")]
            expanded = [t for cnt, t in groups for _ in range(cnt)]
            ok = idx == list(range(n)) and expanded == list(seq)
            if not ok:
                R.check(f"C07.locals[{''.join('i' if t == VT.i32 else 'f' for t in seq) or '-'}]", WA + "::Code.AddLocal", False,
                        detail=f"added {[t.name for t in seq]}: indices {idx}, declared groups expand to {[t.name for t in expanded]}",
                        replay=script("""
                            import io, contextlib
                            from nsl import Compiler
                            import wasmtime
                            src = 'export function f(int a, float b) -> float { int i = (a + 1); float x = (b + b); int j = (i + a); return x; }'
                            try:
                                with contextlib.redirect_stdout(io.StringIO()):
                                    r = Compiler.Compiler().Compile(src, {'wasm': True})
                                out = io.BytesIO(); r.WasmModule.WriteTo(out)
                            except BaseException as e:
                                print('refused', type(e).__name__, e); raise SystemExit
                            try:
                                wasmtime.Module.validate(wasmtime.Engine(), out.getvalue()); print('valid')
                            except Exception as e:
                                print(src); print('wasmtime rejects the emitted module:', str(e)[:200]); print('REPLAY-CONFIRMED')
                            """))
    R.check("C07.locals.summary", WA + "::Code.AddLocal", True, detail="all local type sequences of length 0-5 (failures are listed individually)")
    # function types
    cft = resolve(GW + "::_ConvertFunctionType")
    cases = {"(int,float)->int": (ir.FunctionType(ir.IntegerType(), collections.OrderedDict([("a", ir.IntegerType()), ("b", ir.FloatType())])), [VT.i32, VT.f32], [VT.i32]),
             "()->float": (ir.FunctionType(ir.FloatType(), collections.OrderedDict()), [], [VT.f32]),
             "(uint)->void": (ir.FunctionType(ir.VoidType(), collections.OrderedDict([("a", ir.IntegerType(unsigned=True))])), [VT.i32], [])}
    for label, (ft, wa, wr) in cases.items():
        try:
            r = cft(ft)
            ok = list(r.Arguments) == wa and list(getpriv(r, "FunctionType", "__returnTypes")) == wr
            det = f"{label}: parameters {[getattr(x, 'name', x) for x in r.Arguments]}, results {[getattr(x, 'name', x) for x in getpriv(r, 'FunctionType', '__returnTypes')]}"
        except Exception as e:
            ok, det = False, f"{label}: raised {type(e).__name__}: {e}"
        R.check(f"C07.types[{label}]", GW + "::_ConvertFunctionType", ok, detail=det)
    for label, t in (("float4", ir.VectorType(ir.FloatType(), 4)), ("int[3]", ir.ArrayType(ir.IntegerType(), [3])), ("float3x3", ir.MatrixType(ir.VectorType(ir.FloatType(), 3), 3)),
                     ("struct", ir.StructureType(collections.OrderedDict([("a", ir.IntegerType())]), name="S"))):
        ft = ir.FunctionType(ir.IntegerType(), collections.OrderedDict([("a", t)]))
        try:
            r = cft(ft)
            ok = all(isinstance(x, VT) and x in (VT.i32, VT.f32) for x in r.Arguments)
            det = f"parameter of type {label} converted to {[type(x).__name__ for x in r.Arguments]} (not a WebAssembly 1.0 value type)"
        except Exception as e:
            ok, det = True, "refused"
        R.check(f"C07.types.non-scalar[{label}]", GW + "::_ConvertType", ok, detail=det)
    # module structure after generating k functions
    NAMES = ["fn0", "@fn0->int`int", "@fn0->int`float"]
    for k in (1, 2, 3):
        m = ir.Module()
        for j in range(k):
            f = m.CreateFunction(NAMES[j], ir.FunctionType(ir.IntegerType(), collections.OrderedDict([("a", ir.IntegerType())] * 1)))
            bb = f.CreateBasicBlock()
            ld = bb.AddInstruction(ir.VariableAccessInstruction(ir.IntegerType(), 0, ir.VariableAccessScope.FUNCTION_ARGUMENT))
            bb.AddInstruction(ir.ReturnInstruction(ld))
        g, vis, ctx = new_gen()
        try:
            vis.Visit(m)
            mod = vis.Finalize()
            types = getpriv(getpriv(mod, "Module", "__typesec"), "TypeSection", "__types")
            funcs = getpriv(getpriv(mod, "Module", "__funcsec"), "FunctionSection", "__indices")
            codes = getpriv(getpriv(mod, "Module", "__codesec"), "CodeSection", "__code")
            exports = getpriv(getpriv(mod, "Module", "__exportsec"), "ExportSection", "__exports")
            exp = [(getpriv(e, "Export", "__name"), getpriv(e, "Export", "__index")) for e in exports]
            ok = len(funcs) == k and len(codes) == k and all(0 <= t < len(types) for t in funcs) and exp == [(NAMES[j], j) for j in range(k)] and len({n for n, _ in exp}) == k
            det = f"{k} function(s): {len(types)} types, function section {list(funcs)}, {len(codes)} bodies, exports {exp}"
        except Exception as e:
            ok, det = False, f"raised {type(e).__name__}: {e}"
        R.check(f"C07.counts[{k}-functions]", GW + "::GenerateWasmVisitor.v_Function", ok, detail=det,
                replay=script("""
                    import io, contextlib
                    from nsl import Compiler
                    import wasmtime
                    src = {{src}}
                    with contextlib.redirect_stdout(io.StringIO()):
                        r = Compiler.Compiler().Compile(src, {'wasm': True})
                    out = io.BytesIO(); r.WasmModule.WriteTo(out)
                    try:
                        wasmtime.Module.validate(wasmtime.Engine(), out.getvalue()); print('valid')
                    except Exception as e:
                        print(src); print('wasmtime rejects the emitted module:', str(e)[:200]); print('REPLAY-CONFIRMED')
                    """, src="export function f(int a, int b) -> int { return (a + b); }" if k == 1 else
                    "function g(int a) -> int { return (a + 1); }\nfunction g(float a) -> float { return (a + a); }\nexport function f(int a, int b) -> int { return (a + b); }"))
    # every function's declared type is ITS signature: parameters and results (functions that agree in the parameters but not in the result
    # must not share a type entry), for every pair and triple of signatures over {int, float} parameters and {int, float, void} results
    sigs = [(ps, r) for ps in ((), ("i",), ("f",), ("i", "f")) for r in ("i", "f", "v")]
    RT_ = {"i": ir.IntegerType, "f": ir.FloatType, "v": ir.VoidType}
    for combo in itertools.chain(itertools.permutations(sigs, 2), [(sigs[0], sigs[1], sigs[2]), (sigs[5], sigs[3], sigs[4]), (sigs[9], sigs[11], sigs[10])]):
        m = ir.Module()
        want = []
        for j, (ps, r) in enumerate(combo):
            f = m.CreateFunction(f"fn{j}", ir.FunctionType(RT_[r](), collections.OrderedDict((f"a{q}", RT_[t]()) for q, t in enumerate(ps))))
            bb = f.CreateBasicBlock()
            if r == "v":
                bb.AddInstruction(ir.ReturnInstruction())
            elif r in ps:
                ld = bb.AddInstruction(ir.VariableAccessInstruction(RT_[r](), ps.index(r), ir.VariableAccessScope.FUNCTION_ARGUMENT))
                bb.AddInstruction(ir.ReturnInstruction(ld))
            else:
                cst = f.CreateConstant(ir.IntegerType(), 1)
                bb.AddInstruction(ir.ReturnInstruction(cst))
            want.append(([VT.i32 if t == "i" else VT.f32 for t in ps], [] if r == "v" else [VT.i32 if r == "i" else VT.f32]))
        g, vis, ctx = new_gen()
        label = " ; ".join(f"({','.join(ps)})->{r}" for ps, r in combo)
        try:
            vis.Visit(m)
            mod = vis.Finalize()
        except Exception as e:
            # a refusal is fine here (e.g. a float function returning the int constant 1); what must not happen is a module whose types are wrong
            R.ok(f"C07.signatures[{label}]", GW + "::GenerateWasmVisitor.v_Function", detail=f"refused: {type(e).__name__}")
            continue
        types = getpriv(getpriv(mod, "Module", "__typesec"), "TypeSection", "__types")
        funcs = getpriv(getpriv(mod, "Module", "__funcsec"), "FunctionSection", "__indices")
        got = []
        for t in funcs:
            ft = types[t] if 0 <= t < len(types) else None
            got.append((list(ft.Arguments), list(getpriv(ft, "FunctionType", "__returnTypes"))) if ft is not None else None)
        R.check(f"C07.signatures[{label}]", GW + "::GenerateWasmVisitor.v_Function", got == want,
                detail=f"declared types of the functions {[(None if x is None else ([a.name for a in x[0]], [a.name for a in x[1]])) for x in got]}, their signatures {[([a.name for a in x[0]], [a.name for a in x[1]]) for x in want]}",
                replay=script("""
                    import io, contextlib
                    from nsl import Compiler
                    import wasmtime
                    src = 'export function f0(int a) -> int { return (a + a); }\nexport function f1(int a) -> void { }\nexport function f2(int a) -> int { return a; }'
                    with contextlib.redirect_stdout(io.StringIO()):
                        r = Compiler.Compiler().Compile(src, {'wasm': True})
                    out = io.BytesIO(); r.WasmModule.WriteTo(out)
                    try:
                        wasmtime.Module.validate(wasmtime.Engine(), out.getvalue())
                        m = wasmtime.Module(wasmtime.Engine(), out.getvalue())
                        tys = {e.name: (len(e.type.params), len(e.type.results)) for e in m.exports}
                        print(src, tys)
                        if tys != {'f0': (1, 1), 'f1': (1, 0), 'f2': (1, 1)}: print('REPLAY-CONFIRMED')
                    except Exception as e:
                        print(src); print('wasmtime rejects the emitted module:', str(e)[:200]); print('REPLAY-CONFIRMED')
                    """))
    # writers are read-only: writing a module twice gives the same bytes and leaves every object as it was
    import io as _io
    c = w.Code()
    c.AddLocal(w.Local(VT.i32))
    c.AddLocal(w.Local(VT.f32))
    c.AddInstruction(w.Instruction(w.opcodes["local.get"], (0,)))
    c.AddInstruction(w.Instruction(w.opcodes["return"]))
    n_ins = len(getpriv(c, "Code", "__instructions"))
    b1 = bytes(c.Encode())
    b2 = bytes(c.Encode())
    R.check("C07.writers.read-only[Code.Encode]", WA + "::Code.Encode", b1 == b2 and len(getpriv(c, "Code", "__instructions")) == n_ins and b1.endswith(b"\x0b") and not b1.endswith(b"\x0b\x0b"),
            detail=f"encoding a body twice: {b1.hex()} then {b2.hex()}; instruction count {n_ins} -> {len(getpriv(c, 'Code', '__instructions'))}")
    mod = w.Module()
    ti = mod.AddFunctionType(w.FunctionType([VT.i32], [VT.i32]))
    mod.AddFunction(ti)
    mod.AddExport(w.Export(0, "f"))
    mod.AddCode(c)
    mod.AddTable(w.Table(0))
    o1, o2 = _io.BytesIO(), _io.BytesIO()
    mod.WriteTo(o1)
    mod.WriteTo(o2)
    R.check("C07.writers.read-only[Module.WriteTo]", WA + "::Module.WriteTo", o1.getvalue() == o2.getvalue(), detail=f"writing the same module twice gives different bytes ({len(o1.getvalue())} vs {len(o2.getvalue())})",
            replay=script("""
                import io, contextlib
                from nsl import Compiler
                import wasmtime
                src = 'export function f(int a, int b) -> int { return (a + b); }'
                with contextlib.redirect_stdout(io.StringIO()):
                    r = Compiler.Compiler().Compile(src, {'wasm': True})
                outs = []
                for _ in range(3):
                    o = io.BytesIO(); r.WasmModule.WriteTo(o); outs.append(o.getvalue())
                ok = True
                for k, d in enumerate(outs):
                    try:
                        wasmtime.Module.validate(wasmtime.Engine(), d)
                    except Exception as e:
                        ok = False; print('emission', k + 1, 'invalid:', str(e)[:120])
                print('sizes of three emissions of one compiled module:', [len(d) for d in outs])
                if not ok or len(set(outs)) != 1: print('REPLAY-CONFIRMED')
                """))
    # section order / preamble: cut the section writers by recorders
    mod = w.Module()
    order = []
    for attr in ("typesec", "importsec", "funcsec", "tablesec", "memsec", "globalsec", "exportsec", "startsec", "elemsec", "codesec", "datasec"):
        sec = getpriv(mod, "Module", "__" + attr)
        sec.WriteTo = (lambda out, sec=sec: order.append(type(sec).sectionId))
    import io
    out = io.BytesIO()
    mod.WriteTo(out)
    R.check("C07.preamble", WA + "::Module.WriteTo", out.getvalue() == b"\x00asm\x01\x00\x00\x00", detail=f"preamble {out.getvalue().hex()}")
    R.check("C07.section-order", WA + "::Module.WriteTo", order == sorted(order) and len(set(order)) == len(order) and len(order) == 11, detail=f"section writers called in the order {order}")


N_SUBSET_PROGRAMS = 10       # the leading programs of _wasm_programs() that the backend must translate (C06: "must agree")


def _wasm_programs():
    progs = []
    ops = ["+", "-", "*"]
    for o in ops:
        progs.append((f"export function f(int a, int b) -> int {{ return (a {o} b); }}", [(3, 5), (-7, 2), (2147483647, 1), (-2147483648, -1), (65, 64)]))
    progs.append(("export function f(int a, int b) -> int { return ((a + 64) * (b - 8192)); }", [(0, 0), (1, 2), (-65, 8191)]))
    progs.append(("export function f(int a, int b) -> int { return (a < b); }", [(1, 2), (2, 1), (-1, 0), (0, -1)]))
    progs.append(("export function f(int a, int b) -> int { return (a > b); }", [(1, 2), (2, 1), (-1, 0), (0, -1)]))
    progs.append(("export function f(int a, int b) -> int { return (a == b); }", [(1, 1), (2, 1)]))
    progs.append(("export function f(int a, int b) -> int { return (a / b); }", [(7, 2), (-7, 2), (7, -2), (6, 3)]))
    progs.append(("export function f(float a, float b) -> float { return ((a + b) * a); }", [(1.5, 2.0), (0.5, -4.0)]))
    progs.append(("export function f(float a, float b) -> float { return (a / b); }", [(1.0, 4.0), (3.0, 2.0)]))
    progs.append(("export function f(int a, float b) -> float { return (b + b); }", [(1, 2.0)]))
    progs.append(("export function g(int a) -> int { return (a + 1); }\nexport function f(int a, int b) -> int { return (a - b); }", [(5, 3)]))
    progs.append(("export function f(int a, int b) -> int { return (a + 134217793); }", [(0, 0), (-134217793, 0)]))
    progs.append(("export function f(int a, int b) -> int { return (a - 123456); }", [(0, 0)]))
    progs.append(("export function f(float a, float b) -> int { return (a < b); }", [(1.0, 2.0)]))
    progs.append(("export function f(int a, int b) -> int { int c = (a + b); return c; }", [(1, 2)]))
    progs.append(("export function f(int a, int b) -> int { if (a > b) { return a; } return b; }", [(1, 2), (3, 2)]))
    progs.append(("export function f(int a, int b) -> void { }", [(1, 2)]))
    progs.append(("export function f(float4 a, int b) -> float4 { return a; }", []))
    progs.append(("function h(int a) -> int { return (a * 2); }\nexport function f(int a, int b) -> int { return h(a); }", [(4, 0)]))
    return progs


@family("C06.e2e", props=["C06", "C07"], functions=[GW + "::GenerateWasmVisitor.v_Function", WA + "::Module.WriteTo", "nsl.Compiler::Compiler.Compile"],
        assumptions=["BOUNDED stand-in (never counted as proved): a fixed grid of programs x inputs; every module the compiler emits without an error is validated by wasmtime 48 (an independent validator) and executed, and must agree with the VM"])
def c06_e2e(R):
    """Bounded end-to-end check: each program either fails to compile with the wasm option (refusal) or yields a module that wasmtime validates and
    whose exported function returns what the VM returns."""
    import io, contextlib
    try:
        import wasmtime
    except Exception as e:
        R.bounded("C06.e2e", GW, True, 0, detail=f"wasmtime not importable ({e}); bounded family skipped")
        return
    from nsl import Compiler, LinearIR, VM
    bad = []
    n = 0
    for src, inputs in _wasm_programs():
        n += 1
        try:
            with contextlib.redirect_stdout(io.StringIO()):
                r = Compiler.Compiler().Compile(src, {"wasm": True})
            out = io.BytesIO()
            r.WasmModule.WriteTo(out)
            data = out.getvalue()
        except BaseException as e:
            # refused -- acceptable outside the backend's subset only (the first 13 programs are inside it: int / float arithmetic and
            # comparisons of the opcode table on parameters and int constants, straight-line, scalar result)
            if n <= N_SUBSET_PROGRAMS:
                bad.append((src, f"a program of the backend's scalar straight-line subset was refused: {type(e).__name__}: {str(e)[:120]}"))
            continue
        try:
            wasmtime.Module.validate(wasmtime.Engine(), data)
        except Exception as e:
            bad.append((src, f"emitted module is invalid: {str(e)[:140]}"))
            continue
        lk = LinearIR.Linker()
        lk.AddModule(r.IRModule)
        prog = lk.Link()
        try:
            st = wasmtime.Store()
            inst = wasmtime.Instance(st, wasmtime.Module(st.engine, data), [])
            fn = inst.exports(st)["f"]
        except Exception as e:
            bad.append((src, f"the valid module cannot be instantiated / has no export `f`: {type(e).__name__}: {str(e)[:120]}"))
            continue
        for a, b in inputs:
            try:
                want = VM.VirtualMachine(prog).Invoke("f", a=a, b=b)
            except Exception as e:
                continue
            try:
                got = fn(st, a, b)
            except Exception as e:
                got = f"trap/err {str(e)[:60]}"
            if isinstance(want, int) and not isinstance(want, bool):
                want = ((want + 2 ** 31) % 2 ** 32) - 2 ** 31
            if got != want and not (isinstance(want, float) and isinstance(got, float) and abs(got - want) <= 1e-6 * max(1.0, abs(want))):
                bad.append((src, f"f({a}, {b}): VM {want}, wasm {got}"))
                break
    for k, (src, why) in enumerate(bad[:30]):
        R.bounded(f"C06.e2e[{src.splitlines()[-1][:70]}]", GW + "::GenerateWasmVisitor", False, 1, detail=f"{why}\n{src}",
                  replay=script("""
                      import io, contextlib
                      from nsl import Compiler
                      import wasmtime
                      src = {{src}}
                      with contextlib.redirect_stdout(io.StringIO()):
                          r = Compiler.Compiler().Compile(src, {'wasm': True})
                      out = io.BytesIO(); r.WasmModule.WriteTo(out)
                      print(src); print({{why}})
                      print('REPLAY-CONFIRMED')
                      """, src=src, why=why))
    if not bad:
        R.bounded("C06.e2e", GW + "::GenerateWasmVisitor", True, n, detail=f"{n} programs: refused, or valid and agreeing with the VM")


@family("C06.pre", props=["C06", "C09"], functions=["nsl.types::ResolveBinaryExpressionType", "nsl.passes.AddImplicitCasts::AddImplicitCastVisitor.v_BinaryExpression", "nsl.passes.LowerToIR::LowerToIRVisitor.v_BinaryExpression"],
        assumptions=["scalar operand types enumerated completely: {int, uint, float} x {int, uint, float} x the 13 binary operators, both optimisation settings"])
def c06_pre(R):
    """Precondition of the per-handler simulation C06.sem (which is stated for operands of ONE type): in every compiled module both operands of a
    scalar binary instruction have the same IR type -- a mixed pair went through the implicit cast to the common type (the WebAssembly opcode,
    including its signedness suffix, is selected from a single operand type)."""
    from .vm_c import NSL_OP, NSLT
    from . import types_c as tc
    ir = IR()
    for opn, sp in NSL_OP.items():
        for k0, k1 in itertools.product("iuf", repeat=2):
            for opt in (False, True):
                src = f"export function f({NSLT[k0]} a, {NSLT[k1]} b) -> float {{ float r; r = (a {sp} b); return r; }}"
                r, exc = tc.compile_quiet(src, {"optimize": True} if opt else {})
                oid = f"C06.pre[{opn},{NSLT[k0]},{NSLT[k1]}{',optimize' if opt else ''}]"
                if r is None:
                    R.ok(oid, "nsl.types::ResolveBinaryExpressionType", detail="rejected by the front end")
                    continue
                bins = [i for f in r.IRModule.Functions.values() for bb in f.BasicBlocks for i in bb.Instructions if isinstance(i, ir.BinaryInstruction)]
                bad = None
                for b in bins:
                    refs = list(b.Uses)
                    vals = b._BinaryInstruction__values
                    t0, t1 = vals[0].Type, vals[1].Type
                    same = type(t0) is type(t1) and getattr(t0, "Unsigned", None) == getattr(t1, "Unsigned", None)
                    if not same:
                        bad = (str(t0), str(t1))
                rp = None
                if bad:
                    iscmp = opn.startswith("CMP") or opn.startswith("LG")
                    rp = script("""
                        import io, contextlib
                        from nsl import Compiler, LinearIR, VM
                        import wasmtime
                        src = 'export function f(%s a, %s b) -> %s { return (a %s b); }' % ({{t0}}, {{t1}}, {{rt}}, {{op}})
                        bad = False
                        try:
                            with contextlib.redirect_stdout(io.StringIO()):
                                r = Compiler.Compiler().Compile(src, {'wasm': True, 'optimize': True})
                            out = io.BytesIO(); r.WasmModule.WriteTo(out)
                        except BaseException as e:
                            print(src, 'refused:', type(e).__name__, e); raise SystemExit
                        l = LinearIR.Linker(); l.AddModule(r.IRModule)
                        for a, b in ((5, -1), (-1, 5), (7, 2), (-7, 2), (3, 3)):
                            if ({{t0}} == 'uint' and a < 0) or ({{t1}} == 'uint' and b < 0): continue
                            want = VM.VirtualMachine(l.Link()).Invoke('f', a=a, b=b)
                            try:
                                st = wasmtime.Store(); inst = wasmtime.Instance(st, wasmtime.Module(st.engine, out.getvalue()), [])
                                got = inst.exports(st)['f'](st, a, b)
                            except Exception as e:
                                got = 'wasmtime: ' + str(e)[:160]
                            print(src, 'f(%r, %r): VM' % (a, b), want, 'wasm', got)
                            bad = bad or got != want
                        if bad: print('REPLAY-CONFIRMED')
                        """, t0=NSLT[k0], t1=NSLT[k1], rt="int" if (iscmp or "f" not in (k0, k1)) else "float", op=sp)
                R.check(oid, "nsl.passes.AddImplicitCasts::AddImplicitCastVisitor.v_BinaryExpression", bins and bad is None,
                        detail=f"{src}: the binary instruction has operands of types {bad}" if bad else f"{src}: no binary instruction emitted", replay=rp)



@family("C07.function-end", props=["C07", "C06"], functions=[GW + "::GenerateWasmVisitor.v_Function", GW + "::GenerateWasmVisitor.v_ReturnInstruction"],
        assumptions=["function shapes enumerated: result type {int, float, void} x body {empty, expression statement only, expression statement then return, return only}; validity is decided by wasmsem on the emitted body (stack at the end of the body must equal the declared results) and, where importable, by wasmtime"])
def c07_function_end(R):
    """A function body that can reach its end must leave exactly the declared results on the stack: a function with a result that falls off its
    end (no return) is refused, never emitted."""
    import io, contextlib
    from nsl import Compiler
    try:
        import wasmtime
    except Exception:
        wasmtime = None
    bodies = {"empty": "", "expr-only": "(a + a);", "expr-then-return": "(a + a); return {r};", "return-only": "return {r};"}
    for rt in ("int", "float", "void"):
        for bname, body in bodies.items():
            pt = "float" if rt == "float" else "int"
            b = body.replace("return {r};", "return;" if rt == "void" else "return a;")
            src = f"export function f({pt} a) -> {rt} {{ {b} }}"
            try:
                with contextlib.redirect_stdout(io.StringIO()):
                    r = Compiler.Compiler().Compile(src, {"wasm": True})
                out = io.BytesIO()
                r.WasmModule.WriteTo(out)
                data = out.getvalue()
            except BaseException as e:
                must = rt == "void" or "return" in b
                R.check(f"C07.function-end[{rt},{bname}]", GW + "::GenerateWasmVisitor.v_Function", not must or bname == "expr-then-return" and False or not must,
                        detail=f"refused ({type(e).__name__}: {str(e)[:80]}): {src}" + ("  -- but this function is inside the backend's subset" if must else ""))
                continue
            ok, det = True, "emitted"
            if wasmtime is not None:
                try:
                    wasmtime.Module.validate(wasmtime.Engine(), data)
                except Exception as e:
                    ok, det = False, f"wasmtime rejects the emitted module: {str(e)[:160]}"
            R.check(f"C07.function-end[{rt},{bname}]", GW + "::GenerateWasmVisitor.v_Function", ok, detail=f"{det}: {src}",
                    replay=script("""
                        import io, contextlib
                        from nsl import Compiler
                        import wasmtime
                        src = {{src}}
                        with contextlib.redirect_stdout(io.StringIO()):
                            r = Compiler.Compiler().Compile(src, {'wasm': True})
                        out = io.BytesIO(); r.WasmModule.WriteTo(out)
                        try:
                            wasmtime.Module.validate(wasmtime.Engine(), out.getvalue()); print(src, 'valid')
                        except Exception as e:
                            print(src); print('wasmtime rejects the emitted module:', str(e)[:200]); print('REPLAY-CONFIRMED')
                        """, src=src))


@family("C06.chain", props=["C06"], functions=[GW + "::GenerateWasmVisitor.v_BinaryInstruction", "nsl.VM::ExecutionContext.__Execute"],
        assumptions=["wasmsem (see C06.sem); inputs in the signed 32-bit range, no division by zero"])
def c06_chain(R):
    """Two chained integer instructions: the module's result equals the VM's result as a 32-bit value."""
    ir = IR()
    # A chain of two instructions: the simulation relation of the single steps is "wasm local == VM value wrapped to 32 bits".  It is carried by
    # + - * (ring homomorphism) but NOT by / < > == when the VM's intermediate value has left the 32-bit range -- the VM computes with
    # unbounded integers.  (KNOWN FINDING D24 on the pinned tree.)
    for second in ("DIV", "CMP_LT"):
        def run_chain(ctx, second=second):
            f, bb = ir_c.fresh_function()
            v0, v1, v2 = ir_c.val(bb, T("i")), ir_c.val(bb, T("i")), ir_c.val(bb, T("i"))
            m = bb.AddInstruction(ir.BinaryInstruction(ir.OpCode.MUL, T("i"), v0, v1))
            d = bb.AddInstruction(ir.BinaryInstruction(ir.OpCode[second], T("i"), m, v2))
            g, vis, gctx = new_gen()
            gctx.OnEnterFunction("f")
            gctx.SetReferenceToLocalMap({v0.Reference: 0, v1.Reference: 1, v2.Reference: 2, m.Reference: 3, d.Reference: 4})
            a, b, c = ctx.int("a"), ctx.int("b"), ctx.int("c")
            for x in (a, b, c):
                ctx.assume(irsem.in_i32(x.t))
            ctx.assume(c != 0)
            vis.v_Generic(m, gctx)
            vis.v_Generic(d, gctx)
            locs, stack, ret = run_wasm(emitted(gctx), [a.t, b.t, c.t, None, None], [I32] * 5)
            prod = a.t * b.t
            ctx.assume(z3.Not(z3.And(wrap32(prod) == -(2 ** 31), c.t == -1)))
            want = irsem.binary(second, prod, c.t, True)
            return [("agrees-with-VM", locs[4] == wrap32(want), "the VM computes the intermediate product with unbounded integers, the module wraps it to 32 bits")]

        def replay_chain(model, clause, second=second):
            a, b, c = int(model.get("a", 65536)), int(model.get("b", 65536)), int(model.get("c", 2))
            return script("""
                import io, contextlib
                from nsl import Compiler, LinearIR, VM
                import wasmtime
                src = 'export function f(int a, int b, int c) -> int { return ((a * b) %s c); }' % {{op}}
                with contextlib.redirect_stdout(io.StringIO()):
                    r = Compiler.Compiler().Compile(src, {'wasm': True})
                out = io.BytesIO(); r.WasmModule.WriteTo(out)
                l = LinearIR.Linker(); l.AddModule(r.IRModule)
                a, b, c = {{a}}, {{b}}, {{c}}
                want = VM.VirtualMachine(l.Link()).Invoke('f', a=a, b=b, c=c)
                st = wasmtime.Store(); inst = wasmtime.Instance(st, wasmtime.Module(st.engine, out.getvalue()), [])
                got = inst.exports(st)['f'](st, a, b, c)
                w32 = ((want + 2**31) % 2**32) - 2**31
                print(src, 'f(%d, %d, %d): VM' % (a, b, c), want, '(as 32 bits: %d)' % w32, 'wasm', got)
                if got != w32: print('REPLAY-CONFIRMED')
                """, op="/" if second == "DIV" else "<", a=a, b=b, c=c)

        verify(R, "C06.sem.chain", GW + "::GenerateWasmVisitor.v_BinaryInstruction", run_chain, replay_chain, label=f"MUL;{second}")


def _wasm_split(data):
    """Minimal decoder of an emitted module: {section id: payload}, and from them the function signatures and the code bodies."""
    def u(pos):
        v = 0
        k = 0
        while True:
            b = data[pos]
            pos += 1
            v |= (b & 0x7F) << (7 * k)
            k += 1
            if not b & 0x80:
                return v, pos
    assert data[:8] == b"\0asm\x01\0\0\0"
    pos = 8
    secs = {}
    while pos < len(data):
        sid = data[pos]
        size, pos = u(pos + 1)
        secs[sid] = (pos, pos + size)
        pos += size
    types = []
    if 1 in secs:
        p, _e = secs[1]
        n, p = u(p)
        for _ in range(n):
            assert data[p] == 0x60
            na, p = u(p + 1)
            args = bytes(data[p:p + na])
            p += na
            nr, p = u(p)
            res = bytes(data[p:p + nr])
            p += nr
            types.append((args, res))
    sigs = []
    if 3 in secs:
        p, _e = secs[3]
        n, p = u(p)
        for _ in range(n):
            ti, p = u(p)
            sigs.append(types[ti])
    bodies = []
    if 10 in secs:
        p, _e = secs[10]
        n, p = u(p)
        for _ in range(n):
            sz, p = u(p)
            bodies.append(bytes(data[p:p + sz]))
            p += sz
    exports = {}
    if 7 in secs:
        p, _e = secs[7]
        n, p = u(p)
        for _ in range(n):
            ln, p = u(p)
            nm = bytes(data[p:p + ln]).decode("utf-8", "replace")
            p += ln
            kind = data[p]
            idx, p = u(p + 1)
            exports[nm] = (kind, idx)
    return sigs, bodies, exports


_INDEP_FUNCS = [
    ("g1", "int", "int", "return (a + 5);"), ("g2", "int", "int", "return (a + 7);"), ("g3", "int", "int", "return ((a * b) - 3);"),
    ("g4", "int", "int", "return (a < 9);"), ("g5", "int", "int", "return (a == 7);"), ("g6", "float", "float", "return (a * b);"),
    ("g7", "int", "int", "return 11;"), ("g8", "int", "int", "return (a / 2);"), ("g9", "int", "void", ""),
]


@family("C06.functions-independent", props=["C06", "C07"], functions=[GW + "::GenerateWasmVisitor.v_Function", GW + "::GenerateWasmVisitor.__PushValueOntoStack", GW + "::GenerateWasmVisitor.Context.OnEnterFunction",
                                                                      WA + "::Module.AddFunctionType", WA + "::Module.AddCode"],
        assumptions=["function shapes enumerated: 9 functions of the backend's subset (constants that share a position but not a value, comparisons, a float function, a constant function, a void function), "
                     "all ordered pairs and two triples in one module, with and without optimisation; the bodies are cut out of the emitted binary by a decoder of mine",
                     "a body that differs from the stand-alone one is only a failure if wasmtime (when importable) shows it disagreeing with the VM on the input grid; without wasmtime it is undecided"])
def c06_functions_independent(R):
    """The code emitted for a function depends on that function only: in a module of several functions every function has the signature and
    (modulo what wasmtime shows to be equivalent) the body it has when it is compiled alone -- so C06.sem, proved per function, carries over to
    modules.  State of the generator that survives from one function to the next (memo tables, counters, the stack picture) breaks this."""
    import io, contextlib, itertools
    from nsl import Compiler, LinearIR, VM
    try:
        import wasmtime
    except Exception:
        wasmtime = None

    def text(fn):
        name, pt, rt, body = fn
        return f"export function {name}({pt} a, {pt} b) -> {rt} {{ {body} }}"

    def build(fns, opt):
        src = "\n".join(text(f) for f in fns)
        with contextlib.redirect_stdout(io.StringIO()):
            r = Compiler.Compiler().Compile(src, {"wasm": True, "optimize": opt})
        out = io.BytesIO()
        r.WasmModule.WriteTo(out)
        return src, r, out.getvalue()

    grid = [(-3, 2), (0, 0), (7, 5), (9, 7), (2147483647, 1)]

    def agrees(src, r, data, name, pt):
        lk = LinearIR.Linker()
        lk.AddModule(r.IRModule)
        vm = VM.VirtualMachine(lk.Link())
        st = wasmtime.Store()
        inst = wasmtime.Instance(st, wasmtime.Module(st.engine, data), [])
        fn = inst.exports(st)[name]
        for a, b in grid:
            if pt == "float":
                a, b = float(a % 100), float(b)
            want = vm.Invoke(name, a=a, b=b)
            got = fn(st, a, b)
            if isinstance(want, int) and not isinstance(want, bool):
                want = ((want + 2 ** 31) % 2 ** 32) - 2 ** 31
            if got != want and not (isinstance(want, float) and isinstance(got, float) and abs(got - want) <= 1e-6 * max(1.0, abs(want))):
                return f"{name}({a}, {b}): VM {want}, wasm {got}"
        return None

    for opt in (False, True):
        alone = {}
        for f in _INDEP_FUNCS:
            src, r, data = build([f], opt)
            sigs, bodies, exports = _wasm_split(data)
            alone[f[0]] = (sigs[0], bodies[0])
        combos = [list(p) for p in itertools.permutations(_INDEP_FUNCS, 2)] + [[_INDEP_FUNCS[0], _INDEP_FUNCS[1], _INDEP_FUNCS[6]], [_INDEP_FUNCS[8], _INDEP_FUNCS[3], _INDEP_FUNCS[5]]]
        bad, und = [], []
        n = 0
        for fns in combos:
            n += 1
            try:
                src, r, data = build(fns, opt)
            except BaseException as e:
                if isinstance(e, KeyboardInterrupt):
                    raise
                continue          # refused: C06 allows a refusal ("agrees with the VM or refuses")
            sigs, bodies, exports = _wasm_split(data)
            for f in fns:
                kind_idx = exports.get(f[0])
                if kind_idx is None or kind_idx[0] != 0 or kind_idx[1] >= len(bodies):
                    bad.append((" + ".join(g[0] for g in fns), f"no function export `{f[0]}` with a body", src))
                    continue
                k = kind_idx[1]
                if sigs[k] != alone[f[0]][0]:
                    bad.append((" + ".join(g[0] for g in fns), f"`{f[0]}` has signature {sigs[k]} in the module, {alone[f[0]][0]} alone", src))
                elif bodies[k] != alone[f[0]][1]:
                    if wasmtime is None:
                        und.append((" + ".join(g[0] for g in fns), f"`{f[0]}`: body {bodies[k].hex()} in the module, {alone[f[0]][1].hex()} alone; no wasmtime to compare behaviour", src))
                    else:
                        try:
                            why = agrees(src, r, data, f[0], f[1])
                        except BaseException as e:
                            why = f"module does not instantiate / run: {type(e).__name__}: {str(e)[:100]}"
                        if why:
                            bad.append((" + ".join(g[0] for g in fns), f"`{f[0]}`: body {bodies[k].hex()} in the module, {alone[f[0]][1].hex()} alone, and {why}", src))
        for combo, why, src in bad[:12]:
            R.check(f"C06.functions-independent[{combo},{'opt' if opt else 'plain'}]", GW + "::GenerateWasmVisitor.v_Function", False, detail=f"{why}\n{src}",
                    replay=script("""
                        import io, contextlib
                        from nsl import Compiler, LinearIR, VM
                        import wasmtime
                        src = {{src}}; opt = {{opt}}
                        with contextlib.redirect_stdout(io.StringIO()):
                            r = Compiler.Compiler().Compile(src, {'wasm': True, 'optimize': opt})
                        out = io.BytesIO(); r.WasmModule.WriteTo(out)
                        lk = LinearIR.Linker(); lk.AddModule(r.IRModule); vm = VM.VirtualMachine(lk.Link())
                        try:
                            st = wasmtime.Store(); inst = wasmtime.Instance(st, wasmtime.Module(st.engine, out.getvalue()), [])
                        except Exception as e:
                            print(src); print('invalid module:', str(e)[:200]); print('REPLAY-CONFIRMED'); raise SystemExit
                        for name in [l.split('(')[0].split()[-1] for l in src.splitlines()]:
                            isf = ('function ' + name + '(float') in src
                            for a, b in ((-3, 2), (0, 0), (7, 5), (9, 7)):
                                if isf: a, b = float(a), float(b)
                                want = vm.Invoke(name, a=a, b=b)
                                try:
                                    got = inst.exports(st)[name](st, a, b)
                                except Exception as e:
                                    got = 'error ' + str(e)[:80]
                                if got != want and not (isinstance(want, float) and isinstance(got, float) and abs(got - want) < 1e-5):
                                    print(src); print(name, (a, b), 'VM', want, 'wasm', got); print('REPLAY-CONFIRMED'); raise SystemExit
                        print('agree')
                        """, src=src, opt=opt))
        for combo, why, src in und[:5]:
            R.undecided(f"C06.functions-independent[{combo},{'opt' if opt else 'plain'}]", GW + "::GenerateWasmVisitor.v_Function", f"{why}\n{src}")
        if not bad and not und:
            for fns in combos:
                R.check(f"C06.functions-independent[{' + '.join(f[0] for f in fns)},{'opt' if opt else 'plain'}]", GW + "::GenerateWasmVisitor.v_Function", True)
