"""E2E.module-composition: every function of a module is compiled as it is when it is compiled without the other functions.

The obligations that put one function, one visitor or one context under contract run it in a fresh state; memo tables and other state that
lives as long as a pass object (one per compilation) are filled by the functions that come earlier in the module.  This family composes
look-alike program blocks pairwise and compares, per function, the IR of the composed module with the IR of the block compiled alone."""
from __future__ import annotations

import itertools

from pyvc.core import family
from pyvc.util import script
from .types_c import compile_quiet

# (name, source block, exported entry, sample argument lists).  Blocks are chosen to look alike in what a coarse key would keep: the same masks on
# vectors of different sizes, arrays that agree in some dimensions, overloads that differ in one parameter type, literals next to int / uint / float.
BLOCKS = [
    ("scale-fi", "function scale(float v, int n) -> int { return n; }\nexport function fa(int a) -> int { return scale(1.5, a); }", "fa", [dict(a=4)]),
    ("scale-ii", "function scale(int v, int n) -> int { return v * n; }\nexport function fb(int a) -> int { return scale(a, 3); }", "fb", [dict(a=4)]),
    ("scale-if", "function scale(int v, float n) -> int { return v + 1; }\nexport function fc(int a) -> int { return scale(a, 2.5); }", "fc", [dict(a=4)]),
    ("arr-234", "export function ga(int a) -> int { int[2][3][4] p; p[1][2][3] = a; return p[1][2][3] + p[0][0][0]; }", "ga", [dict(a=7)]),
    ("arr-236", "export function gb(int a) -> int { int[2][3][6] q; q[1][2][5] = a; return q[1][2][5] + q[1][2][3]; }", "gb", [dict(a=7)]),
    ("arr-24", "export function gc(int a) -> int { int[2][4] r; r[1][3] = a; return r[1][3]; }", "gc", [dict(a=7)]),
    ("swz-4", "export function ha(float4 v) -> float { float2 t = v.wz; return t.x + v.w; }", "ha", [dict(v=[1.0, 2.0, 3.0, 4.0])]),
    ("swz-3", "export function hb(float3 v) -> float { float2 t = v.zy; return t.x + v.z; }", "hb", [dict(v=[1.0, 2.0, 3.0])]),
    ("swz-i3", "export function hc(int3 v) -> int { int2 t = v.zy; return t.x + v.z; }", "hc", [dict(v=[1, 2, 3])]),
    ("lit-int", "export function ka(int a) -> int { int b = a + 1; return b * 2 - 70; }", "ka", [dict(a=5)]),
    ("lit-uint", "export function kb(uint a) -> uint { uint b = a + 1; return b * 2; }", "kb", [dict(a=5)]),
    ("lit-float", "export function kc(float a) -> float { float b = a + 1; return b * 2 - 70; }", "kc", [dict(a=5.5)]),
    ("loop-break", "export function la(int n) -> int { int s = 0; for (int i = 0; i < 10; ++i) { if (i >= n) { break; } s = s + i; } return s; }", "la", [dict(n=4)]),
    ("loop-cont", "export function lb(int n) -> int { int s = 0; int i = 0; while (i < n) { i = i + 1; if (i == 2) { continue; } s = s + i; } return s; }", "lb", [dict(n=5)]),
    ("mat-3", "export function ma(float3x3 m, float3 v) -> float { float3 r = m[1]; return r.y + v.x; }", "ma", [dict(m=[[1.0, 2.0, 3.0], [4.0, 5.0, 6.0], [7.0, 8.0, 9.0]], v=[1.0, 2.0, 3.0])]),
    ("mat-4", "export function mb(float4x4 m, float4 v) -> float { float4 r = m[1]; return r.y + v.x; }", "mb", [dict(m=[[1.0, 2.0, 3.0, 4.0]] * 4, v=[1.0, 2.0, 3.0, 4.0])]),
]


def _dump(result):
    import nsl.LinearIR as IR
    out = {}
    for n, f in result.IRModule.Functions.items():
        buf = []
        IR.InstructionPrinter(lambda *a, end="\n": buf.append(" ".join(map(str, a)) + end)).Print(f)
        out[n] = (str(f.Type.ReturnType), tuple(str(t) for t in f.Type.Arguments.values()), "".join(buf))
    return out


def _run(result, entry, args):
    import copy
    import nsl.LinearIR as IR
    import nsl.VM as VM
    l = IR.Linker()
    l.AddModule(result.IRModule)
    try:
        return repr(VM.VirtualMachine(l.Link()).Invoke(entry, **copy.deepcopy(args)))
    except BaseException as e:
        return f"raised {type(e).__name__}: {e}"


REPLAY = """
import io, contextlib, copy
from nsl import Compiler, LinearIR, VM
first, second, entry, args, opt = {{first}}, {{second}}, {{entry}}, {{args}}, {{opt}}
def run(src):
    try:
        with contextlib.redirect_stdout(io.StringIO()):
            r = Compiler.Compiler().Compile(src, {'optimize': opt})
        l = LinearIR.Linker(); l.AddModule(r.IRModule)
        return repr(VM.VirtualMachine(l.Link()).Invoke(entry, **copy.deepcopy(args)))
    except BaseException as e:
        return 'failed: %s: %s' % (type(e).__name__, e)
alone, composed = run(second), run(first + chr(10) + second)
print(entry, args, 'compiled alone ->', alone, '; compiled after', repr(first[:60]), '... ->', composed)
if alone != composed: print('REPLAY-CONFIRMED')
"""


@family("E2E.module-composition", props=["C01", "C03", "C04", "C05", "C13", "C14"], functions=["nsl.Compiler::Compiler.Compile", "nsl.passes.ComputeTypes::ComputeTypeVisitor._ProcessExpression",
                                                                                       "nsl.passes.LowerToIR::LowerToIRVisitor.Context.AdaptType", "nsl.passes.ValidateSwizzle::ValidateSwizzleMaskVisitor.v_MemberAccessExpression"],
        assumptions=["16 curated program blocks that look alike in what a coarse memo key would keep (masks on vectors of different sizes, arrays agreeing in some dimensions, overloads differing in one parameter type, "
                     "literals next to int / uint / float, loops, matrices), composed in all 240 ordered pairs, with and without optimize; identical IR text (types included) means identical behaviour for ALL inputs; "
                     "where the IR differs the two modules are run on sample arguments and only a differing result is a violation (a differing IR with equal results is UNDECIDED)"])
def module_composition(R):
    """For every ordered pair (A, B) of blocks: in the module A;B every function of B (and of A) has the IR -- signature, instructions, types -- it has when its
    block is compiled alone: what a pass remembers from an earlier function of the module does not change how a later one is compiled."""
    FN = "nsl.Compiler::Compiler.Compile"
    for opt in (False, True):
        alone = {}
        for name, src, entry, samples in BLOCKS:
            r, exc = compile_quiet(src, {"optimize": opt})
            alone[name] = (r, _dump(r) if r is not None else None, exc)
        tag = "opt" if opt else "plain"
        for (n1, s1, e1, a1), (n2, s2, e2, a2) in itertools.permutations(BLOCKS, 2):
            if alone[n1][0] is None or alone[n2][0] is None:
                continue              # (a block the compiler rejects on its own: nothing to compare; reported once below)
            oid = f"E2E.module-composition[{n1};{n2},{tag}]"
            r, exc = compile_quiet(s1 + "\n" + s2, {"optimize": opt})
            if r is None:
                R.check(oid, FN, False, detail=f"two blocks that compile alone are rejected together: {type(exc).__name__ if exc else 'pass failed'}: {str(exc)[:160]}",
                        replay=dict(script=REPLAY.replace("{{first}}", repr(s1)).replace("{{second}}", repr(s2)).replace("{{entry}}", repr(e2)).replace("{{args}}", repr(a2[0])).replace("{{opt}}", repr(opt))))
                continue
            d = _dump(r)
            diffs = []
            for which, (nm, src, entry, samples) in (("first", (n1, s1, e1, a1)), ("second", (n2, s2, e2, a2))):
                for fname, dump in alone[nm][1].items():
                    if d.get(fname) != dump:
                        diffs.append((which, fname, entry, samples, src))
            if not diffs:
                R.ok(oid, FN, detail="IR of every function identical to its block compiled alone")
                continue
            bad = None
            for which, fname, entry, samples, src in diffs:
                for args in samples:
                    x, y = _run(alone[n1 if which == "first" else n2][0], entry, args), _run(r, entry, args)
                    if x != y:
                        bad = (which, fname, entry, args, x, y)
                        break
                if bad:
                    break
            if bad:
                first, second = (s2, s1) if bad[0] == "first" else (s1, s2)       # (replay compiles `second` alone and after `first`; order inside the module as composed here)
                rp = dict(script=REPLAY.replace("{{first}}", repr(s1 if bad[0] == "second" else "")).replace("{{second}}", repr(s2 if bad[0] == "second" else s1 + "\n" + s2) if bad[0] == "second" else repr(s1))
                          .replace("{{entry}}", repr(bad[2])).replace("{{args}}", repr(bad[3])).replace("{{opt}}", repr(opt)))
                if bad[0] == "first":
                    # the EARLIER block is changed by the later one: replay compares block 1 alone with block 1 followed by block 2
                    rp = dict(script=REPLAY.replace("first + chr(10) + second", "second + chr(10) + first").replace("{{first}}", repr(s2)).replace("{{second}}", repr(s1))
                              .replace("{{entry}}", repr(bad[2])).replace("{{args}}", repr(bad[3])).replace("{{opt}}", repr(opt)))
                R.fail(oid, FN, f"function {bad[1]} of the {bad[0]} block: {bad[2]}({bad[3]}) gives {bad[4]} when the block is compiled alone and {bad[5]} in the composed module", replay=rp)
            else:
                R.undecided(oid, FN, f"IR of {[x[1] for x in diffs]} differs from the block compiled alone, results on the sample arguments agree")
        rejected = [n for n in alone if alone[n][0] is None]
        R.check(f"E2E.module-composition.blocks-compile[{tag}]", FN, not rejected, detail=f"blocks rejected on their own: {rejected} ({[str(alone[n][2])[:80] for n in rejected]})")
