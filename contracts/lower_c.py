"""Lowering contracts (C01, C03, C04, C05, C11, C14): CFG-schema simulation.

The real LowerToIRVisitor.v_<Node> runs, with the real Context and the real
LinearIR builders, on a real AST node whose children are OPAQUE.  Visiting an
opaque child is answered by the induction hypothesis of the simulation proof:
a *ghost* instruction is appended through the real ctx.BasicBlock.AddInstruction
(an opaque statement additionally registers a break and a continue branch with
the real RegisterLoopBreak/RegisterLoopContinue: "it may break or continue").
The emitted blocks are then explored path by path, ghosts as uninterpreted
effects, and the set of paths is compared with the one-iteration unfolding of
the structured semantics of the source construct."""
from __future__ import annotations

import collections
import itertools

import z3

from pyvc.core import family, resolve, Missing
from pyvc.sym import Unsupported
from pyvc.util import script, getpriv
from . import astgen as ag
from . import types_c as tc

LOW = "nsl.passes.LowerToIR::LowerToIRVisitor"


def IR():
    import nsl.LinearIR as m
    return m


_ghost = {}


def ghost_classes():
    if _ghost:
        return _ghost
    ir = IR()

    class Ghost(ir.Instruction):
        """Uninterpreted code of an opaque child."""

        def __init__(self, tag, kind, irtype=None):
            super().__init__(ir.OpCode.INVALID, irtype or ir.VoidType())
            self.tag = tag
            self.kind = kind            # 'expr' | 'stmt' | 'store' | 'marker'
            self.store = None
            self.brk = None
            self.cont = None

        def SetStore(self, v):
            self.store = v
            self.kind = "store"

        @property
        def Store(self):
            return self.store

        @property
        def Uses(self):
            return [self.store.Reference] if self.store is not None else []

        def ReplaceUses(self, ref, new):
            if self.store is not None and self.store.Reference == ref:
                self.store = new

        def __repr__(self):
            return f"<ghost {self.kind} {self.tag}>"

    _ghost["Ghost"] = Ghost
    return _ghost


class Lowering:
    """One run of a real lowering handler on a node with opaque children."""

    def __init__(self, arg_types=None, globals_=(), locals_=()):
        ir = IR()
        low = resolve(LOW)
        self.ir = ir
        self.ctx = low.Context()
        self.vis = low(self.ctx)
        for g in globals_:
            getpriv(self.ctx, "Context", "__globals")[g] = ir.VariableAccessScope.GLOBAL
        ft = ir.FunctionType(ir.IntegerType(), collections.OrderedDict(arg_types or {"p0": ir.IntegerType()}))
        self.ctx.OnEnterFunction("f", ft)
        for l in locals_:
            self.ctx.RegisterFunctionLocalVariable(l)
        self.function = self.ctx.Function
        self.ghosts = []
        self.G = ghost_classes()["Ghost"]
        self.in_outer_loop = False

    def marker(self, tag):
        g = self.G(tag, "marker")
        self.ctx.BasicBlock.AddInstruction(g)
        return g

    def spy(self, root):
        real = type(self.vis).v_Generic
        vis, ctx = self.vis, self.ctx

        def v_generic(obj, c=None):
            if obj is root or not ag.is_opaque(obj):
                return real(vis, obj, c)
            # the induction hypothesis for an opaque child
            vis.OnEnter(obj, c)
            try:
                kind = {"OpaqueStmt": "stmt", "OpaqueNode": "decl"}.get(type(obj).__name__, "expr")
                t = None
                if kind == "expr" and obj.GetType() is not None:
                    t = ctx.AdaptType(obj.GetType())
                g = self.G(obj.tag, kind, t)
                if kind == "expr" and ctx.InAssignment:
                    g.SetStore(ctx.AssignmentValue)
                ctx.BasicBlock.AddInstruction(g)
                if kind == "stmt" and getpriv(ctx, "Context", "__loops"):
                    g.brk, g.cont = self.ir.BranchInstruction(None), self.ir.BranchInstruction(None)
                    ctx.RegisterLoopBreak(g.brk)
                    ctx.RegisterLoopContinue(g.cont)
                self.ghosts.append(g)
                return g if kind == "expr" else None
            finally:
                vis.OnLeave(None, c)

        return v_generic

    def run(self, node, outer_loop=True):
        """ENTRY; [outer BeginLoop]; real v_Generic(node); [outer EndLoop]; EXIT"""
        self.node = node
        self.entry = self.marker("ENTRY")
        if outer_loop:
            self.ctx.BeginLoop()
        self.vis.v_Generic = self.spy(node)
        try:
            self.result = self.vis.v_Generic(node, self.ctx)
        finally:
            del self.vis.v_Generic
        self.outer = None
        if outer_loop:
            o = self.ctx.EndLoop()
            self.outer = (list(getpriv(o, "_BreakContinueStatements", "__breakStatements")), list(getpriv(o, "_BreakContinueStatements", "__continueStatements")))
        self.exit = self.marker("EXIT")
        return self.result

    # -- the schema explorer ------------------------------------------------
    def flatten(self):
        instrs, offsets = [], {}
        for bb in self.function.BasicBlocks:
            offsets[id(bb)] = len(instrs)
            instrs.extend(bb.Instructions)
        return instrs, offsets

    def paths(self, limit=400):
        """All paths from ENTRY to {EXIT, return, back edge, break-out, continue-out}.  Each path: tuple of events."""
        ir = self.ir
        instrs, offsets = self.flatten()
        blocks = {id(b) for b in self.function.BasicBlocks}
        start = instrs.index(self.entry) + 1
        out = []
        problems = []
        consts = {c.Reference for c in self.function.Constants}
        work = [(start, (), frozenset(), frozenset(i.Reference for i in instrs[:start]) | consts)]
        while work:
            pc, trace, seen, defined = work.pop()
            if len(out) > limit:
                raise Unsupported("too many schema paths")
            if pc >= len(instrs):
                out.append(trace + (("fell-off-the-end",),))
                continue
            ins = instrs[pc]
            if pc in seen:
                # back edge: name the first ghost at or after the target
                tgt = next((i.tag for i in instrs[pc:] if isinstance(i, self.G)), "?")
                out.append(trace + (("loop", tgt),))
                continue
            seen2 = seen | {pc}
            if ins is self.exit:
                out.append(trace + (("exit",),))
                continue
            # def-before-use on this path (C14)
            if not isinstance(ins, ir.BranchInstruction):
                for u in ins.Uses:
                    if u not in defined:
                        problems.append(f"{type(ins).__name__} %{ins.Reference} uses %{u}, which is not defined earlier on the path {trace}")
            elif ins.Predicate is not None and ins.Predicate.Reference not in defined:
                problems.append(f"branch predicate %{ins.Predicate.Reference} is not defined earlier on the path {trace}")
            defined2 = defined | {ins.Reference}
            if isinstance(ins, self.G):
                if ins.kind in ("expr", "store", "marker", "decl"):
                    ev = ("store", ins.tag, _vtag(ins.store)) if ins.kind == "store" else (("s", ins.tag, "norm") if ins.kind == "decl" else ("e", ins.tag))
                    work.append((pc + 1, trace + (ev,), seen2, defined2))
                    continue
                # opaque statement: normal / break / continue / return
                work.append((pc + 1, trace + (("s", ins.tag, "norm"),), seen2, defined2))
                out.append(trace + (("s", ins.tag, "ret"), ("return", "?")))
                for what, br, idx in (("brk", ins.brk, 0), ("cont", ins.cont, 1)):
                    if br is None:
                        continue
                    ev = trace + (("s", ins.tag, what),)
                    if br.TrueBlock is not None:
                        if id(br.TrueBlock) not in blocks:
                            problems.append(f"{what} branch of {ins.tag} targets a block of another function")
                            continue
                        work.append((offsets[id(br.TrueBlock)], ev, seen2, defined2))
                    elif self.outer is not None and any(br is x for x in self.outer[idx]):
                        out.append(ev + (("break-out",) if what == "brk" else ("continue-out",),))
                    else:
                        out.append(ev + ((f"unpatched-{what}",),))
                        problems.append(f"the {what} branch of statement {ins.tag} was neither patched nor handed to the enclosing loop")
                continue
            if isinstance(ins, ir.BranchInstruction):
                t, f, p = ins.TrueBlock, ins.FalseBlock, ins.Predicate
                if t is None:
                    if self.outer is not None and any(ins is x for x in self.outer[0]):
                        out.append(trace + (("break-out",),))
                    elif self.outer is not None and any(ins is x for x in self.outer[1]):
                        out.append(trace + (("continue-out",),))
                    else:
                        problems.append("a branch without target is neither a registered break nor a registered continue")
                        out.append(trace + (("unpatched-branch",),))
                    continue
                for b in (t, f):
                    if b is not None and id(b) not in blocks:
                        problems.append("branch targets a block that is not in the function")
                if p is not None:
                    if f is None:
                        problems.append("conditional branch without false target")
                        out.append(trace + (("t", _vtag(p), True), ("stuck",)))
                        continue
                    work.append((offsets[id(t)], trace + (("t", _vtag(p), True),), seen2, defined2))
                    work.append((offsets[id(f)], trace + (("t", _vtag(p), False),), seen2, defined2))
                else:
                    work.append((offsets[id(t)], trace, seen2, defined2))
                continue
            if isinstance(ins, ir.ReturnInstruction):
                out.append(trace + (("return", _vtag(ins.Value)),))
                continue
            work.append((pc + 1, trace + (("i", _describe(ins)),), seen2, defined2))
        self.problems = problems
        return set(out)


def _vtag(v):
    if v is None:
        return None
    G = ghost_classes()["Ghost"]
    if isinstance(v, G):
        return v.tag
    ir = IR()
    if isinstance(v, ir.ConstantValue):
        return ("const", v.Value)
    return ("%", type(v).__name__, v.Reference)


def _describe(ins):
    ir = IR()
    if isinstance(ins, ir.BinaryInstruction):
        return (ins.OpCode.name, _vtag(ins.Values[0]), _vtag(ins.Values[1]))
    if isinstance(ins, ir.VariableAccessInstruction):
        return ("store" if ins.Store is not None else "load", ins.Scope.name, ins.Variable, _vtag(ins.Store))
    if isinstance(ins, ir.DeclareVariableInstruction):
        return ("declare", ins.Name)
    if isinstance(ins, ir.CastInstruction):
        return ("cast", str(ins.Type), _vtag(ins.Value))
    if isinstance(ins, ir.CallInstruction):
        return ("call", ins.Function, tuple(_vtag(a) for a in ins.Arguments))
    return (type(ins).__name__,)


# ---------------------------------------------------------------------------
# structured semantics of the source constructs (one iteration unfolding)

def stmt_outcomes(tag, then_norm, brk, cont):
    """paths through an opaque statement `tag`: continuation per outcome"""
    out = set()
    for rest in then_norm:
        out.add((("s", tag, "norm"),) + rest)
    out.add((("s", tag, "ret"), ("return", "?")))
    for rest in brk:
        out.add((("s", tag, "brk"),) + rest)
    for rest in cont:
        out.add((("s", tag, "cont"),) + rest)
    return out


EXIT = (("exit",),)
BRKOUT = (("break-out",),)
CONTOUT = (("continue-out",),)


def sem_if(has_else):
    out = set()
    for p in stmt_outcomes("t", [EXIT], [BRKOUT], [CONTOUT]):
        out.add((("e", "c"), ("t", "c", True)) + p)
    if has_else:
        for p in stmt_outcomes("f", [EXIT], [BRKOUT], [CONTOUT]):
            out.add((("e", "c"), ("t", "c", False)) + p)
    else:
        out.add((("e", "c"), ("t", "c", False)) + EXIT)
    return out


def sem_while():
    out = {(("e", "c"), ("t", "c", False)) + EXIT}
    back = (("loop", "c"),)
    for p in stmt_outcomes("b", [back], [EXIT], [back]):
        out.add((("e", "c"), ("t", "c", True)) + p)
    return out


def sem_do():
    out = set()
    after = [(("e", "c"), ("t", "c", True), ("loop", "b")), (("e", "c"), ("t", "c", False)) + EXIT]
    return stmt_outcomes("b", after, [EXIT], after)


def sem_for(has_init, has_cond, has_next):
    pre = ((("s", "init", "norm"),) if has_init else ())
    head = pre
    nxt = ((("e", "n"),) if has_next else ())
    first_in_loop = "c" if has_cond else "b"
    back = nxt + (("loop", first_in_loop),)
    out = set()
    if has_cond:
        out.add(head + (("e", "c"), ("t", "c", False)) + EXIT)
        intro = head + (("e", "c"), ("t", "c", True))
    else:
        intro = head
    for p in stmt_outcomes("b", [back], [EXIT], [back]):
        out.add(intro + p)
    if has_init:
        # the initialiser is a declaration: it cannot break/continue/return; keep only its normal outcome
        pass
    return out


def sem_compound(n):
    def go(i):
        if i == n:
            return [EXIT]
        return list(stmt_outcomes(f"s{i}", go(i + 1), [BRKOUT], [CONTOUT]))
    return set(go(0))


WITNESS = {
    "DoStatement": ("export function f(int n) -> int { int i = 0; int s = 0; do { i = (i + 1); if (i < 3) { continue; } s = (s + i); } while (i < n); return s; }", dict(n=0), 0),
    "WhileStatement": ("export function f(int n) -> int { int i = 0; int s = 0; while (i < n) { i = (i + 1); if (i == 2) { continue; } if (i == 5) { break; } s = (s + i); } return s; }", dict(n=9), 8),
    "ForStatement": ("export function f(int n) -> int { int s = 0; for (int i = 0; i < n; ++i) { if (i == 2) { continue; } if (i == 5) { break; } s = (s + i); } return s; }", dict(n=9), 8),
    "IfStatement": ("export function f(int n) -> int { int s = 0; if (n > 2) { s = 1; } else { s = 2; } if (n > 100) { s = (s + 10); } return s; }", dict(n=5), 1),
    "nested": ("export function f(int n) -> int { int s = 0; for (int i = 0; i < n; ++i) { for (int j = 0; j < n; ++j) { if (j == 1) { break; } s = (s + 1); } if (i == 1) { continue; } s = (s + 100); } int k = 0; while (k < 2) { k = (k + 1); if (k == 1) { continue; } s = (s + 1000); } return s; }", dict(n=3), 1203),
}


def witness_replay(key):
    src, args, want = WITNESS[key]
    return script("""
        import io, contextlib
        from nsl import Compiler, LinearIR, VM
        src = {{src}}
        out = []
        for opt in (False, True):
            try:
                with contextlib.redirect_stdout(io.StringIO()):
                    r = Compiler.Compiler().Compile(src, {'optimize': opt})
                l = LinearIR.Linker(); l.AddModule(r.IRModule)
                out.append(VM.VirtualMachine(l.Link()).Invoke('f', **{{args}}))
            except BaseException as e:
                out.append('raised %s: %s' % (type(e).__name__, e))
        print(src); print('f(%s) =' % {{args}}, out, '; source semantics:', {{want}})
        if any(o != {{want}} for o in out): print('REPLAY-CONFIRMED')
        """, src=src, args=args, want=want)


def _fmt(paths):
    def ev(e):
        if e[0] == "e":
            return e[1]
        if e[0] == "t":
            return f"[{'' if e[2] else '!'}{e[1]}]"
        if e[0] == "s":
            return f"{e[1]}:{e[2]}"
        if e[0] == "loop":
            return f"↺{e[1]}"
        return e[0] + ("(" + str(e[1]) + ")" if len(e) > 1 else "")
    return sorted(" ".join(ev(e) for e in p) for p in paths)


def check_schema(R, oid, fn, lw, got, want, key=None):
    miss, extra = want - got, got - want
    R.check(oid + ".paths", fn, not miss and not extra,
            detail=f"paths of the emitted code differ from the source semantics; missing: {_fmt(miss)[:6]}; unexpected: {_fmt(extra)[:6]}",
            replay=witness_replay(key) if key else None)
    R.check(oid + ".wellformed", fn, not lw.problems, detail="; ".join(lw.problems[:4]), replay=witness_replay(key) if key else None)
    if lw.outer is not None:
        G = ghost_classes()["Ghost"]
        # what reaches the enclosing loop is exactly the break/continue of children that are not inside a loop of this construct
        ir = IR()
        R.check(oid + ".loop-stack", fn, getpriv(lw.ctx, "Context", "__loops") == [], detail="BeginLoop/EndLoop are not balanced")


@family("LOWER.control", props=["C01", "C11", "C14", "C05"],
        functions=[LOW + ".v_IfStatement", LOW + ".v_WhileStatement", LOW + ".v_DoStatement", LOW + ".v_ForStatement", LOW + ".v_CompoundStatement", LOW + ".v_BreakStatement",
                   LOW + ".v_ContinueStatement", LOW + ".v_ReturnStatement", LOW + ".Context.BeginLoop", LOW + ".Context.EndLoop", LOW + ".Context.RegisterLoopBreak",
                   LOW + ".Context.RegisterLoopContinue", LOW + ".Context.BasicBlock", LOW + ".Context.CreateBasicBlock", LOW + ".Context.EndBasicBlock",
                   "nsl.passes.LowerToIR::_BreakContinueStatements.SetBreakTarget", "nsl.passes.LowerToIR::_BreakContinueStatements.SetContinueTarget"],
        assumptions=["induction on statement trees: opaque children are ghosts with uninterpreted effect and outcome in {normal, break, continue, return}; equality of path sets up to the loop head is a bisimulation-up-to argument covering all iteration counts",
                     "block layout order = creation order and fall-through = next instruction (VM.prologue)"])
def lower_control(R):
    """For if/else, while, do-while, for (every combination of init/cond/next), blocks, return, break, continue: the set of
    (branch decisions, ordered effects, outcome) paths of the emitted blocks equals the structured semantics: break leaves and continue
    re-tests the innermost loop (the for-increment still runs), everything a child registers inside a loop is patched by THAT loop and nothing
    leaks to the enclosing loop; every operand is defined before use on every path and every branch has its targets in the function."""
    a = ag.A()
    import nsl.types as ty
    I = ty.Integer()
    # if
    for has_else in (True, False):
        lw = Lowering()
        lw.run(a.IfStatement(ag.E("c", I), ag.S("t"), ag.S("f") if has_else else None))
        check_schema(R, f"LOWER.IfStatement[{'else' if has_else else 'noelse'}]", LOW + ".v_IfStatement", lw, lw.paths(), sem_if(has_else), "IfStatement")
    lw = Lowering()
    lw.run(a.WhileStatement(ag.E("c", I), ag.S("b")))
    check_schema(R, "LOWER.WhileStatement", LOW + ".v_WhileStatement", lw, lw.paths(), sem_while(), "WhileStatement")
    lw = Lowering()
    lw.run(a.DoStatement(ag.E("c", I), ag.S("b")))
    check_schema(R, "LOWER.DoStatement", LOW + ".v_DoStatement", lw, lw.paths(), sem_do(), "DoStatement")
    for hi, hc, hn in itertools.product((True, False), repeat=3):
        lw = Lowering()
        lw.run(a.ForStatement(ag.N("init") if hi else None, ag.E("c", I) if hc else a.EmptyExpression(), ag.E("n", I) if hn else a.EmptyExpression(), ag.S("b")))
        check_schema(R, f"LOWER.ForStatement[{'init' if hi else '-'},{'cond' if hc else '-'},{'next' if hn else '-'}]", LOW + ".v_ForStatement", lw, lw.paths(), sem_for(hi, hc, hn), "ForStatement")
    for n in (0, 1, 2, 3):
        lw = Lowering()
        lw.run(a.CompoundStatement([ag.S(f"s{i}") for i in range(n)]))
        check_schema(R, f"LOWER.CompoundStatement[{n}]", LOW + ".v_CompoundStatement", lw, lw.paths(), sem_compound(n))
    lw = Lowering()
    lw.run(a.ReturnStatement(ag.E("e", I)))
    check_schema(R, "LOWER.ReturnStatement[value]", LOW + ".v_ReturnStatement", lw, lw.paths(), {(("e", "e"), ("return", "e"))})
    lw = Lowering()
    lw.run(a.ReturnStatement())
    check_schema(R, "LOWER.ReturnStatement[void]", LOW + ".v_ReturnStatement", lw, lw.paths(), {(("return", None),)})
    lw = Lowering()
    lw.run(a.BreakStatement())
    check_schema(R, "LOWER.BreakStatement", LOW + ".v_BreakStatement", lw, lw.paths(), {BRKOUT})
    lw = Lowering()
    lw.run(a.ContinueStatement())
    check_schema(R, "LOWER.ContinueStatement", LOW + ".v_ContinueStatement", lw, lw.paths(), {CONTOUT})
    lw = Lowering()
    lw.run(a.ExpressionStatement(ag.E("e", I)))
    check_schema(R, "LOWER.ExpressionStatement", LOW + ".v_Default", lw, lw.paths(), {(("e", "e"),) + EXIT})

    # nesting and sequencing of loops: registrations never leak between loops (innermost loop rule)
    for outer_kind, inner_kind in itertools.product(("while", "do", "for"), repeat=2):
        def mk(kind, cond, body):
            if kind == "while":
                return a.WhileStatement(ag.E(cond, I), body)
            if kind == "do":
                return a.DoStatement(ag.E(cond, I), body)
            return a.ForStatement(None, ag.E(cond, I), a.EmptyExpression(), body)
        inner = mk(inner_kind, "ci", ag.S("bi"))
        node = mk(outer_kind, "co", a.CompoundStatement([ag.S("pre"), inner, ag.S("post")]))
        lw = Lowering()
        lw.run(node)
        got = lw.paths(limit=4000)
        prob = []
        for p in got:
            evs = [e for e in p]
            # a break of the inner body must continue with `post` (or the inner exit), a continue of the inner body must re-test ci / run on
            for i, e in enumerate(evs):
                if e == ("s", "bi", "brk"):
                    nxt = evs[i + 1] if i + 1 < len(evs) else None
                    if nxt not in (("s", "post", "norm"), ("s", "post", "ret"), ("s", "post", "brk"), ("s", "post", "cont")):
                        prob.append(f"break in the inner loop continues with {nxt}")
                if e == ("s", "bi", "cont"):
                    nxt = evs[i + 1] if i + 1 < len(evs) else None
                    if not (nxt == ("e", "ci") or (nxt and nxt[0] == "loop" and nxt[1] in ("ci", "bi"))):
                        prob.append(f"continue in the inner loop continues with {nxt}")
                if e in (("s", "pre", "brk"), ("s", "post", "brk")):
                    nxt = evs[i + 1] if i + 1 < len(evs) else None
                    if nxt != ("exit",):
                        prob.append(f"break in the outer loop body continues with {nxt}")
                if e in (("s", "pre", "cont"), ("s", "post", "cont")):
                    nxt = evs[i + 1] if i + 1 < len(evs) else None
                    if not (nxt == ("e", "co") or (nxt and nxt[0] == "loop")):
                        prob.append(f"continue in the outer loop body continues with {nxt}")
            if p[-1][0] in ("break-out", "continue-out", "unpatched-brk", "unpatched-cont", "unpatched-branch"):
                prob.append(f"a break/continue inside the loops escapes to the enclosing loop or stays unpatched: {_fmt([p])[0]}")
        prob += lw.problems
        R.check(f"LOWER.nested[{outer_kind}>{inner_kind}]", LOW + ".Context.BeginLoop", not prob, detail="; ".join(sorted(set(prob))[:3]), replay=witness_replay("nested"))
    # two loops in sequence
    for k1, k2 in itertools.product(("while", "do", "for"), repeat=2):
        def mk(kind, cond, body):
            if kind == "while":
                return a.WhileStatement(ag.E(cond, I), body)
            if kind == "do":
                return a.DoStatement(ag.E(cond, I), body)
            return a.ForStatement(None, ag.E(cond, I), a.EmptyExpression(), body)
        node = a.CompoundStatement([mk(k1, "c1", ag.S("b1")), ag.S("mid"), mk(k2, "c2", ag.S("b2"))])
        lw = Lowering()
        lw.run(node)
        got = lw.paths(limit=4000)
        prob = list(lw.problems)
        for p in got:
            for i, e in enumerate(p):
                nxt = p[i + 1] if i + 1 < len(p) else None
                if e == ("s", "b1", "brk") and (nxt is None or nxt[:2] != ("s", "mid")):
                    prob.append(f"break in the first loop continues with {nxt}, expected the statement after the loop")
                if e == ("s", "b1", "cont") and not (nxt == ("e", "c1") or (nxt and nxt[0] == "loop" and nxt[1] in ("c1", "b1"))):
                    prob.append(f"continue in the first loop continues with {nxt}")
                if e == ("s", "b2", "brk") and nxt != ("exit",):
                    prob.append(f"break in the second loop continues with {nxt}")
        R.check(f"LOWER.sequence[{k1};{k2}]", LOW + ".Context.BeginLoop", not prob, detail="; ".join(sorted(set(prob))[:3]), replay=witness_replay("nested"))


# ---------------------------------------------------------------------------
# expressions, declarations, calls (straight-line emission)

OPNAMES = ["ADD", "SUB", "MUL", "DIV", "MOD", "LG_AND", "LG_OR", "CMP_GT", "CMP_LT", "CMP_LE", "CMP_GE", "CMP_NE", "CMP_EQ"]


def _events(lw):
    ps = lw.paths()
    if len(ps) != 1:
        return None
    return list(next(iter(ps)))


@family("LOWER.expr", props=["C01", "C03", "C05", "C14", "C12"],
        functions=[LOW + ".v_BinaryExpression", LOW + ".v_AssignmentExpression", LOW + ".v_PrimaryExpression", LOW + ".v_AffixExpression", LOW + ".v_VariableDeclaration",
                   LOW + ".v_CastExpression", LOW + ".v_CallExpression", LOW + ".v_LiteralExpression", LOW + ".v_Function", LOW + ".__GetFunctionName",
                   LOW + ".Context.LookupVariableScope", LOW + ".Context.RegisterFunctionLocalVariable", LOW + ".Context.OnEnterFunction", LOW + ".Context.InAssignment",
                   "nsl.LinearIR::BinaryInstruction.FromOperation", "nsl.types::Function.GetMangledName", "nsl.passes.LowerToIR::_CreateLinearIRType"],
        assumptions=["opaque sub-expressions are ghosts (uninterpreted value and effect); scalar operand types int/float"])
def lower_expr(R):
    """Scalar expressions emit exactly: operands left to right, then ONE instruction of the IRsem opcode of the operator with the operand values
    in order and the adapted result type; `l = r` evaluates r then stores it through l; a name is loaded/stored in the scope of its declaration
    (global / argument / local); ++x, x++, --x, x-- load x, add/subtract 1, store x and yield the new (prefix) or old (postfix) value; a
    declaration declares the local and stores the initialiser; casts, calls (arguments in order, callee named as its definition is registered)
    and literals likewise."""
    a = ag.A()
    ir = IR()
    import nsl.types as ty
    import nsl.op as op
    I, F = ty.Integer(), ty.Float()
    for opname in OPNAMES:
        for (lt, rt, res) in ((I, I, I), (F, F, F if not (opname.startswith("CMP")) else I)):
            lw = Lowering()
            node = a.BinaryExpression(op.Operation[opname], ag.E("l", lt), ag.E("r", rt))
            node.SetType(res)
            v = lw.run(node)
            ev = _events(lw)
            want = [("e", "l"), ("e", "r"), ("i", (opname, "l", "r")), ("exit",)]
            ok = ev == want and isinstance(v, ir.BinaryInstruction) and type(v.Type) is type(lw.ctx.AdaptType(res)) and not lw.problems
            R.check(f"LOWER.BinaryExpression[{opname},{lt}]", LOW + ".v_BinaryExpression", ok, detail=f"emitted {ev}, expected {want}; value {type(v).__name__} of type {getattr(v, 'Type', None)}")
    # assignment: right first, then store through the left
    lw = Lowering()
    node = a.AssignmentExpression(ag.E("l", I), ag.E("r", I))
    v = lw.run(node)
    ev = _events(lw)
    R.check("LOWER.AssignmentExpression", LOW + ".v_AssignmentExpression", ev == [("e", "r"), ("store", "l", "r"), ("exit",)], detail=f"emitted {ev}")
    # the VALUE of an assignment expression is the assigned value (`b = c = a;`, `if (a = 3)`): what the handler returns must be a value that
    # exists at run time and equals the right-hand side -- not the store, whose reference is never bound
    R.check("LOWER.AssignmentExpression.value", LOW + ".v_AssignmentExpression", getattr(v, "tag", None) == "r",
            detail=f"an assignment used as a value yields {getattr(v, 'tag', v)!r}; the assigned value is 'r'",
            replay=script("""
                import io, contextlib
                from nsl import Compiler, LinearIR, VM
                src = 'export function f(int a) -> int { int b; int c; b = c = a; return (b + c); }'
                with contextlib.redirect_stdout(io.StringIO()):
                    r = Compiler.Compiler().Compile(src)
                l = LinearIR.Linker(); l.AddModule(r.IRModule)
                try:
                    got = VM.VirtualMachine(l.Link()).Invoke('f', a=4)
                except BaseException as e:
                    got = 'VM raised %s: %s' % (type(e).__name__, e)
                print(src, 'f(4) =', got, 'expected 8')
                if got != 8: print('REPLAY-CONFIRMED')
                """))
    # names: scope of the declaration; load / store
    for name, scope in (("g", "GLOBAL"), ("p0", "FUNCTION_ARGUMENT"), ("x", "FUNCTION_LOCAL")):
        lw = Lowering(globals_=["g"], locals_=["x"])
        n = a.PrimaryExpression(name)
        n.SetType(F)
        v = lw.run(n)
        ev = _events(lw)
        R.check(f"LOWER.PrimaryExpression.load[{scope}]", LOW + ".v_PrimaryExpression", ev == [("i", ("load", scope, name, None)), ("exit",)] and isinstance(v.Type, ir.FloatType),
                detail=f"emitted {ev}")
        lw = Lowering(globals_=["g"], locals_=["x"])
        n = a.PrimaryExpression(name)
        n.SetType(I)
        lw.run(a.AssignmentExpression(n, ag.E("r", I)))
        ev = _events(lw)
        R.check(f"LOWER.PrimaryExpression.store[{scope}]", LOW + ".v_PrimaryExpression", ev == [("e", "r"), ("i", ("store", scope, name, "r")), ("exit",)], detail=f"emitted {ev}")
    # ++ / --
    for o, oname in ((op.Operation.ADD, "ADD"), (op.Operation.SUB, "SUB")):
        for affix, aname in ((a.Affix.PRE, "prefix"), (a.Affix.POST, "postfix")):
            lw = Lowering(locals_=["x"])
            n = a.PrimaryExpression("x")
            n.SetType(I)
            node = a.AffixExpression(o, n, affix)
            node.SetType(I)
            v = lw.run(node)
            ev = _events(lw) or []
            loads = [e for e in ev if e[0] == "i" and e[1][0] == "load"]
            bins = [e for e in ev if e[0] == "i" and e[1][0] == oname]
            stores = [e for e in ev if e[0] == "i" and e[1][0] == "store"]
            ok = len(loads) == 1 and len(bins) == 1 and len(stores) == 1 and ev.index(loads[0]) < ev.index(bins[0]) < ev.index(stores[0]) and len(ev) == 4
            if ok:
                b = bins[0][1]
                ok = b[1][0] == "%" and b[1][1] == "VariableAccessInstruction" and b[2] == ("const", 1) and stores[0][1][1:3] == ("FUNCTION_LOCAL", "x") and stores[0][1][3][1] == "BinaryInstruction"
                ok = ok and ((isinstance(v, ir.BinaryInstruction)) if affix == a.Affix.PRE else (isinstance(v, ir.VariableAccessInstruction) and v.Store is None))
            R.check(f"LOWER.AffixExpression[{aname},{oname}]", LOW + ".v_AffixExpression", ok and not lw.problems,
                    detail=f"emitted {ev}; yields {type(v).__name__}; {'; '.join(lw.problems[:2])}")
    # declarations
    # (for every state of the function's table of locals: the name may already be a local of the function -- a sibling scope declared it --
    # and the declaration must still create its own zero-initialised variable when control reaches it)
    for init, prior in itertools.product((False, True), (False, True)):
        lw = Lowering(locals_=["v", "w"] if prior else [])
        node = a.VariableDeclaration(I, "v", ag.E("init", I) if init else None)
        lw.run(node)
        ev = _events(lw)
        want = [("i", ("declare", "v"))] + ([("e", "init"), ("i", ("store", "FUNCTION_LOCAL", "v", "init"))] if init else []) + [("exit",)]
        R.check(f"LOWER.VariableDeclaration[{'init' if init else 'noinit'}{',name-declared-before' if prior else ''}]", LOW + ".v_VariableDeclaration",
                ev == want and lw.ctx.LookupVariableScope("v") == ir.VariableAccessScope.FUNCTION_LOCAL, detail=f"emitted {ev}, expected {want}")
    # a new function forgets the locals and parameters of the previous one
    lw = Lowering(arg_types={"q": ir.IntegerType()}, locals_=["tmp"])
    lw.ctx.OnLeaveFunction()
    lw.ctx.OnEnterFunction("g", ir.FunctionType(ir.IntegerType(), collections.OrderedDict([("r", ir.IntegerType())])))
    stale = []
    for nm in ("q", "tmp"):
        try:
            lw.ctx.LookupVariableScope(nm)
            stale.append(nm)
        except KeyError:
            pass
    R.check("LOWER.OnEnterFunction.resets-names", LOW + ".Context.OnEnterFunction", not stale and lw.ctx.LookupVariableScope("r") == ir.VariableAccessScope.FUNCTION_ARGUMENT,
            detail=f"names of the previous function still resolve in the next one: {stale}")
    # cast
    lw = Lowering()
    node = a.CastExpression(ag.E("x", I), F, True)
    v = lw.run(node)
    ev = _events(lw)
    R.check("LOWER.CastExpression", LOW + ".v_CastExpression", ev == [("e", "x"), ("i", ("cast", "float", "x")), ("exit",)] and isinstance(v, ir.CastInstruction), detail=f"emitted {ev}")
    # literal
    for val, t in ((5, I), (2.5, F), (0, I), (0.0, F)):
        lw = Lowering()
        v = lw.run(a.LiteralExpression(val, t))
        R.check(f"LOWER.LiteralExpression[{val!r}]", LOW + ".v_LiteralExpression", isinstance(v, ir.ConstantValue) and v.Value == val and type(v.Value) is type(val)
                and type(v.Type) is type(lw.ctx.AdaptType(t)), detail=f"literal {val!r} lowered to {getattr(v, 'Value', v)!r} of type {getattr(v, 'Type', None)}")
    # calls
    from .overload_c import make_function
    for exported in (False, True):
        for nargs in (0, 1, 3):
            fn_t = make_function("h", [I, F, I][:nargs], exported)
            lw = Lowering()
            node = a.CallExpression(fn_t, [ag.E(f"a{i}", [I, F, I][i]) for i in range(nargs)])
            node.SetType(I)
            v = lw.run(node)
            ev = _events(lw)
            name = "h" if exported else fn_t.GetMangledName()
            want = [("e", f"a{i}") for i in range(nargs)] + [("i", ("call", name, tuple(f"a{i}" for i in range(nargs)))), ("exit",)]
            R.check(f"LOWER.CallExpression[{'exported' if exported else 'internal'},{nargs}]", LOW + ".v_CallExpression", ev == want, detail=f"emitted {ev}, expected {want}")
            # ... and the definition is registered under the same name
            lw2 = Lowering()
            fnode = a.Function("h", [a.Argument([I, F, I][i], f"p{i}") for i in range(nargs)], I, a.CompoundStatement([]), isExported=exported)
            fnode.GetType().Resolve(ty.Scope())
            lw2.ctx.OnLeaveFunction()
            lw2.vis.v_Generic(fnode, lw2.ctx)
            R.check(f"LOWER.Function.name[{'exported' if exported else 'internal'},{nargs}]", LOW + ".v_Function", name in lw2.ctx.Module.Functions
                    and list(lw2.ctx.Module.Functions[name].Type.Arguments) == [f"p{i}" for i in range(nargs)],
                    detail=f"definition registered as {list(lw2.ctx.Module.Functions)}, call names {name!r}")
    # mangled names separate overloads
    m1 = make_function("h", [I]).GetMangledName()
    m2 = make_function("h", [F]).GetMangledName()
    m3 = make_function("h", [I, I]).GetMangledName()
    m4 = make_function("h", [ty.VectorType(F, 2)]).GetMangledName()
    R.check("LOWER.mangling.injective", "nsl.types::Function.GetMangledName", len({m1, m2, m3, m4}) == 4, detail=f"{[m1, m2, m3, m4]}")


@family("LOWER.adapt", props=["C05", "C01", "C04"], functions=["nsl.passes.LowerToIR::_CreateLinearIRType"],
        assumptions=["type shapes enumerated: 3 scalars, vectors 1-4, matrices 1-4 x 1-4, arrays of rank 1-3, structs (nested), function types, void"])
def lower_adapt(R):
    """_CreateLinearIRType is total on every front-end type shape and preserves kind, component type, sizes (rows/columns in order),
    array dimensions in order and field names in order."""
    import nsl.types as ty
    ir = IR()
    f = resolve("nsl.passes.LowerToIR::_CreateLinearIRType")

    def same(t, r):
        if isinstance(t, ty.Integer):
            return isinstance(r, ir.IntegerType) and not r.Unsigned
        if isinstance(t, ty.UnsignedInteger):
            return isinstance(r, ir.IntegerType) and r.Unsigned
        if isinstance(t, ty.Float):
            return isinstance(r, ir.FloatType)
        if isinstance(t, ty.VectorType):
            return isinstance(r, ir.VectorType) and r.Size == t.GetComponentCount() and same(t.GetComponentType(), r.ElementType)
        if isinstance(t, ty.MatrixType):
            return isinstance(r, ir.MatrixType) and r.RowCount == t.GetRowCount() and r.ColumnCount == t.GetColumnCount() and same(t.GetComponentType(), r.ElementType) \
                and r.RowType.Size == t.GetColumnCount()
        if isinstance(t, ty.ArrayType):
            return isinstance(r, ir.ArrayType) and list(r.Size) == list(t.GetSize()) and same(t.GetComponentType(), r.ElementType)
        if isinstance(t, ty.StructType):
            names = list(t.GetMembers().GetSymbolNames())
            return isinstance(r, ir.StructureType) and list(r.Fields) == names and all(same(t.GetFieldType(n), r.Fields[n]) for n in names) and r.Name == t.GetName()
        if isinstance(t, ty.Void):
            return isinstance(r, ir.VoidType)
        return False

    U = tc.universe()
    s1 = ty.StructType("S", collections.OrderedDict([("b", ty.Float()), ("a", ty.Integer())]))
    s2 = ty.StructType("T", collections.OrderedDict([("s", s1), ("arr", ty.ArrayType(ty.Integer(), [2, 3])), ("v", ty.VectorType(ty.Float(), 3))]))
    U += [ty.ArrayType(ty.Integer(), [3]), ty.ArrayType(ty.Float(), [2, 3]), ty.ArrayType(ty.Float(), [3, 2]), ty.ArrayType(ty.VectorType(ty.Float(), 2), [4, 1, 2]), s1, s2,
          ty.ArrayType(s1, [2]), ty.Void()]
    for t in U:
        try:
            r = f(t)
            ok, det = same(t, r), f"{t!r} adapted to {r}"
        except Exception as e:
            ok, det = False, f"{t!r}: raised {type(e).__name__}: {e}"
        R.check(f"LOWER.adapt[{t!r}]", "nsl.passes.LowerToIR::_CreateLinearIRType", ok, detail=det)
    from .overload_c import make_function
    ft = make_function("h", [ty.Integer(), ty.VectorType(ty.Float(), 2)])
    r = f(ft)
    R.check("LOWER.adapt[function]", "nsl.passes.LowerToIR::_CreateLinearIRType", isinstance(r, ir.FunctionType) and list(r.Arguments) == ["p0", "p1"] and same(ty.Integer(), r.Arguments["p0"])
            and same(ty.VectorType(ty.Float(), 2), r.Arguments["p1"]) and same(ty.Integer(), r.ReturnType), detail="function type: parameter names in order, parameter and return types")


@family("LOWER.adapt.sequence", props=["C05", "C14", "C07", "C03"], functions=["nsl.passes.LowerToIR::LowerToIRVisitor.Context.AdaptType", "nsl.passes.LowerToIR::_CreateLinearIRType"],
        assumptions=["ordered pairs of types that look alike, adapted one after the other by ONE lowering context (a module's functions are lowered by one context): overloads that differ in one parameter type, "
                     "arrays with permuted dimensions, vectors / matrices of the same size and another component type (exhaustive over the listed set)"])
def lower_adapt_sequence(R):
    """What a front-end type is adapted to does not depend on the types the same context adapted before: the IR type of the second of two
    overloads has the second one's own parameter types (the wasm type section, CALL and the IR function signature are built from it)."""
    import nsl.types as ty
    ir = IR()
    Ctx = resolve("nsl.passes.LowerToIR::LowerToIRVisitor.Context")
    from .overload_c import make_function
    I, F, U = ty.Integer(), ty.Float(), ty.UnsignedInteger()

    def desc(r):
        if isinstance(r, ir.FunctionType):
            return ("fn", desc(r.ReturnType), tuple((n, desc(t)) for n, t in r.Arguments.items()))
        if isinstance(r, ir.ArrayType):
            return ("arr", tuple(r.Size), desc(r.ElementType))
        if isinstance(r, ir.VectorType):
            return ("vec", r.Size, desc(r.ElementType))
        if isinstance(r, ir.MatrixType):
            return ("mat", r.RowCount, r.ColumnCount, desc(r.ElementType))
        if isinstance(r, ir.IntegerType):
            return "uint" if r.Unsigned else "int"
        return type(r).__name__

    groups = {
        "overloads": [make_function("scale", [F, I]), make_function("scale", [I, I]), make_function("scale", [I, F]), make_function("scale", [U, I]), make_function("scale", [ty.VectorType(F, 2), I])],
        "arrays": [ty.ArrayType(I, [2, 3]), ty.ArrayType(I, [3, 2]), ty.ArrayType(F, [2, 3]), ty.ArrayType(I, [2, 3, 1])],
        "vectors": [ty.VectorType(F, 3), ty.VectorType(I, 3), ty.VectorType(U, 3), ty.VectorType(F, 4)],
        "matrices": [ty.MatrixType(F, 3, 3), ty.MatrixType(F, 3, 4), ty.MatrixType(F, 4, 3)],
    }
    SRC = "function scale(float v, int n) -> int { return n; }\nfunction scale(int v, int n) -> int { return v * n; }\nexport function f(int a) -> int { return scale(a, 3) + scale(1.5, 2); }"
    for gname, ts in groups.items():
        bad = []
        for t1, t2 in itertools.permutations(ts, 2):
            try:
                alone = desc(Ctx().AdaptType(t2))
                c = Ctx()
                c.AdaptType(t1)
                after = desc(c.AdaptType(t2))
                if after != alone:
                    bad.append(f"{t2!r} after {t1!r}: {after} (alone: {alone})")
            except Exception as e:
                bad.append(f"{t2!r} after {t1!r}: {type(e).__name__}: {e}")
        R.check(f"LOWER.adapt.sequence[{gname}]", "nsl.passes.LowerToIR::LowerToIRVisitor.Context.AdaptType", not bad, detail=f"{len(bad)} ordered pairs: {bad[:2]}",
                replay=script("""
                    import io, contextlib
                    from nsl import Compiler
                    src = {{src}}
                    with contextlib.redirect_stdout(io.StringIO()):
                        r = Compiler.Compiler().Compile(src)
                    sigs = {n: [str(t) for t in fn.Type.Arguments.values()] for n, fn in r.IRModule.Functions.items()}
                    print('IR signatures:', sigs)
                    two = [v for n, v in sigs.items() if 'scale' in n]
                    if len(two) == 2 and two[0] == two[1]: print('two overloads with different parameter types have the same IR signature'); print('REPLAY-CONFIRMED')
                    """, src=SRC) if gname == "overloads" else None)


@family("LOWER.argaccess", props=["C01", "C03", "C14", "C06", "C07"], functions=["nsl.passes.RewriteFunctionArgAccess::RewriteFunctionArgAccessVisitor.v_Function",
                                                              "nsl.passes.RewriteFunctionArgAccess::RewriteFunctionArgAccessVisitor.v_VariableAccessInstruction"])
def lower_argaccess(R):
    """The index substituted for a parameter name is its position in the function type (the position at which Invoke / CALL place the argument);
    the rewritten instruction keeps reference, type, store operand and parent; other scopes are untouched."""
    ir = IR()
    cls = resolve("nsl.passes.RewriteFunctionArgAccess::RewriteFunctionArgAccessVisitor")
    I = ir.IntegerType()
    names = ["alpha", "beta", "gamma"]
    f = ir.Function("f", ir.FunctionType(I, collections.OrderedDict((n, I) for n in names)))
    bb = f.CreateBasicBlock()
    b2 = f.CreateBasicBlock()
    loads = [bb.AddInstruction(ir.VariableAccessInstruction(I, n, ir.VariableAccessScope.FUNCTION_ARGUMENT)) for n in reversed(names)]
    st = ir.VariableAccessInstruction(I, "beta", ir.VariableAccessScope.FUNCTION_ARGUMENT)
    st.SetStore(loads[0])
    b2.AddInstruction(st)
    loc = bb.AddInstruction(ir.VariableAccessInstruction(I, "alpha", ir.VariableAccessScope.FUNCTION_LOCAL))
    glo = b2.AddInstruction(ir.VariableAccessInstruction(I, "gamma", ir.VariableAccessScope.GLOBAL))
    refs = [i.Reference for i in f.Instructions]
    m = ir.Module()
    m.Functions["f"] = f
    cls().Visit(m)
    ins = f.Instructions
    want = {2: "gamma", 1: "beta", 0: "alpha"}
    got = [(i.Variable, i.Scope.name) for i in ins]
    newst = [i for i in ins if i.Parent is b2 and i.Scope == ir.VariableAccessScope.FUNCTION_ARGUMENT]
    ok = [i.Reference for i in ins] == refs and [i.Variable for i in ins[:3]] == [2, 1, 0] and len(newst) == 1 and newst[0].Variable == 1 and newst[0].Store is not None \
        and newst[0].Store.Reference == refs[0] and newst[0].OpCode == ir.OpCode.STORE and loc in ins and glo in ins and loc.Variable == "alpha" and glo.Variable == "gamma"
    R.check("LOWER.argaccess", "nsl.passes.RewriteFunctionArgAccess::RewriteFunctionArgAccessVisitor.v_VariableAccessInstruction", ok, detail=f"after the pass: {got}")
    # unnamed parameters (generated names `$arg$N`) count as positions: `f(int, float b)` reads b at position 1
    for layout in (["$arg$0", "b"], ["a", "$arg$1", "c"], ["$arg$0", "$arg$1", "c"], ["a", "b", "$arg$2"]):
        f2 = ir.Function("f", ir.FunctionType(I, collections.OrderedDict((n, I) for n in layout)))
        bb2 = f2.CreateBasicBlock()
        named = [n for n in layout if not n.startswith("$")]
        lds = [bb2.AddInstruction(ir.VariableAccessInstruction(I, n, ir.VariableAccessScope.FUNCTION_ARGUMENT)) for n in named]
        m2 = ir.Module()
        m2.Functions["f"] = f2
        cls().Visit(m2)
        got2 = [i.Variable for i in f2.Instructions]
        R.check(f"LOWER.argaccess.unnamed[{','.join(layout)}]", "nsl.passes.RewriteFunctionArgAccess::RewriteFunctionArgAccessVisitor.v_Function", got2 == [layout.index(n) for n in named],
                detail=f"parameters {layout}: accesses of {named} rewritten to positions {got2}")


# ---------------------------------------------------------------------------
# rewrite pass and grammar actions (C01.rewrite / C01.parse / C16.parse)

@family("FRONT.rewrite", props=["C01", "C08", "C20"], functions=["nsl.passes.RewriteAssignEqualOperations::RewriteAssignEqualVisitor.v_AssignmentExpression"])
def front_rewrite(R):
    """`x op= e` becomes `x = x op e` with the operator of that spelling; `x = e` is returned unchanged."""
    a = ag.A()
    import nsl.op as op
    cls = resolve("nsl.passes.RewriteAssignEqualOperations::RewriteAssignEqualVisitor")
    for aop, bop in (("ASSIGN_ADD_EQUAL", "ADD"), ("ASSIGN_SUB_EQUAL", "SUB"), ("ASSIGN_MUL_EQUAL", "MUL"), ("ASSIGN_DIV_EQUAL", "DIV")):
        # both operands range over an opaque node and a real node of every expression class (every binary operator): the rewrite must keep
        # the right-hand side as ONE operand -- `x *= a / b` is `x = x * (a / b)`, never `(x * a) / b`
        for (ll, ml), (rl, mr) in itertools.product(ag.variants("E"), repeat=2):
            if ll != "opaque" and rl != "opaque":
                continue
            l, r = ml(), mr()
            n = a.AssignmentExpression(l, r, operation=op.Operation[aop])
            v = cls()
            step = ag.visitor_step(v, n, None)
            res = step.result
            ok = step.raised is None and isinstance(res, a.AssignmentExpression) and res.GetOperation() == op.Operation.ASSIGN and res.GetLeft() is l and isinstance(res.GetRight(), a.BinaryExpression) \
                and type(res.GetRight()) is a.BinaryExpression and res.GetRight().GetOperation() == op.Operation[bop] and res.GetRight().GetLeft() is l and res.GetRight().GetRight() is r
            lab = aop if (ll, rl) == ("opaque", "opaque") else f"{aop},left={ll},right={rl}"
            R.check(f"FRONT.rewrite[{lab}]", "nsl.passes.RewriteAssignEqualOperations::RewriteAssignEqualVisitor.v_AssignmentExpression", ok,
                    detail=f"`l {aop} r` must become `l = (l {bop} r)` with r kept as one operand; rewritten to {res} (raised {step.raised!r})")
    # the pass rewrites EVERY compound assignment of the tree: the handler hands both operands to the visitor (a compound assignment nested in
    # the right-hand side -- `x = y += 2`, `x += y -= 1` -- or in an index of the target is rewritten by the recursive visit) and builds its
    # result from what the visits return
    for aop, bop in (("ASSIGN", None), ("ASSIGN_ADD_EQUAL", "ADD"), ("ASSIGN_SUB_EQUAL", "SUB"), ("ASSIGN_MUL_EQUAL", "MUL"), ("ASSIGN_DIV_EQUAL", "DIV")):
        l, r = ag.E("l"), ag.E("r")
        l2, r2 = ag.E("l2"), ag.E("r2")
        n = a.AssignmentExpression(l, r, operation=op.Operation[aop])
        step = ag.visitor_step(cls(), n, None, hypothesis=lambda obj, c, st, l=l, r=r, l2=l2, r2=r2: l2 if obj is l else (r2 if obj is r else None))
        res = step.result if step.result is not None else n
        visited = [o for o, _c in step.visits]
        ok = step.raised is None and any(o is l for o in visited) and any(o is r for o in visited) and isinstance(res, a.AssignmentExpression) \
            and res.GetOperation() == op.Operation.ASSIGN and res.GetLeft() is l2
        if ok and bop is None:
            ok = res.GetRight() is r2
        elif ok:
            ok = isinstance(res.GetRight(), a.BinaryExpression) and res.GetRight().GetOperation() == op.Operation[bop] and res.GetRight().GetLeft() is l2 and res.GetRight().GetRight() is r2
        R.check(f"FRONT.rewrite.descends[{aop}]", "nsl.passes.RewriteAssignEqualOperations::RewriteAssignEqualVisitor.v_AssignmentExpression", ok,
                detail=f"operands visited: {len(visited)} visit(s) ({'l' if any(o is l for o in visited) else '-'}{'r' if any(o is r for o in visited) else '-'}); result {res} (raised {step.raised!r}); "
                       "both operands must be handed to the visitor and the result built from the visits' results",
                replay=script("""
                    import io, contextlib
                    from nsl import Compiler, LinearIR, VM
                    bad = []
                    for src, want in (('export function f(int a) -> int { int x = 0; int y = 5; x = y += a; return ((x * 100) + y); }', 707),
                                      ('export function f(int a) -> int { int x = 1; int y = 5; x += y += a; return ((x * 100) + y); }', 807),
                                      ('export function f(int a) -> int { int x = 1; int y = 5; x *= y -= a; return ((x * 100) + y); }', 303)):
                        with contextlib.redirect_stdout(io.StringIO()):
                            r = Compiler.Compiler().Compile(src)
                        lk = LinearIR.Linker(); lk.AddModule(r.IRModule)
                        got = VM.VirtualMachine(lk.Link()).Invoke('f', a=2)
                        print(src, '-> f(2) =', got, 'expected', want)
                        if got != want: bad.append(src)
                    if bad: print('REPLAY-CONFIRMED')
                    """))
    # ranges: the pass runs BEFORE update-locations, so operands may or may not have a known range yet.  Whatever range the new node gets is the
    # explicit unknown, or a range that starts at a text offset (>= 0), covers the operands whose range is known and stays inside the range of
    # the node it replaces (C20: a reported range designates text)
    for lk, rk, nk in itertools.product((False, True), repeat=3):
        l, r = a.PrimaryExpression("l"), a.BinaryExpression(op.Operation.MUL, a.PrimaryExpression("p"), a.PrimaryExpression("q"))
        n = a.AssignmentExpression(l, r, operation=op.Operation.ASSIGN_ADD_EQUAL)
        if lk:
            l.SetLocation(a.Location((10, 11)))
        if rk:
            r.SetLocation(a.Location((15, 20)))
        if nk:
            n.SetLocation(a.Location((10, 20)))
        step = ag.visitor_step(cls(), n, None)
        res = step.result
        loc = res.GetLocation() if step.raised is None and res is not None else None
        known = [x for x, k in ((l, lk), (r, rk)) if k]
        ok = loc is not None and (loc.IsUnknown or (0 <= loc.GetBegin() <= loc.GetEnd() and all(loc.GetBegin() <= x.GetLocation().GetBegin() and x.GetLocation().GetEnd() <= loc.GetEnd() for x in known)
                                                  and (not nk or (10 <= loc.GetBegin() and loc.GetEnd() <= 20))))
        R.check(f"FRONT.rewrite.range[left {'known' if lk else 'unknown'},right {'known' if rk else 'unknown'},node {'known' if nk else 'unknown'}]",
                "nsl.passes.RewriteAssignEqualOperations::RewriteAssignEqualVisitor.v_AssignmentExpression", ok,
                detail=f"the rewritten node has the range ({loc.GetBegin()}, {loc.GetEnd()})" if loc is not None else f"raised {step.raised!r}",
                replay=script("""
                    import io, contextlib
                    from nsl import parser
                    from nsl.passes import UpdateLocations, RewriteAssignEqualOperations
                    src = 'export function f(int a, int b) -> int {\\n int x = a;\\n x += (a * b);\\n return x; }'
                    with contextlib.redirect_stdout(io.StringIO()):
                        tree = parser.NslParser().Parse(src)
                        RewriteAssignEqualOperations.GetPass().Process(tree)
                        UpdateLocations.GetPass().Process(tree)
                    bad = []
                    def walk(n):
                        l = n.GetLocation()
                        if not l.IsUnknown and not (0 <= l.GetBegin() <= l.GetEnd() <= len(src)): bad.append((type(n).__name__, l.GetBegin(), l.GetEnd()))
                        n.ForEachChild(lambda c, ctx: walk(c))
                    walk(tree)
                    print(bad[:4])
                    if bad: print('REPLAY-CONFIRMED')
                    """))
    l, r = ag.E("l"), ag.E("r")
    n = a.AssignmentExpression(l, r)
    res = cls().v_Generic(n, None)
    R.check("FRONT.rewrite[ASSIGN]", "nsl.passes.RewriteAssignEqualOperations::RewriteAssignEqualVisitor.v_AssignmentExpression", res is n or res is None, detail="plain assignment must stay")


@family("FRONT.parse-actions", props=["C01", "C08", "C16", "C13", "C11", "C12", "C10", "C03"], functions=["nsl.parser::NslParser.p_*", "nsl.op::StrToOp"],
        assumptions=["the real grammar actions run on a parser created without __init__ and a stand-in production object; the role of each right-hand-side symbol is read from the action's own docstring production"])
def front_parse_actions(R):
    """Each grammar action builds the node its production names, with the sub-trees in the roles their positions dictate: condition/body/else/
    init/next of the statements, ++/-- as ADD/SUB with PRE/POST by token position, the assignment operator of that spelling, operands of a
    binary expression in source order (both alternatives), declarations with name and initialiser, import names, array sizes in source order."""
    from .location_c import FakeP, new_parser
    a = ag.A()
    import nsl.op as op
    import nsl.types as ty
    P = "nsl.parser::NslParser."

    def act(name, values):
        p = FakeP(list(values), list(range(1, len(values) + 1)))
        resolve(P + name)(new_parser(), p)
        return p[0]

    # Every action is run with an opaque node and with one REAL node of every statement / expression class in each child position: an action
    # must not look inside the sub-trees it is handed (e.g. drop a statement because the previous one is a return).
    def stmt_actions(mkS, mkE, vl):
        c, t, f, b, i, n, e = mkE(), mkS(), mkS(), mkS(), ag.N("i"), mkE(), mkE()
        r = act("p_selection_statement_1", ["if", "(", c, ")", t])
        R.check(f"FRONT.parse[{vl}selection_statement_1]", P + "p_selection_statement_1", isinstance(r, a.IfStatement) and r.GetCondition() is c and r.GetTruePath() is t and not r.HasElsePath(), detail=str(r))
        r = act("p_selection_statement_2", ["if", "(", c, ")", t, "else", f])
        R.check(f"FRONT.parse[{vl}selection_statement_2]", P + "p_selection_statement_2", isinstance(r, a.IfStatement) and r.GetCondition() is c and r.GetTruePath() is t and r.GetElsePath() is f, detail=str(r))
        r = act("p_iteration_statement_1", ["for", "(", i, ";", c, ";", n, ")", b])
        R.check(f"FRONT.parse[{vl}iteration_statement_1]", P + "p_iteration_statement_1", isinstance(r, a.ForStatement) and r.GetInitialization() is i and r.GetCondition() is c and r.GetNext() is n and r.GetBody() is b, detail="for: init/cond/next/body roles")
        r = act("p_iteration_statement_2", ["while", "(", c, ")", b])
        R.check(f"FRONT.parse[{vl}iteration_statement_2]", P + "p_iteration_statement_2", isinstance(r, a.WhileStatement) and r.GetCondition() is c and r.GetBody() is b, detail="while: cond/body roles")
        r = act("p_iteration_statement_3", ["do", b, "while", "(", c, ")"])
        R.check(f"FRONT.parse[{vl}iteration_statement_3]", P + "p_iteration_statement_3", isinstance(r, a.DoStatement) and r.GetCondition() is c and r.GetBody() is b, detail="do: body/cond roles")
        R.check(f"FRONT.parse[{vl}iteration_statement_4]", P + "p_iteration_statement_4", type(act("p_iteration_statement_4", ["continue", ";"])) is a.ContinueStatement, detail="continue")
        R.check(f"FRONT.parse[{vl}iteration_statement_5]", P + "p_iteration_statement_5", type(act("p_iteration_statement_5", ["break", ";"])) is a.BreakStatement, detail="break")
        r = act("p_return_statement_1", ["return", e, ";"])
        R.check(f"FRONT.parse[{vl}return_statement_1]", P + "p_return_statement_1", isinstance(r, a.ReturnStatement) and r.GetExpression() is e, detail="return e")
        r = act("p_return_statement_2", ["return", ";"])
        R.check(f"FRONT.parse[{vl}return_statement_2]", P + "p_return_statement_2", isinstance(r, a.ReturnStatement) and r.GetExpression() is None, detail="return")
        stmts = [mkS(), mkS()]
        r = act("p_compound_statement", ["{", stmts, "}"])
        R.check(f"FRONT.parse[{vl}compound_statement]", P + "p_compound_statement", isinstance(r, a.CompoundStatement) and list(r.GetStatements()) == stmts, detail="block")
        r = act("p_statement_list_1", [[stmts[0]], stmts[1]])
        R.check(f"FRONT.parse[{vl}statement_list]", P + "p_statement_list_1", r == stmts, detail="statement order")
        r = act("p_expression_statement", [e, ";"])
        R.check(f"FRONT.parse[{vl}expression_statement]", P + "p_expression_statement", isinstance(r, a.ExpressionStatement) and r.GetExpression() is e, detail="expr;")
        d = ag.N("d")
        r = act("p_declaration_statement", [d, ";"])
        R.check(f"FRONT.parse[{vl}declaration_statement]", P + "p_declaration_statement", isinstance(r, a.DeclarationStatement) and r.GetDeclarations() == [d], detail="decl;")

    for vl, mk in ag.variants("S"):
        stmt_actions(mk, lambda: ag.E("e"), "" if vl == "opaque" else f"S={vl}:")
    for vl, mk in ag.variants("E"):
        if vl != "opaque":
            stmt_actions(lambda: ag.S("s"), mk, f"E={vl}:")
    # statement lists: every (previous statement class, appended statement class) pair is kept, in order
    for (l0, m0), (l1, m1) in itertools.product(ag.variants("S"), repeat=2):
        s0, s1, s2 = ag.S("first"), m0(), m1()
        r = act("p_statement_list_1", [[s0, s1], s2])
        R.check(f"FRONT.parse[statement_list:{l0},{l1}]", P + "p_statement_list_1", isinstance(r, list) and len(r) == 3 and r[0] is s0 and r[1] is s1 and r[2] is s2,
                detail=f"`statement_list statement` must append the statement whatever the classes of its neighbours: got {r}")
    e = ag.E("e")
    for tok, o in (("++", op.Operation.ADD), ("--", op.Operation.SUB)):
        r = act("p_unary_expression_3", [tok, "x"])
        R.check(f"FRONT.parse[unary_expression_3,{tok}]", P + "p_unary_expression_3", isinstance(r, a.AffixExpression) and r.GetOperation() == o and r.IsPrefix() and r.GetExpression().GetName() == "x", detail="prefix")
        r = act("p_unary_expression_4", ["x", tok])
        R.check(f"FRONT.parse[unary_expression_4,{tok}]", P + "p_unary_expression_4", isinstance(r, a.AffixExpression) and r.GetOperation() == o and r.IsPostfix() and r.GetExpression().GetName() == "x", detail="postfix")
    for sp, o in (("=", "ASSIGN"), ("+=", "ASSIGN_ADD_EQUAL"), ("-=", "ASSIGN_SUB_EQUAL"), ("*=", "ASSIGN_MUL_EQUAL"), ("/=", "ASSIGN_DIV_EQUAL")):
        r = act("p_assignment_op", [sp])
        R.check(f"FRONT.parse[assignment_op,{sp}]", P + "p_assignment_op", r == op.Operation[o], detail=f"{sp} -> {r}")
        l2, r2 = ag.E("l"), ag.E("r")
        n2 = act("p_assignment_expression", [l2, op.Operation[o], r2])
        R.check(f"FRONT.parse[assignment_expression,{sp}]", P + "p_assignment_expression", isinstance(n2, a.AssignmentExpression) and n2.GetLeft() is l2 and n2.GetRight() is r2 and n2.GetOperation() == op.Operation[o], detail="assignment roles")
    # binary expressions: every alternative of every production whose left-hand side is binary_expression (read from the docstrings)
    from .types_c import OPSTR
    import nsl.parser as PM
    tokspell = {"LT": "<", "GT": ">", "PLUS": "+", "MINUS": "-", "TIMES": "*", "DIVIDE": "/", "MOD": "%", "GE": ">=", "LE": "<=", "EQ": "==", "NE": "!=", "LAND": "&&", "LOR": "||"}
    spell2op = {v: k for k, v in OPSTR.items()}
    seen_ops = set()
    for mname in sorted(dir(PM.NslParser)):
        meth = getattr(PM.NslParser, mname)
        doc = getattr(meth, "__doc__", None) or ""
        if not mname.startswith("p_") or not doc.strip().startswith("binary_expression"):
            continue
        alts = [x.strip().split() for x in doc.split(":", 1)[1].split("|")]
        for alt in alts:
            opsyms = [x for x in alt if x in tokspell or x == "bin_op"]
            spellings = list(tokspell.values()) if "bin_op" in alt else [tokspell[x] for x in opsyms] or [None]
            for sp, operand_kind in itertools.product(spellings, ("opaque", "same-operator", "other-operator")):
                vals, nodes = [], []
                for sym in alt:
                    if sym in tokspell or sym == "bin_op":
                        vals.append(sp)
                    elif sym.startswith("'"):
                        vals.append(sym.strip("'"))
                    else:
                        if operand_kind == "opaque" or sp is None:
                            n_ = ag.E(f"n{len(nodes)}")
                        else:
                            # the operand is itself a (parenthesised) binary expression: the action must not look inside it
                            oo = op.Operation[spell2op[sp]] if operand_kind == "same-operator" else (op.Operation.ADD if sp != "+" else op.Operation.MUL)
                            n_ = a.BinaryExpression(oo, ag.E(f"n{len(nodes)}l"), ag.E(f"n{len(nodes)}r"))
                        nodes.append(n_)
                        vals.append(n_)
                if sp is None and operand_kind != "opaque":
                    continue
                res = act(mname, vals)
                lab = f"{mname}:{' '.join(alt)}" + (f",{sp},{operand_kind}-operands" if sp else "")
                if sp is None:
                    R.check(f"FRONT.parse[{lab}]", P + mname, len(nodes) == 1 and res is nodes[0], detail="a parenthesised expression must be the inner expression itself")
                else:
                    seen_ops.add(sp)
                    ok = type(res) is a.BinaryExpression and res.GetOperation() == op.Operation[spell2op[sp]] and len(nodes) == 2 and res.GetLeft() is nodes[0] and res.GetRight() is nodes[1]
                    R.check(f"FRONT.parse[{lab}]", P + mname, ok, detail=f"expected BinaryExpression({spell2op[sp]}, left, right) with the operands in source order, got {res}")
    R.check("FRONT.parse[binary_expression.all-operators]", P + "p_binary_expression", seen_ops == set(tokspell.values()), detail=f"operators with a production: {sorted(seen_ops)}")
    # two arguments built by the same action do not share a modifier set (mutable state shared between nodes would let one declaration
    # change another -- e.g. mark every parameter of every later function optional)
    for nm, vals in (("p_argument_1", [None, ty.Integer(), "a"]), ("p_argument_2", [None, ty.Integer()])):
        try:
            a1 = act(nm, list(vals))
            a2 = act(nm, list(vals))
            m1, m2 = a1.GetModifiers(), a2.GetModifiers()
            okm = m1 is not m2 and not m1 and not m2 and not a1.IsOptional()
            detm = f"modifier sets of two parsed arguments: {'one shared object' if m1 is m2 else 'distinct'}, contents {m1!r} / {m2!r}"
        except Exception as e:
            okm, detm = False, f"raised {type(e).__name__}: {e}"
        R.check(f"FRONT.parse[{nm}.own-modifiers]", P + nm, okm, detail=detm)
    r = act("p_var_decl_1", [ty.Integer(), "name"])
    R.check("FRONT.parse[var_decl_1]", P + "p_var_decl_1", isinstance(r, a.VariableDeclaration) and r.GetName() == "name" and isinstance(r.GetType(), ty.Integer) and not r.HasInitializerExpression(), detail="decl")
    r = act("p_var_decl_2", [ty.Float(), "name", "=", e])
    R.check("FRONT.parse[var_decl_2]", P + "p_var_decl_2", isinstance(r, a.VariableDeclaration) and r.GetName() == "name" and isinstance(r.GetType(), ty.Float) and r.GetInitializerExpression() is e, detail="decl with initialiser")
    # array sizes in source order
    lit = lambda v: a.LiteralExpression(v, ty.Integer())
    s1 = act("p_array_size_declaration", ["[", lit(2), "]"])
    s2 = act("p_array_size_declaration", ["[", lit(3), "]"])
    lst = act("p_array_size_declaration_list", [act("p_array_size_declaration_list", [s1]), s2])
    at = act("p_type_4", [ty.Integer(), lst])
    R.check("FRONT.parse[array-dims]", P + "p_type_4", isinstance(at, ty.ArrayType) and tuple(at.GetSize()) == (2, 3) and isinstance(at.GetComponentType(), ty.Integer), detail=f"int[2][3] parsed with sizes {getattr(at, 'GetSize', lambda: None)()}")
    # literals
    R.check("FRONT.parse[int-literals]", P + "p_constant_integer_expression_1", act("p_constant_integer_expression_1", ["42"]).GetValue() == 42 and act("p_constant_integer_expression_2", ["017"]).GetValue() == 15
            and act("p_constant_integer_expression_3", ["0x1F"]).GetValue() == 31 and isinstance(act("p_constant_integer_expression_1", ["42"]).GetType(), ty.Integer), detail="integer literal values")
    fl = act("p_constant_float_expression", ["2.5f"])
    R.check("FRONT.parse[float-literal]", P + "p_constant_float_expression", fl.GetValue() == 2.5 and isinstance(fl.GetType(), ty.Float), detail="float literal")
    # imports (C16)
    R.check("FRONT.parse[string_literal]", P + "p_string_literal", act("p_string_literal", ['"std"']) == "std", detail="quotes stripped")
    R.check("FRONT.parse[import_statement]", P + "p_import_statement", act("p_import_statement", ["import", "std", ";"]) == "std", detail="import name")
    m7 = act("p_module_7", ["std"])
    R.check("FRONT.parse[module_7]", P + "p_module_7", isinstance(m7, a.Module) and m7.GetImports() == {"std"}, detail=f"imports {m7.GetImports()}")
    base = a.Module()
    m8 = act("p_module_8", [base, "lib"])
    R.check("FRONT.parse[module_8]", P + "p_module_8", m8 is base and m8.GetImports() == {"lib"}, detail=f"`<module> import \"lib\";` records imports {m8.GetImports()!r}",
            replay=script("""
                from nsl import parser
                m = parser.NslParser().Parse('int g;\\nimport "lib";\\nexport function f() -> int { return 1; }')
                print('imports:', m.GetImports())
                if m.GetImports() != {'lib'}: print('REPLAY-CONFIRMED')
                """))
    for k, (nm, adder, getter) in enumerate((("p_module_2", "function", "GetFunctions"), ("p_module_4", "declaration", "GetDeclarations"))):
        base = a.Module()
        item = ag.N("item")
        mm = act(nm, [base, item])
        R.check(f"FRONT.parse[{nm}]", P + nm, mm is base and list(getattr(mm, getter)()) == [item], detail=f"module {adder}")
