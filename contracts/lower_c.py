"""Lowering contracts (C01, C03, C04, C05, C11, C14): CFG-schema simulation.

The real LowerToIRVisitor.v_<Node> runs, with the real Context and the real
LinearIR builders, on a real AST node whose children are OPAQUE.  Visiting an
opaque child is answered by the induction hypothesis of the simulation proof:
a *ghost* instruction is appended through the real ctx.BasicBlock.AddInstruction
(an opaque statement additionally registers a break and a continue branch with
the real RegisterLoopBreak/RegisterLoopContinue: "it may break or continue").
The emitted blocks are then explored path by path, ghosts as uninterpreted
effects, and the set of paths is compared with the one-iteration unfolding of
the structured semantics of the source construct."""
from __future__ import annotations

import collections
import itertools

import z3

from pyvc.core import family, resolve, Missing
from pyvc.sym import Unsupported
from pyvc.util import script, getpriv
from . import astgen as ag
from . import types_c as tc

LOW = "nsl.passes.LowerToIR::LowerToIRVisitor"


def IR():
    import nsl.LinearIR as m
    return m


_ghost = {}


def ghost_classes():
    if _ghost:
        return _ghost
    ir = IR()

    class Ghost(ir.Instruction):
        """Uninterpreted code of an opaque child."""

        def __init__(self, tag, kind, irtype=None):
            super().__init__(ir.OpCode.INVALID, irtype or ir.VoidType())
            self.tag = tag
            self.kind = kind            # 'expr' | 'stmt' | 'store' | 'marker'
            self.store = None
            self.brk = None
            self.cont = None

        def SetStore(self, v):
            self.store = v
            self.kind = "store"

        @property
        def Store(self):
            return self.store

        @property
        def Uses(self):
            return [self.store.Reference] if self.store is not None else []

        def ReplaceUses(self, ref, new):
            if self.store is not None and self.store.Reference == ref:
                self.store = new

        def __repr__(self):
            return f"<ghost {self.kind} {self.tag}>"

    _ghost["Ghost"] = Ghost
    return _ghost


class Lowering:
    """One run of a real lowering handler on a node with opaque children."""

    def __init__(self, arg_types=None, globals_=(), locals_=()):
        ir = IR()
        low = resolve(LOW)
        self.ir = ir
        self.ctx = low.Context()
        self.vis = low(self.ctx)
        for g in globals_:
            getpriv(self.ctx, "Context", "__globals")[g] = ir.VariableAccessScope.GLOBAL
        ft = ir.FunctionType(ir.IntegerType(), collections.OrderedDict(arg_types or {"p0": ir.IntegerType()}))
        self.ctx.OnEnterFunction("f", ft)
        for l in locals_:
            self.ctx.RegisterFunctionLocalVariable(l)
        self.function = self.ctx.Function
        self.ghosts = []
        self.G = ghost_classes()["Ghost"]
        self.in_outer_loop = False

    def marker(self, tag):
        g = self.G(tag, "marker")
        self.ctx.BasicBlock.AddInstruction(g)
        return g

    def spy(self, root):
        real = type(self.vis).v_Generic
        vis, ctx = self.vis, self.ctx

        def v_generic(obj, c=None):
            if obj is root or not ag.is_opaque(obj):
                return real(vis, obj, c)
            # the induction hypothesis for an opaque child
            vis.OnEnter(obj, c)
            try:
                kind = {"OpaqueStmt": "stmt", "OpaqueNode": "decl"}.get(type(obj).__name__, "expr")
                t = None
                if kind == "expr" and obj.GetType() is not None:
                    t = ctx.AdaptType(obj.GetType())
                g = self.G(obj.tag, kind, t)
                if kind == "expr" and ctx.InAssignment:
                    g.SetStore(ctx.AssignmentValue)
                ctx.BasicBlock.AddInstruction(g)
                if kind == "stmt" and getpriv(ctx, "Context", "__loops"):
                    g.brk, g.cont = self.ir.BranchInstruction(None), self.ir.BranchInstruction(None)
                    ctx.RegisterLoopBreak(g.brk)
                    ctx.RegisterLoopContinue(g.cont)
                self.ghosts.append(g)
                return g if kind == "expr" else None
            finally:
                vis.OnLeave(None, c)

        return v_generic

    def run(self, node, outer_loop=True):
        """ENTRY; [outer BeginLoop]; real v_Generic(node); [outer EndLoop]; EXIT"""
        self.node = node
        self.entry = self.marker("ENTRY")
        if outer_loop:
            self.ctx.BeginLoop()
        self.vis.v_Generic = self.spy(node)
        try:
            self.result = self.vis.v_Generic(node, self.ctx)
        finally:
            del self.vis.v_Generic
        self.outer = None
        if outer_loop:
            o = self.ctx.EndLoop()
            self.outer = (list(getpriv(o, "_BreakContinueStatements", "__breakStatements")), list(getpriv(o, "_BreakContinueStatements", "__continueStatements")))
        self.exit = self.marker("EXIT")
        return self.result

    # -- the schema explorer ------------------------------------------------
    def flatten(self):
        instrs, offsets = [], {}
        for bb in self.function.BasicBlocks:
            offsets[id(bb)] = len(instrs)
            instrs.extend(bb.Instructions)
        return instrs, offsets

    def paths(self, limit=400):
        """All paths from ENTRY to {EXIT, return, back edge, break-out, continue-out}.  Each path: tuple of events."""
        ir = self.ir
        instrs, offsets = self.flatten()
        blocks = {id(b) for b in self.function.BasicBlocks}
        start = instrs.index(self.entry) + 1
        out = []
        problems = []
        consts = {c.Reference for c in self.function.Constants}
        work = [(start, (), frozenset(), frozenset(i.Reference for i in instrs[:start]) | consts)]
        while work:
            pc, trace, seen, defined = work.pop()
            if len(out) > limit:
                raise Unsupported("too many schema paths")
            if pc >= len(instrs):
                out.append(trace + (("fell-off-the-end",),))
                continue
            ins = instrs[pc]
            if pc in seen:
                # back edge: name the first ghost at or after the target
                tgt = next((i.tag for i in instrs[pc:] if isinstance(i, self.G)), "?")
                out.append(trace + (("loop", tgt),))
                continue
            seen2 = seen | {pc}
            if ins is self.exit:
                out.append(trace + (("exit",),))
                continue
            # def-before-use on this path (C14)
            if not isinstance(ins, ir.BranchInstruction):
                for u in ins.Uses:
                    if u not in defined:
                        problems.append(f"{type(ins).__name__} %{ins.Reference} uses %{u}, which is not defined earlier on the path {trace}")
            elif ins.Predicate is not None and ins.Predicate.Reference not in defined:
                problems.append(f"branch predicate %{ins.Predicate.Reference} is not defined earlier on the path {trace}")
            defined2 = defined | {ins.Reference}
            if isinstance(ins, self.G):
                if ins.kind in ("expr", "store", "marker", "decl"):
                    ev = ("store", ins.tag, _vtag(ins.store)) if ins.kind == "store" else (("s", ins.tag, "norm") if ins.kind == "decl" else ("e", ins.tag))
                    work.append((pc + 1, trace + (ev,), seen2, defined2))
                    continue
                # opaque statement: normal / break / continue / return
                work.append((pc + 1, trace + (("s", ins.tag, "norm"),), seen2, defined2))
                out.append(trace + (("s", ins.tag, "ret"), ("return", "?")))
                for what, br, idx in (("brk", ins.brk, 0), ("cont", ins.cont, 1)):
                    if br is None:
                        continue
                    ev = trace + (("s", ins.tag, what),)
                    if br.TrueBlock is not None:
                        if id(br.TrueBlock) not in blocks:
                            problems.append(f"{what} branch of {ins.tag} targets a block of another function")
                            continue
                        work.append((offsets[id(br.TrueBlock)], ev, seen2, defined2))
                    elif self.outer is not None and any(br is x for x in self.outer[idx]):
                        out.append(ev + (("break-out",) if what == "brk" else ("continue-out",),))
                    else:
                        out.append(ev + ((f"unpatched-{what}",),))
                        problems.append(f"the {what} branch of statement {ins.tag} was neither patched nor handed to the enclosing loop")
                continue
            if isinstance(ins, ir.BranchInstruction):
                t, f, p = ins.TrueBlock, ins.FalseBlock, ins.Predicate
                if t is None:
                    if self.outer is not None and any(ins is x for x in self.outer[0]):
                        out.append(trace + (("break-out",),))
                    elif self.outer is not None and any(ins is x for x in self.outer[1]):
                        out.append(trace + (("continue-out",),))
                    else:
                        problems.append("a branch without target is neither a registered break nor a registered continue")
                        out.append(trace + (("unpatched-branch",),))
                    continue
                for b in (t, f):
                    if b is not None and id(b) not in blocks:
                        problems.append("branch targets a block that is not in the function")
                if p is not None:
                    if f is None:
                        problems.append("conditional branch without false target")
                        out.append(trace + (("t", _vtag(p), True), ("stuck",)))
                        continue
                    work.append((offsets[id(t)], trace + (("t", _vtag(p), True),), seen2, defined2))
                    work.append((offsets[id(f)], trace + (("t", _vtag(p), False),), seen2, defined2))
                else:
                    work.append((offsets[id(t)], trace, seen2, defined2))
                continue
            if isinstance(ins, ir.ReturnInstruction):
                out.append(trace + (("return", _vtag(ins.Value)),))
                continue
            work.append((pc + 1, trace + (("i", _describe(ins)),), seen2, defined2))
        self.problems = problems
        return set(out)


def _vtag(v):
    if v is None:
        return None
    G = ghost_classes()["Ghost"]
    if isinstance(v, G):
        return v.tag
    ir = IR()
    if isinstance(v, ir.ConstantValue):
        return ("const", v.Value)
    return ("%", type(v).__name__, v.Reference)


def _describe(ins):
    ir = IR()
    if isinstance(ins, ir.BinaryInstruction):
        return (ins.OpCode.name, _vtag(ins.Values[0]), _vtag(ins.Values[1]))
    if isinstance(ins, ir.VariableAccessInstruction):
        return ("store" if ins.Store is not None else "load", ins.Scope.name, ins.Variable, _vtag(ins.Store))
    if isinstance(ins, ir.DeclareVariableInstruction):
        return ("declare", ins.Name)
    if isinstance(ins, ir.CastInstruction):
        return ("cast", str(ins.Type), _vtag(ins.Value))
    if isinstance(ins, ir.CallInstruction):
        return ("call", ins.Function, tuple(_vtag(a) for a in ins.Arguments))
    return (type(ins).__name__,)


# ---------------------------------------------------------------------------
# structured semantics of the source constructs (one iteration unfolding)

def stmt_outcomes(tag, then_norm, brk, cont):
    """paths through an opaque statement `tag`: continuation per outcome"""
    out = set()
    for rest in then_norm:
        out.add((("s", tag, "norm"),) + rest)
    out.add((("s", tag, "ret"), ("return", "?")))
    for rest in brk:
        out.add((("s", tag, "brk"),) + rest)
    for rest in cont:
        out.add((("s", tag, "cont"),) + rest)
    return out


EXIT = (("exit",),)
BRKOUT = (("break-out",),)
CONTOUT = (("continue-out",),)


def sem_if(has_else):
    out = set()
    for p in stmt_outcomes("t", [EXIT], [BRKOUT], [CONTOUT]):
        out.add((("e", "c"), ("t", "c", True)) + p)
    if has_else:
        for p in stmt_outcomes("f", [EXIT], [BRKOUT], [CONTOUT]):
            out.add((("e", "c"), ("t", "c", False)) + p)
    else:
        out.add((("e", "c"), ("t", "c", False)) + EXIT)
    return out


def sem_while():
    out = {(("e", "c"), ("t", "c", False)) + EXIT}
    back = (("loop", "c"),)
    for p in stmt_outcomes("b", [back], [EXIT], [back]):
        out.add((("e", "c"), ("t", "c", True)) + p)
    return out


def sem_do():
    out = set()
    after = [(("e", "c"), ("t", "c", True), ("loop", "b")), (("e", "c"), ("t", "c", False)) + EXIT]
    return stmt_outcomes("b", after, [EXIT], after)


def sem_for(has_init, has_cond, has_next):
    pre = ((("s", "init", "norm"),) if has_init else ())
    head = pre
    nxt = ((("e", "n"),) if has_next else ())
    first_in_loop = "c" if has_cond else "b"
    back = nxt + (("loop", first_in_loop),)
    out = set()
    if has_cond:
        out.add(head + (("e", "c"), ("t", "c", False)) + EXIT)
        intro = head + (("e", "c"), ("t", "c", True))
    else:
        intro = head
    for p in stmt_outcomes("b", [back], [EXIT], [back]):
        out.add(intro + p)
    if has_init:
        # the initialiser is a declaration: it cannot break/continue/return; keep only its normal outcome
        pass
    return out


def sem_compound(n):
    def go(i):
        if i == n:
            return [EXIT]
        return list(stmt_outcomes(f"s{i}", go(i + 1), [BRKOUT], [CONTOUT]))
    return set(go(0))


WITNESS = {
    "DoStatement": ("export function f(int n) -> int { int i = 0; int s = 0; do { i = (i + 1); if (i < 3) { continue; } s = (s + i); } while (i < n); return s; }", dict(n=0), 0),
    "WhileStatement": ("export function f(int n) -> int { int i = 0; int s = 0; while (i < n) { i = (i + 1); if (i == 2) { continue; } if (i == 5) { break; } s = (s + i); } return s; }", dict(n=9), 8),
    "ForStatement": ("export function f(int n) -> int { int s = 0; for (int i = 0; i < n; ++i) { if (i == 2) { continue; } if (i == 5) { break; } s = (s + i); } return s; }", dict(n=9), 8),
    "IfStatement": ("export function f(int n) -> int { int s = 0; if (n > 2) { s = 1; } else { s = 2; } if (n > 100) { s = (s + 10); } return s; }", dict(n=5), 1),
    "nested": ("export function f(int n) -> int { int s = 0; for (int i = 0; i < n; ++i) { for (int j = 0; j < n; ++j) { if (j == 1) { break; } s = (s + 1); } if (i == 1) { continue; } s = (s + 100); } int k = 0; while (k < 2) { k = (k + 1); if (k == 1) { continue; } s = (s + 1000); } return s; }", dict(n=3), 1203),
}


def witness_replay(key):
    src, args, want = WITNESS[key]
    return script("""
        import io, contextlib
        from nsl import Compiler, LinearIR, VM
        src = {{src}}
        out = []
        for opt in (False, True):
            try:
                with contextlib.redirect_stdout(io.StringIO()):
                    r = Compiler.Compiler().Compile(src, {'optimize': opt})
                l = LinearIR.Linker(); l.AddModule(r.IRModule)
                out.append(VM.VirtualMachine(l.Link()).Invoke('f', **{{args}}))
            except BaseException as e:
                out.append('raised %s: %s' % (type(e).__name__, e))
        print(src); print('f(%s) =' % {{args}}, out, '; source semantics:', {{want}})
        if any(o != {{want}} for o in out): print('REPLAY-CONFIRMED')
        """, src=src, args=args, want=want)


def _fmt(paths):
    def ev(e):
        if e[0] == "e":
            return e[1]
        if e[0] == "t":
            return f"[{'' if e[2] else '!'}{e[1]}]"
        if e[0] == "s":
            return f"{e[1]}:{e[2]}"
        if e[0] == "loop":
            return f"↺{e[1]}"
        return e[0] + ("(" + str(e[1]) + ")" if len(e) > 1 else "")
    return sorted(" ".join(ev(e) for e in p) for p in paths)


def check_schema(R, oid, fn, lw, got, want, key=None):
    miss, extra = want - got, got - want
    R.check(oid + ".paths", fn, not miss and not extra,
            detail=f"paths of the emitted code differ from the source semantics; missing: {_fmt(miss)[:6]}; unexpected: {_fmt(extra)[:6]}",
            replay=witness_replay(key) if key else None)
    R.check(oid + ".wellformed", fn, not lw.problems, detail="; ".join(lw.problems[:4]), replay=witness_replay(key) if key else None)
    if lw.outer is not None:
        G = ghost_classes()["Ghost"]
        # what reaches the enclosing loop is exactly the break/continue of children that are not inside a loop of this construct
        ir = IR()
        R.check(oid + ".loop-stack", fn, getpriv(lw.ctx, "Context", "__loops") == [], detail="BeginLoop/EndLoop are not balanced")


@family("LOWER.control", props=["C01", "C11", "C14", "C05"],
        functions=[LOW + ".v_IfStatement", LOW + ".v_WhileStatement", LOW + ".v_DoStatement", LOW + ".v_ForStatement", LOW + ".v_CompoundStatement", LOW + ".v_BreakStatement",
                   LOW + ".v_ContinueStatement", LOW + ".v_ReturnStatement", LOW + ".Context.BeginLoop", LOW + ".Context.EndLoop", LOW + ".Context.RegisterLoopBreak",
                   LOW + ".Context.RegisterLoopContinue", LOW + ".Context.BasicBlock", LOW + ".Context.CreateBasicBlock", LOW + ".Context.EndBasicBlock",
                   "nsl.passes.LowerToIR::_BreakContinueStatements.SetBreakTarget", "nsl.passes.LowerToIR::_BreakContinueStatements.SetContinueTarget"],
        assumptions=["induction on statement trees: opaque children are ghosts with uninterpreted effect and outcome in {normal, break, continue, return}; equality of path sets up to the loop head is a bisimulation-up-to argument covering all iteration counts",
                     "block layout order = creation order and fall-through = next instruction (VM.prologue)"])
def lower_control(R):
    """For if/else, while, do-while, for (every combination of init/cond/next), blocks, return, break, continue: the set of
    (branch decisions, ordered effects, outcome) paths of the emitted blocks equals the structured semantics: break leaves and continue
    re-tests the innermost loop (the for-increment still runs), everything a child registers inside a loop is patched by THAT loop and nothing
    leaks to the enclosing loop; every operand is defined before use on every path and every branch has its targets in the function."""
    a = ag.A()
    import nsl.types as ty
    I = ty.Integer()
    # if
    for has_else in (True, False):
        lw = Lowering()
        lw.run(a.IfStatement(ag.E("c", I), ag.S("t"), ag.S("f") if has_else else None))
        check_schema(R, f"LOWER.IfStatement[{'else' if has_else else 'noelse'}]", LOW + ".v_IfStatement", lw, lw.paths(), sem_if(has_else), "IfStatement")
    lw = Lowering()
    lw.run(a.WhileStatement(ag.E("c", I), ag.S("b")))
    check_schema(R, "LOWER.WhileStatement", LOW + ".v_WhileStatement", lw, lw.paths(), sem_while(), "WhileStatement")
    lw = Lowering()
    lw.run(a.DoStatement(ag.E("c", I), ag.S("b")))
    check_schema(R, "LOWER.DoStatement", LOW + ".v_DoStatement", lw, lw.paths(), sem_do(), "DoStatement")
    for hi, hc, hn in itertools.product((True, False), repeat=3):
        lw = Lowering()
        lw.run(a.ForStatement(ag.N("init") if hi else None, ag.E("c", I) if hc else a.EmptyExpression(), ag.E("n", I) if hn else a.EmptyExpression(), ag.S("b")))
        check_schema(R, f"LOWER.ForStatement[{'init' if hi else '-'},{'cond' if hc else '-'},{'next' if hn else '-'}]", LOW + ".v_ForStatement", lw, lw.paths(), sem_for(hi, hc, hn), "ForStatement")
    for n in (0, 1, 2, 3):
        lw = Lowering()
        lw.run(a.CompoundStatement([ag.S(f"s{i}") for i in range(n)]))
        check_schema(R, f"LOWER.CompoundStatement[{n}]", LOW + ".v_CompoundStatement", lw, lw.paths(), sem_compound(n))
    lw = Lowering()
    lw.run(a.ReturnStatement(ag.E("e", I)))
    check_schema(R, "LOWER.ReturnStatement[value]", LOW + ".v_ReturnStatement", lw, lw.paths(), {(("e", "e"), ("return", "e"))})
    lw = Lowering()
    lw.run(a.ReturnStatement())
    check_schema(R, "LOWER.ReturnStatement[void]", LOW + ".v_ReturnStatement", lw, lw.paths(), {(("return", None),)})
    lw = Lowering()
    lw.run(a.BreakStatement())
    check_schema(R, "LOWER.BreakStatement", LOW + ".v_BreakStatement", lw, lw.paths(), {BRKOUT})
    lw = Lowering()
    lw.run(a.ContinueStatement())
    check_schema(R, "LOWER.ContinueStatement", LOW + ".v_ContinueStatement", lw, lw.paths(), {CONTOUT})
    lw = Lowering()
    lw.run(a.ExpressionStatement(ag.E("e", I)))
    check_schema(R, "LOWER.ExpressionStatement", LOW + ".v_Default", lw, lw.paths(), {(("e", "e"),) + EXIT})

    # nesting and sequencing of loops: registrations never leak between loops (innermost loop rule)
    for outer_kind, inner_kind in itertools.product(("while", "do", "for"), repeat=2):
        def mk(kind, cond, body):
            if kind == "while":
                return a.WhileStatement(ag.E(cond, I), body)
            if kind == "do":
                return a.DoStatement(ag.E(cond, I), body)
            return a.ForStatement(None, ag.E(cond, I), a.EmptyExpression(), body)
        inner = mk(inner_kind, "ci", ag.S("bi"))
        node = mk(outer_kind, "co", a.CompoundStatement([ag.S("pre"), inner, ag.S("post")]))
        lw = Lowering()
        lw.run(node)
        got = lw.paths(limit=4000)
        prob = []
        for p in got:
            evs = [e for e in p]
            # a break of the inner body must continue with `post` (or the inner exit), a continue of the inner body must re-test ci / run on
            for i, e in enumerate(evs):
                if e == ("s", "bi", "brk"):
                    nxt = evs[i + 1] if i + 1 < len(evs) else None
                    if nxt not in (("s", "post", "norm"), ("s", "post", "ret"), ("s", "post", "brk"), ("s", "post", "cont")):
                        prob.append(f"break in the inner loop continues with {nxt}")
                if e == ("s", "bi", "cont"):
                    nxt = evs[i + 1] if i + 1 < len(evs) else None
                    if not (nxt == ("e", "ci") or (nxt and nxt[0] == "loop" and nxt[1] in ("ci", "bi"))):
                        prob.append(f"continue in the inner loop continues with {nxt}")
                if e in (("s", "pre", "brk"), ("s", "post", "brk")):
                    nxt = evs[i + 1] if i + 1 < len(evs) else None
                    if nxt != ("exit",):
                        prob.append(f"break in the outer loop body continues with {nxt}")
                if e in (("s", "pre", "cont"), ("s", "post", "cont")):
                    nxt = evs[i + 1] if i + 1 < len(evs) else None
                    if not (nxt == ("e", "co") or (nxt and nxt[0] == "loop")):
                        prob.append(f"continue in the outer loop body continues with {nxt}")
            if p[-1][0] in ("break-out", "continue-out", "unpatched-brk", "unpatched-cont", "unpatched-branch"):
                prob.append(f"a break/continue inside the loops escapes to the enclosing loop or stays unpatched: {_fmt([p])[0]}")
        prob += lw.problems
        R.check(f"LOWER.nested[{outer_kind}>{inner_kind}]", LOW + ".Context.BeginLoop", not prob, detail="; ".join(sorted(set(prob))[:3]), replay=witness_replay("nested"))
    # two loops in sequence
    for k1, k2 in itertools.product(("while", "do", "for"), repeat=2):
        def mk(kind, cond, body):
            if kind == "while":
                return a.WhileStatement(ag.E(cond, I), body)
            if kind == "do":
                return a.DoStatement(ag.E(cond, I), body)
            return a.ForStatement(None, ag.E(cond, I), a.EmptyExpression(), body)
        node = a.CompoundStatement([mk(k1, "c1", ag.S("b1")), ag.S("mid"), mk(k2, "c2", ag.S("b2"))])
        lw = Lowering()
        lw.run(node)
        got = lw.paths(limit=4000)
        prob = list(lw.problems)
        for p in got:
            for i, e in enumerate(p):
                nxt = p[i + 1] if i + 1 < len(p) else None
                if e == ("s", "b1", "brk") and (nxt is None or nxt[:2] != ("s", "mid")):
                    prob.append(f"break in the first loop continues with {nxt}, expected the statement after the loop")
                if e == ("s", "b1", "cont") and not (nxt == ("e", "c1") or (nxt and nxt[0] == "loop" and nxt[1] in ("c1", "b1"))):
                    prob.append(f"continue in the first loop continues with {nxt}")
                if e == ("s", "b2", "brk") and nxt != ("exit",):
                    prob.append(f"break in the second loop continues with {nxt}")
        R.check(f"LOWER.sequence[{k1};{k2}]", LOW + ".Context.BeginLoop", not prob, detail="; ".join(sorted(set(prob))[:3]), replay=witness_replay("nested"))
