"""C10: overload resolution.  Contracts on nsl.types.IsCompatible / Match /
Function.Match / Scope.FindFunction / Scope.RegisterFunction and, end to end,
on the call the compiler emits.

Spec (from the property): a candidate is *viable* iff the argument count equals
the parameter count and every argument is convertible to its parameter;
score = number of arguments whose type differs from the parameter type; the
unique viable candidate of minimal score is chosen; no viable candidate, an
unknown name or a shared best score reject."""
from __future__ import annotations

import itertools

import z3

from pyvc.core import family, resolve
from pyvc.sym import SymInt, SymBool, term, Unsupported, cur
from pyvc.util import script
from pyvc.verify import verify
from . import types_c as tc

T = "nsl.types"


def conv(a, p):
    """z3 condition: argument type a is convertible to parameter type p (descriptions)."""
    ka, kp = a[0], p[0]
    one = lambda d: d[0] == "V" and True
    if ka == "S" and kp == "S":
        return z3.BoolVal(True)
    if ka == "V" and kp == "V":
        return term(a[2][0]) == term(p[2][0])
    if ka == "M" and kp == "M":
        return z3.And(term(a[2][0]) == term(p[2][0]), term(a[2][1]) == term(p[2][1]))
    if ka == "V" and kp == "S":
        return term(a[2][0]) == 1          # a one-component vector is a scalar
    if ka == "S" and kp == "V":
        return term(p[2][0]) == 1
    return z3.BoolVal(False)


def same_type(a, p):
    return tc.same(tc.dl(a), tc.dl(p))


@family("C10.compat", props=["C10"], functions=[T + "::IsCompatible", T + "::Match"],
        assumptions=["modular cut: PrimitiveType.__eq__ replaced by structural equality (bounded check C09.types.eq)"])
def compat(R):
    """IsCompatible(a, p) = conv(a, p) and Match(a, p) = -1 / 0 / 1 (not convertible / identical / convertible)
    for all scalar, vector and matrix shapes with symbolic sizes; arrays and structs by structure."""
    ic = resolve(T + "::IsCompatible")
    mt = resolve(T + "::Match")
    for (ka, ca), (kp, cp) in itertools.product(tc.SHAPE_IDS, tc.SHAPE_IDS):
        label = f"{ka}{ca},{kp}{cp}"

        def run(ctx, ka=ka, ca=ca, kp=kp, cp=cp):
            A = tc.shape(ctx, "L", ka, ca)
            P = tc.shape(ctx, "R", kp, cp)
            with tc.eq_cut():
                a, p = tc.mk(A), tc.mk(P)
                got = ic(a, p)
                m = mt(a, p)
            want = conv(tc.dl(A), tc.dl(P))
            g = got.t if isinstance(got, SymBool) else z3.BoolVal(bool(got))
            mterm = term(m)
            wantm = z3.If(z3.Not(want), -1, z3.If(same_type(A, P), 0, 1))
            return [("compatible", g == want, f"IsCompatible returned {z3.simplify(g)}"), ("match", mterm == wantm, f"Match returned {z3.simplify(mterm)}")]

        def replay(model, clause, ka=ka, ca=ca, kp=kp, cp=cp):
            A = tc._concrete((ka, ca), "L", model)
            P = tc._concrete((kp, cp), "R", model)
            w = z3.is_true(z3.simplify(conv(tc.dl(A), tc.dl(P))))
            wm = -1 if not w else (0 if A == P else 1)
            return script("""
                from nsl import types
                a, p = eval({{a}}), eval({{p}})
                try:
                    got = (bool(types.IsCompatible(a, p)), types.Match(a, p))
                except Exception as e:
                    got = ('raised ' + type(e).__name__, str(e))
                print('IsCompatible/Match', repr(a), repr(p), '->', got, 'expected', ({{w}}, {{wm}}))
                if got != ({{w}}, {{wm}}): print('REPLAY-CONFIRMED')
                """, a=tc.spell(A), p=tc.spell(P), w=w, wm=wm)

        verify(R, "C10.compat", T + "::IsCompatible", run, replay, label=label)

    # arrays and structs (concrete structure)
    ty = tc._types()
    i3 = ty.ArrayType(ty.Integer(), [3])
    i3b = ty.ArrayType(ty.Integer(), [3])
    f3 = ty.ArrayType(ty.Float(), [3])
    i4 = ty.ArrayType(ty.Integer(), [4])
    i23 = ty.ArrayType(ty.Integer(), [2, 3])
    s1 = ty.StructType("S", {"a": ty.Integer()})
    s2 = ty.StructType("T", {"a": ty.Integer()})
    cases = [("array-same", i3, i3b, True), ("array-elem-conv", i3, f3, True), ("array-size", i3, i4, False),
             ("array-rank", i3, i23, False), ("array-scalar", i3, ty.Integer(), False), ("scalar-array", ty.Float(), i3, False),
             ("struct-same", s1, s1, True), ("struct-other", s1, s2, False), ("struct-scalar", s1, ty.Integer(), False),
             ("vector-struct", ty.VectorType(ty.Float(), 2), s1, False)]
    # void converts to nothing and nothing converts to void (the result of a void call is not an argument)
    void = ty.Void()
    for nm, t in (("int", ty.Integer()), ("float", ty.Float()), ("uint", ty.UnsignedInteger()), ("float3", ty.VectorType(ty.Float(), 3)), ("float3x3", ty.MatrixType(ty.Float(), 3, 3))):
        for a, p, lab in ((void, t, f"void,{nm}"), (t, void, f"{nm},void")):
            try:
                got = (bool(ic(a, p)), mt(a, p))
            except Exception as e:
                got = f"raised {type(e).__name__}: {e}"
            R.check(f"C10.compat[{lab}]", T + "::IsCompatible", got == (False, -1), detail=f"IsCompatible / Match({a!r}, {p!r}) = {got}, expected (False, -1)")
    for name, a, p, want in cases:
        try:
            got = bool(ic(a, p))
            det = f"IsCompatible({a!r}, {p!r}) = {got}, expected {want}"
        except Exception as e:
            got = None
            det = f"IsCompatible({a!r}, {p!r}) raised {type(e).__name__}: {e}"
        R.check(f"C10.compat[{name}]", T + "::IsCompatible", got == want, detail=det,
                replay=script("""
                    from nsl import types
                    i3 = types.ArrayType(types.Integer(), [3]); i3b = types.ArrayType(types.Integer(), [3]); f3 = types.ArrayType(types.Float(), [3])
                    i4 = types.ArrayType(types.Integer(), [4]); i23 = types.ArrayType(types.Integer(), [2, 3])
                    s1 = types.StructType('S', {'a': types.Integer()}); s2 = types.StructType('T', {'a': types.Integer()})
                    cases = {'array-same': (i3, i3b), 'array-elem-conv': (i3, f3), 'array-size': (i3, i4), 'array-rank': (i3, i23),
                             'array-scalar': (i3, types.Integer()), 'scalar-array': (types.Float(), i3), 'struct-same': (s1, s1),
                             'struct-other': (s1, s2), 'struct-scalar': (s1, types.Integer()), 'vector-struct': (types.VectorType(types.Float(), 2), s1)}
                    a, p = cases[{{name}}]
                    try:
                        got = bool(types.IsCompatible(a, p))
                    except Exception as e:
                        got = 'raised %s: %s' % (type(e).__name__, e)
                    print('IsCompatible', {{name}}, '->', got, 'expected', {{want}})
                    if got != {{want}}: print('REPLAY-CONFIRMED')
                    """, name=name, want=want))


class _Arg:
    """Stand-in for ast.Argument as used by types.Function (HasName/GetName/GetType/IsOptional)."""

    def __init__(self, name, t):
        self._n, self._t = name, t

    def HasName(self):
        return True

    def GetName(self):
        return self._n

    def GetType(self):
        return self._t

    def IsOptional(self):
        return False


def make_function(name, ptypes, exported=False):
    ty = tc._types()
    f = ty.Function(name, ty.Integer(), [_Arg(f"p{i}", t) for i, t in enumerate(ptypes)], exported)
    f.Resolve(ty.Scope())
    return f


SH3 = [("S", "f"), ("S", "i"), ("V", "f"), ("V", "i"), ("M", "f")]


@family("C10.fmatch", props=["C10"], functions=[T + "::Function.Match", T + "::Function.Resolve", T + "::Match", T + "::IsCompatible"],
        assumptions=["parameters without the __optional modifier (the property speaks of matching counts)",
                     "modular cut: PrimitiveType.__eq__ replaced by structural equality"])
def fmatch(R):
    """Function.Match(args) < 0 iff the candidate is not viable (count differs or some argument is not convertible),
    else equals the number of arguments whose type differs from the parameter type.  Parameter lists of length 0-2 over
    scalar/vector/matrix shapes with symbolic sizes; argument lists of length 0-3."""
    for np_ in (0, 1, 2):
        for na in (0, 1, 2, 3):
            for pk in itertools.product(SH3, repeat=np_):
                for ak in itertools.product(SH3, repeat=na):
                    if np_ == 2 and na == 2 and (pk[0] > pk[1]):
                        pass
                    label = "p(" + ",".join(k + c for k, c in pk) + ")a(" + ",".join(k + c for k, c in ak) + ")"

                    def run(ctx, pk=pk, ak=ak):
                        P = [tc.shape(ctx, f"P{i}", k, c) for i, (k, c) in enumerate(pk)]
                        A = [tc.shape(ctx, f"A{i}", k, c) for i, (k, c) in enumerate(ak)]
                        with tc.eq_cut():
                            f = make_function("h", [tc.mk(p) for p in P])
                            got = f.Match([tc.mk(a) for a in A])
                        g = term(got)
                        if len(P) != len(A):
                            return [("count", g < 0, f"Match returned {z3.simplify(g)} for {len(A)} arguments against {len(P)} parameters")]
                        viable = z3.And(*[conv(tc.dl(a), tc.dl(p)) for a, p in zip(A, P)]) if P else z3.BoolVal(True)
                        score = sum([z3.If(same_type(a, p), 0, 1) for a, p in zip(A, P)], z3.IntVal(0))
                        return [("viable", (g >= 0) == viable, f"Match returned {z3.simplify(g)}"),
                                ("score", z3.Implies(viable, g == score), f"Match returned {z3.simplify(g)}")]

                    def replay(model, clause, pk=pk, ak=ak):
                        P = [tc._concrete(kc, f"P{i}", model) for i, kc in enumerate(pk)]
                        A = [tc._concrete(kc, f"A{i}", model) for i, kc in enumerate(ak)]
                        if len(P) != len(A):
                            want = "negative"
                        elif not all(z3.is_true(z3.simplify(conv(tc.dl(a), tc.dl(p)))) for a, p in zip(A, P)):
                            want = "negative"
                        else:
                            want = sum(0 if a == p else 1 for a, p in zip(A, P))
                        return script("""
                            from nsl import types, ast
                            P = [eval(x) for x in {{P}}]; A = [eval(x) for x in {{A}}]
                            f = types.Function('h', types.Integer(), [ast.Argument(t, 'p%d' % i) for i, t in enumerate(P)])
                            f.Resolve(types.Scope())
                            try:
                                got = f.Match(A)
                            except Exception as e:
                                got = 'raised %s: %s' % (type(e).__name__, e)
                            want = {{want}}
                            print('h(%s).Match(%s) = %s; property C10 expects %s' % (', '.join(map(str, P)), ', '.join(map(str, A)), got, want))
                            bad = (not isinstance(got, int)) or ((got >= 0) if want == 'negative' else (got != want))
                            if bad: print('REPLAY-CONFIRMED')
                            """, P=[tc.spell(p) for p in P], A=[tc.spell(a) for a in A], want=want)

                    verify(R, "C10.fmatch", T + "::Function.Match", run, replay, label=label)


class _Cand:
    """A candidate whose Match is cut by its contract: returns a symbolic score >= -1."""

    def __init__(self, i, score):
        self.i, self.score = i, score
        self.calls = 0

    def Match(self, argumentTypes):
        self.calls += 1
        return self.score

    def GetArgumentTypes(self):
        # the candidates of one overload set are DIFFERENT functions: each has a parameter list of its own (registration may compare them)
        import collections
        return collections.OrderedDict([("p", ("distinct parameter type of candidate", self.i))])


@family("C10.find", props=["C10"], functions=[T + "::Scope.FindFunction", T + "::Scope.RegisterFunction"],
        assumptions=["modular cut: candidate.Match is replaced by its contract (an arbitrary integer score >= -1 per candidate, C10.fmatch); the real sorted/filter run on the symbolic scores",
                     "candidate lists of length 1-4; scope chains of depth 1-3"])
def find(R):
    """FindFunction returns the unique viable candidate of minimal score registered under that name in the nearest scope that
    has the name; raises if none is viable, the name is unknown, or the best score is shared.  Scores are symbolic, so every
    declaration order is covered."""
    ty = tc._types()
    E = __import__("nsl.Errors", fromlist=["x"])
    for n in (1, 2, 3, 4):
        for depth in (0, 1, 2):
            def run(ctx, n=n, depth=depth):
                scores = [ctx.int(f"s{i}") for i in range(n)]
                for s in scores:
                    ctx.assume(s >= -1)
                    ctx.assume(s <= 8)
                cands = [_Cand(i, s) for i, s in enumerate(scores)]
                root = ty.Scope()
                scope = root
                for c in cands:
                    root.RegisterFunction("h", c)
                root.RegisterFunction("other", _Cand(99, 0))
                for _ in range(depth):
                    scope = ty.Scope(scope)
                    scope.RegisterFunction("unrelated", _Cand(98, 0))
                ctx.ghost["scores"] = scores
                with tc.eq_cut():
                    try:
                        got = scope.FindFunction("h", [ty.Integer()])
                    except E.CompileException as e:
                        got = e
                st = [s.t for s in scores]
                viable = [s >= 0 for s in st]
                best = lambda i: z3.And(viable[i], *[z3.Implies(viable[j], st[i] < st[j]) for j in range(n) if j != i])
                any_best = z3.Or(*[best(i) for i in range(n)])
                if isinstance(got, _Cand):
                    return [("chosen-is-unique-best", best(got.i), f"returned candidate #{got.i}")]
                if isinstance(got, E.CompileException):
                    kind = got.message
                    goals = [("rejects-only-without-unique-best", z3.Not(any_best), f"raised {got.message.code}")]
                    if kind is E.ERROR_NO_MATCHING_OVERLOAD_FUNCTION_CALL:
                        goals.append(("no-match-error", z3.Not(z3.Or(*viable))))
                    elif kind is E.ERROR_AMBIGUOUS_FUNCTION_CALL:
                        goals.append(("ambiguous-error", z3.Or(*viable)))
                    return goals
                return [("result-kind", z3.BoolVal(False), f"returned {type(got).__name__}")]

            def replay(model, clause, n=n, depth=depth):
                scores = [int(model.get(f"s{i}", 0)) for i in range(n)]
                return script("""
                    from nsl import types, Errors
                    class C:
                        def __init__(s, i, sc): s.i, s.sc = i, sc
                        def Match(s, a): return s.sc
                        def GetArgumentTypes(s): return {'p': ('parameter type of candidate', s.i)}
                    scores = {{scores}}
                    root = types.Scope(); scope = root
                    for i, sc in enumerate(scores): root.RegisterFunction('h', C(i, sc))
                    for _ in range({{depth}}): scope = types.Scope(scope)
                    try:
                        got = scope.FindFunction('h', [types.Integer()]).i
                    except Errors.CompileException as e:
                        got = 'rejected: ' + str(e)
                    viable = [s for s in scores if s >= 0]
                    best = [i for i, s in enumerate(scores) if s >= 0 and s == min(viable)] if viable else []
                    want = best[0] if len(best) == 1 else 'rejected'
                    print('scores', scores, '->', got, '; property C10 expects', want)
                    if (got != want) and not (want == 'rejected' and str(got).startswith('rejected')): print('REPLAY-CONFIRMED')
                    """, scores=scores, depth=depth)

            verify(R, "C10.find", T + "::Scope.FindFunction", run, replay, label=f"{n}-candidates,depth{depth}")

    # unknown name: every scope of the chain is asked, then rejected
    for depth in (0, 1, 2):
        root = ty.Scope()
        root.RegisterFunction("other", _Cand(0, 0))
        scope = root
        for _ in range(depth):
            scope = ty.Scope(scope)
        try:
            scope.FindFunction("h", [])
            ok, det = False, "unknown name was resolved"
        except E.CompileException as e:
            ok, det = e.message is E.ERROR_UNKNOWN_FUNCTION_CALL, f"raised {e.message.code}"
        except Exception as e:
            ok, det = True, f"raised {type(e).__name__} (a rejection)"
        R.check(f"C10.find.unknown[depth{depth}]", T + "::Scope.FindFunction", ok, detail=det)

    # nearest scope that has the name wins (inner overloads hide outer ones)
    root = ty.Scope()
    outer, inner = _Cand(0, 0), _Cand(1, 1)
    root.RegisterFunction("h", outer)
    sc = ty.Scope(root)
    sc.RegisterFunction("h", inner)
    got = sc.FindFunction("h", [])
    R.check("C10.find.nearest-scope", T + "::Scope.FindFunction", got is inner and outer.calls == 0, detail=f"returned candidate #{got.i}")


# ---------------------------------------------------------------------------
# end to end: which function does the emitted call name?

E2E_TYPES = ["int", "float", "float2"]


def _sigs(types, maxp):
    out = []
    for k in range(1, maxp + 1):
        out += list(itertools.product(types, repeat=k))
    return out


def _expected(overloads, args):
    """index of the chosen overload or None (rejected), per the property"""
    best = []
    for i, sig in enumerate(overloads):
        if len(sig) != len(args):
            continue
        if not all(z3.is_true(z3.simplify(conv(tc.dl(tc.SPELL[a]), tc.dl(tc.SPELL[p])))) for a, p in zip(args, sig)):
            continue
        best.append((sum(0 if a == p else 1 for a, p in zip(args, sig)), i))
    if not best:
        return None
    m = min(s for s, _ in best)
    w = [i for s, i in best if s == m]
    return w[0] if len(w) == 1 else None


def _program(overloads, args, main_pos=None):
    src = []
    for i, sig in enumerate(overloads):
        ps = ", ".join(f"{t} p{j}" for j, t in enumerate(sig))
        src.append(f"function h({ps}) -> int {{ return {100 + i}; }}")
    ps = ", ".join(f"{t} a{j}" for j, t in enumerate(args))
    call = ", ".join(f"a{j}" for j in range(len(args)))
    src.insert(len(src) if main_pos is None else main_pos, f"export function main({ps}) -> int {{ return h({call}); }}")
    return "\n".join(src)


def _chosen(result):
    """-> constant returned by the function the call in `main` names (or a string describing the problem)"""
    import nsl.LinearIR as IR
    m = result.IRModule
    main = m.Functions["main"]
    calls = [i for i in main.Instructions if isinstance(i, IR.CallInstruction)]
    if len(calls) != 1:
        return f"{len(calls)} call instructions in main"
    callee = m.Functions.get(calls[0].Function)
    if callee is None:
        return f"call names {calls[0].Function!r}, which is not defined in the module"
    rets = [i for i in callee.Instructions if isinstance(i, IR.ReturnInstruction)]
    v = rets[0].Value if rets else None
    return v.Value if isinstance(v, IR.ConstantValue) else "callee does not return a constant"


def _e2e(R, nover, quickpart=None, main_pos=None):
    sigs = _sigs(E2E_TYPES, 2)
    arglists = _sigs(E2E_TYPES, 2)
    fn = "nsl.types::Scope.FindFunction"
    n = 0
    for combo in itertools.combinations(range(len(sigs)), nover):
        if quickpart is not None and (sum(combo) % quickpart[1]) != quickpart[0]:
            continue
        for order in itertools.permutations(combo):
            overloads = [sigs[i] for i in order]
            for args in arglists:
                want = _expected(overloads, args)
                src = _program(overloads, args, main_pos)
                r, exc = tc.compile_quiet(src)
                n += 1
                oid = f"C10.e2e[{'|'.join(','.join(s) for s in overloads)}<-{','.join(args)}{'' if main_pos is None else ',caller@' + str(main_pos)}]"
                rp = script("""
                    import io, contextlib
                    from nsl import Compiler, LinearIR
                    src = {{src}}
                    print(src)
                    try:
                        with contextlib.redirect_stdout(io.StringIO()):
                            r = Compiler.Compiler().Compile(src)
                    except BaseException as e:
                        r = None; print('rejected:', type(e).__name__, e)
                    want = {{want}}
                    if r is None:
                        got = None
                    else:
                        main = r.IRModule.Functions['main']
                        call = [i for i in main.Instructions if isinstance(i, LinearIR.CallInstruction)][0]
                        callee = r.IRModule.Functions[call.Function]
                        got = [i for i in callee.Instructions if isinstance(i, LinearIR.ReturnInstruction)][0].Value.Value
                    print('call resolves to the overload returning', got, '; property C10 expects', want)
                    if got != want: print('REPLAY-CONFIRMED')
                    """, src=src, want=None if want is None else 100 + want)
                if want is None:
                    R.check(oid, fn, r is None, detail=f"accepted, but no unique best viable overload exists:\n{src}", replay=rp)
                elif r is None:
                    R.check(oid, fn, False, detail=f"rejected ({type(exc).__name__ if exc else 'pass failed'}: {str(exc)[:100]}) but overload #{want} is the unique best:\n{src}", replay=rp)
                else:
                    got = _chosen(r)
                    R.check(oid, fn, got == 100 + want, detail=f"call runs the overload returning {got}, expected {100 + want}:\n{src}", replay=rp)
    return n


E2E_FUNCS = ["nsl.types::Scope.FindFunction", "nsl.types::Scope.RegisterFunction", "nsl.types::ResolveFunction", "nsl.ast::CallExpression.ResolveType",
             "nsl.passes.ComputeTypes::ComputeTypeVisitor.v_Module", "nsl.passes.ComputeTypes::ComputeTypeVisitor._ProcessExpression",
             "nsl.passes.LowerToIR::LowerToIRVisitor.v_CallExpression", "nsl.passes.LowerToIR::LowerToIRVisitor.v_Function"]


@family("C10.e2e.1", props=["C10"], functions=E2E_FUNCS, assumptions=["finite domain enumerated completely (exhaustive-finite): 1 overload x <=2 parameters over {int,float,float2} x all argument lists of length 1-2"])
def e2e1(R):
    """End to end, one overload: the emitted call names the declared function iff it is viable; else the program is rejected."""
    _e2e(R, 1)


def _mk2(part):
    @family(f"C10.e2e.2.{part}", props=["C10"], functions=E2E_FUNCS,
            assumptions=["finite domain enumerated completely (exhaustive-finite): all sets of 2 overloads x <=2 parameters over {int,float,float2}, both declaration orders, all argument lists of length 1-2"])
    def f(R, part=part):
        _e2e(R, 2, (part, 4))
    f.__doc__ = "End to end, two overloads in both declaration orders: the call names the unique best viable overload or the program is rejected."
    return f


for _p in range(4):
    _mk2(_p)


def _mkfirst(part, pos):
    @family(f"C10.e2e.caller-at-{pos}.{part}", props=["C10", "C03"], functions=E2E_FUNCS,
            assumptions=["finite domain enumerated completely (exhaustive-finite): all sets of 2 overloads, both declaration orders, all argument lists, with the CALLER declared before / between the overloads"])
    def f(R, part=part, pos=pos):
        _e2e(R, 2, (part, 4), main_pos=pos)
    f.__doc__ = "End to end: the choice does not depend on where the caller stands relative to the overloads (all functions are registered before any body is typed)."
    return f


for _p in range(4):
    _mkfirst(_p, 0)
    _mkfirst(_p, 1)


def _mk3(part):
    @family(f"C10.e2e.3.{part}", props=["C10"], functions=E2E_FUNCS, tier="thorough",
            assumptions=["finite domain enumerated completely (exhaustive-finite): all sets of 3 overloads x <=2 parameters over {int,float,float2}, all 6 declaration orders, all argument lists"])
    def f(R, part=part):
        _e2e(R, 3, (part, 16))
    f.__doc__ = "End to end, three overloads in all six declaration orders."
    return f


for _p in range(16):
    _mk3(_p)
