"""Real AST nodes with *opaque* children, and the visitor step harness.

Induction on trees: a visitor's handler for a node class is executed for real
(real Visitor.v_Generic dispatch, real AcceptVisitor / ForEachChild / _Traverse),
while the visit of every *child* is answered by the induction hypothesis: the
harness intercepts `visitor.v_Generic(child, ctx)` for opaque children, records
(child, ctx) and behaves as the hypothesis object says (return / raise)."""
from __future__ import annotations

import collections

from pyvc.core import Missing


def A():
    import nsl.ast as a
    return a


_classes = {}


def opaque_classes():
    """OpaqueExpr / OpaqueStmt / OpaqueDecl ... subclasses of the real base classes
    (so every isinstance test in the code under contract sees the right kind)."""
    if _classes:
        return _classes
    a = A()

    class OpaqueExpr(a.Expression):
        def __init__(self, tag, t=None):
            super().__init__([])
            self.tag = tag
            if t is not None:
                self.SetType(t)

        def __repr__(self):
            return f"<expr {self.tag}>"

        __str__ = __repr__

    class OpaqueStmt(a.Statement):
        def __init__(self, tag):
            super().__init__()
            self.tag = tag

        def __repr__(self):
            return f"<stmt {self.tag}>"

    class OpaqueNode(a.Node):
        def __init__(self, tag):
            super().__init__()
            self.tag = tag

        def GetName(self):
            return self.tag

        def __repr__(self):
            return f"<node {self.tag}>"

    _classes.update(OpaqueExpr=OpaqueExpr, OpaqueStmt=OpaqueStmt, OpaqueNode=OpaqueNode)
    return _classes


def is_opaque(o):
    return type(o).__name__ in ("OpaqueExpr", "OpaqueStmt", "OpaqueNode")


def E(tag, t=None):
    return opaque_classes()["OpaqueExpr"](tag, t)


def S(tag):
    return opaque_classes()["OpaqueStmt"](tag)


def N(tag):
    return opaque_classes()["OpaqueNode"](tag)


def statement_shapes():
    """label -> (constructor returning (node, children-in-source-roles dict))  for every statement class."""
    a = A()
    out = collections.OrderedDict()
    out["ExpressionStatement"] = lambda: _mk(a.ExpressionStatement(E("e")), "e")
    out["CompoundStatement/0"] = lambda: (a.CompoundStatement([]), {})
    out["CompoundStatement/1"] = lambda: _mkl(a.CompoundStatement, [S("s0")])
    out["CompoundStatement/3"] = lambda: _mkl(a.CompoundStatement, [S("s0"), S("s1"), S("s2")])
    out["ReturnStatement/value"] = lambda: _mk(a.ReturnStatement(E("e")), "e")
    out["ReturnStatement/void"] = lambda: (a.ReturnStatement(), {})
    out["DeclarationStatement"] = lambda: _mkl(a.DeclarationStatement, [N("d0")])
    out["IfStatement/else"] = lambda: _mk3(a.IfStatement, E("c"), S("t"), S("f"))
    out["IfStatement/noelse"] = lambda: _mk3(a.IfStatement, E("c"), S("t"), None)
    out["ForStatement/full"] = lambda: _mkfor(N("init"), E("c"), E("n"), S("b"))
    out["ForStatement/noinit"] = lambda: _mkfor(None, E("c"), E("n"), S("b"))
    out["DoStatement"] = lambda: _mkdw(a.DoStatement, E("c"), S("b"))
    out["WhileStatement"] = lambda: _mkdw(a.WhileStatement, E("c"), S("b"))
    out["ContinueStatement"] = lambda: (a.ContinueStatement(), {})
    out["BreakStatement"] = lambda: (a.BreakStatement(), {})
    out["EmptyStatement"] = lambda: (a.EmptyStatement(), {})
    return out


def _mk(node, *tags):
    return node, {}


def _mkl(cls, items):
    return cls(list(items)), {f"item{i}": x for i, x in enumerate(items)}


def _mk3(cls, c, t, f):
    n = cls(c, t, f)
    return n, dict(cond=c, true=t, **({"else": f} if f is not None else {}))


def _mkfor(i, c, n, b):
    a = A()
    node = a.ForStatement(i, c, n, b)
    d = dict(cond=c, next=n, body=b)
    if i is not None:
        d["init"] = i
    return node, d


def _mkdw(cls, c, b):
    return cls(c, b), dict(cond=c, body=b)


def expression_shapes():
    a = A()
    import nsl.op as op
    import nsl.types as ty
    out = collections.OrderedDict()
    out["CastExpression"] = lambda: (a.CastExpression(E("e"), ty.Float()), {})
    out["ConstructPrimitiveExpression"] = lambda: (a.ConstructPrimitiveExpression(ty.VectorType(ty.Float(), 2), [E("e0"), E("e1")]), {})
    out["CallExpression/0"] = lambda: (a.CallExpression(ty.UnresolvedType("h"), []), {})
    out["CallExpression/2"] = lambda: (a.CallExpression(ty.UnresolvedType("h"), [E("e0"), E("e1")]), {})
    out["ArrayExpression"] = lambda: (a.ArrayExpression(E("p"), E("i")), {})
    out["MemberAccessExpression"] = lambda: (a.MemberAccessExpression(E("p"), E("m")), {})

    def swz():
        n = a.MemberAccessExpression(E("p"), E("m"))
        n.SetSwizzle(True)          # state set by the typing pass: the node's children are the same two sub-trees
        return n, {}
    out["MemberAccessExpression/swizzle"] = swz
    out["BinaryExpression"] = lambda: (a.BinaryExpression(op.Operation.ADD, E("l"), E("r")), {})
    out["AssignmentExpression"] = lambda: (a.AssignmentExpression(E("l"), E("r")), {})
    out["AffixExpression"] = lambda: (a.AffixExpression(op.Operation.ADD, E("e"), a.Affix.PRE), {})
    out["LiteralExpression"] = lambda: (a.LiteralExpression(1, ty.Integer()), {})
    out["PrimaryExpression"] = lambda: (a.PrimaryExpression("x"), {})
    out["EmptyExpression"] = lambda: (a.EmptyExpression(), {})
    return out


def other_shapes():
    a = A()
    import nsl.types as ty
    out = collections.OrderedDict()
    out["VariableDeclaration/init"] = lambda: (a.VariableDeclaration(ty.Integer(), "v", E("init")), {})
    out["VariableDeclaration/noinit"] = lambda: (a.VariableDeclaration(ty.Integer(), "v"), {})
    out["StructureDefinition"] = lambda: (a.StructureDefinition("S", [N("f0"), N("f1")]), {})
    out["Function"] = lambda: (a.Function("f", [N("a0"), N("a1")], ty.Integer(), S("body")), {})
    out["Function/forward"] = lambda: (a.Function("f", [N("a0")], ty.Integer(), None, isForwardDeclaration=True), {})

    def module():
        m = a.Module()
        t0 = N("T0")
        m.AddType(t0)
        m.AddDeclaration(N("g0"))
        m.AddDeclaration(N("g1"))
        m.AddFunction(N("f0"))
        m.AddFunction(N("f1"))
        return m, {}

    out["Module"] = module
    return out


def all_shapes():
    d = collections.OrderedDict()
    d.update(statement_shapes())
    d.update(expression_shapes())
    d.update(other_shapes())
    return d


BINARY_OPS = ("ADD", "SUB", "MUL", "DIV", "MOD", "LG_AND", "LG_OR", "CMP_GT", "CMP_LT", "CMP_LE", "CMP_GE", "CMP_NE", "CMP_EQ")


def variants(kind):
    """[(label, constructor)]: an opaque node and one REAL node of every class of the kind ("E" expressions, with a BinaryExpression per
    operator; "S" statements).  Code under contract that must treat a child as a black box is run with every variant in the child's place,
    so a handler that looks inside its child (isinstance tests, operator tests) is exercised on the classes it could test for."""
    a = A()
    import nsl.op as op
    out = []
    if kind == "E":
        out.append(("opaque", lambda: E("v")))
        for label, mk in expression_shapes().items():
            if label != "BinaryExpression":
                out.append((label, lambda mk=mk: mk()[0]))
        for o in BINARY_OPS:
            out.append((f"BinaryExpression/{o}", lambda o=o: a.BinaryExpression(op.Operation[o], E("vl"), E("vr"))))
        for o in ("ASSIGN_ADD_EQUAL", "ASSIGN_SUB_EQUAL", "ASSIGN_MUL_EQUAL", "ASSIGN_DIV_EQUAL"):
            out.append((f"AssignmentExpression/{o}", lambda o=o: a.AssignmentExpression(E("vl"), E("vr"), operation=op.Operation[o])))
    else:
        out.append(("opaque", lambda: S("v")))
        for label, mk in statement_shapes().items():
            out.append((label, lambda mk=mk: mk()[0]))
    return out


def children_of(node):
    """The child nodes of a real AST node in declaration order, read off the node's
    own fields (every attribute holding a Node / list / dict / set of Nodes), NOT via _Traverse."""
    import nsl.Visitor as V
    out = []
    for k, v in vars(node).items():
        if k.endswith("__location") or k.endswith("_operator"):
            continue
        if isinstance(v, V.Node):
            out.append(v)
        elif isinstance(v, (list, tuple)):
            out += [x for x in v if isinstance(x, V.Node)]
        elif isinstance(v, dict):
            out += [x for x in v.values() if isinstance(x, V.Node)]
        elif isinstance(v, (set, frozenset)):
            out += [x for x in v if isinstance(x, V.Node)]
    return out


class Step:
    """Result of one visitor step on `root`."""

    def __init__(self):
        self.visits = []       # (child, ctx) in order
        self.raised = None
        self.result = None


def visitor_step(visitor, root, ctx, hypothesis=None, entry=None):
    """Run the real visitor on `root`; visits of any other node through
    visitor.v_Generic are intercepted and answered by `hypothesis(child, ctx, step)`
    (default: return None)."""
    real = type(visitor).v_Generic
    step = Step()

    def spy(obj, c=None):
        if obj is root:
            return real(visitor, obj, c)
        step.visits.append((obj, c))
        if hypothesis is not None:
            return hypothesis(obj, c, step)
        return None

    visitor.v_Generic = spy
    try:
        try:
            step.result = (entry or spy)(root, ctx)
        except BaseException as e:
            from pyvc.sym import Unsupported, Infeasible
            if isinstance(e, (Unsupported, Infeasible, KeyboardInterrupt)):
                raise
            step.raised = e
    finally:
        del visitor.v_Generic
    return step
