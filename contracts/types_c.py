"""C09: contracts on nsl.types (binary-expression typing), nsl.op.IsComparison,
the typing pass branch and the implicit-cast pass for binary expressions.

The specification `spec(op, L, R)` below is written from the text of property
C09, sentence by sentence.  The real `ResolveBinaryExpressionType` is executed
on real type objects whose vector widths and matrix shapes are *symbolic*
(SymInt >= 1), so one run covers the whole internal type universe and beyond."""
from __future__ import annotations

import os

import itertools

import z3

from pyvc.core import family, resolve, Missing
from pyvc.sym import SymInt, SymBool, term, is_sym, Unsupported
from pyvc.util import patched, script
from pyvc.verify import verify

T = "nsl.types"

CMP = ("CMP_GT", "CMP_LT", "CMP_LE", "CMP_GE", "CMP_NE", "CMP_EQ")
SAME = ("ADD", "SUB", "MOD", "LG_AND", "LG_OR")
BINOPS = ("ADD", "SUB", "MUL", "DIV", "MOD") + CMP + ("LG_AND", "LG_OR")
OPSTR = {"ADD": "+", "SUB": "-", "MUL": "*", "DIV": "/", "MOD": "%", "CMP_GT": ">", "CMP_LT": "<", "CMP_LE": "<=",
         "CMP_GE": ">=", "CMP_NE": "!=", "CMP_EQ": "==", "LG_AND": "&&", "LG_OR": "||"}
RANK = {"f": 3, "i": 2, "u": 1}


def _types():
    import nsl.types as t
    return t


def _ops():
    import nsl.op as o
    return o


# ---------------------------------------------------------------------------
# descriptions of types: (kind, comp, dims) with dims a tuple of z3 Int terms

def comp_of(t):
    ty = _types()
    c = t.GetComponentType() if not isinstance(t, ty.ScalarType) else t
    if isinstance(c, ty.Float):
        return "f"
    if isinstance(c, ty.UnsignedInteger):
        return "u"
    if isinstance(c, ty.Integer):
        return "i"
    raise Unsupported(f"component type {type(c).__name__}")


def desc(t):
    """Description of a real nsl.types object."""
    ty = _types()
    if t is None:
        return None
    if isinstance(t, ty.VectorType):
        return ("V", comp_of(t), (term(t.GetComponentCount()),))
    if isinstance(t, ty.MatrixType):
        return ("M", comp_of(t), (term(t.GetRowCount()), term(t.GetColumnCount())))
    if isinstance(t, ty.ScalarType):
        return ("S", comp_of(t), ())
    return ("?", type(t).__name__, ())


def mk(d):
    """Real type object from a description (dims may be SymInt / int)."""
    ty = _types()
    comp = {"f": ty.Float, "i": ty.Integer, "u": ty.UnsignedInteger}[d[1]]()
    if d[0] == "S":
        return comp
    if d[0] == "V":
        return ty.VectorType(comp, d[2][0])
    return ty.MatrixType(comp, d[2][0], d[2][1])


def same(d, e):
    """z3 condition: two descriptions denote the same type."""
    if d is None or e is None:
        return z3.BoolVal(d is None and e is None)
    if d[0] != e[0] or d[1] != e[1] or len(d[2]) != len(e[2]):
        return z3.BoolVal(False)
    return z3.And(*[term(a) == term(b) for a, b in zip(d[2], e[2])]) if d[2] else z3.BoolVal(True)


def wider(a, b):
    return a if RANK[a] >= RANK[b] else b


def rows_cols(d):
    if d[0] == "M":
        return term(d[2][0]), term(d[2][1])
    if d[0] == "V":
        return term(d[2][0]), z3.IntVal(1)
    return z3.IntVal(1), z3.IntVal(1)


# ---------------------------------------------------------------------------
# the specification (property C09)

REJECT = "reject"
DONTCARE = "dontcare"


def spec(opname, L, R):
    """-> list of (condition, outcome); conditions are exhaustive and exclusive.
    outcome: REJECT | DONTCARE | dict(result=desc|None, ops=(descL, descR)|None, opshape=bool)"""
    c = wider(L[1], R[1])
    kL, kR = L[0], R[0]
    TRUE = z3.BoolVal(True)

    def with_comp(d, comp):
        return (d[0], comp, d[2])

    if opname in CMP:
        if kL == "S" and kR == "S":
            # "the six comparisons yield int for two scalars"; operands: both converted to one common type
            return [(TRUE, dict(result=("S", "i", ()), cmp_ops=True))]
        if kL == "V" and kR == "V":
            eq = term(L[2][0]) == term(R[2][0])
            return [(eq, dict(result=("V", "i", L[2]), cmp_ops=True)), (z3.Not(eq), REJECT)]
        if kL == "M" and kR == "M":
            return [(TRUE, DONTCARE)]           # "comparing two matrices is left undefined"
        return [(TRUE, REJECT)]

    if opname in SAME:
        if kL == "S" and kR == "S":
            return [(TRUE, dict(result=("S", c, ()), ops=(("S", c, ()), ("S", c, ()))))]
        if kL == kR:                              # two vectors or two matrices of identical shape
            eq = z3.And(*[term(a) == term(b) for a, b in zip(L[2], R[2])])
            r = (kL, c, L[2])
            return [(eq, dict(result=r, ops=(r, r))), (z3.Not(eq), REJECT)]
        return [(TRUE, REJECT)]

    if opname == "DIV":
        if kR != "S":
            return [(TRUE, REJECT)]               # "/ takes a scalar right operand under any left shape"
        r = with_comp(L, c)
        return [(TRUE, dict(result=r, ops=(r, ("S", c, ()))))]

    if opname == "MUL":
        if kL == "S" and kR == "S":
            return [(TRUE, dict(result=("S", c, ()), ops=(("S", c, ()), ("S", c, ()))))]
        if kL == "S":
            r = with_comp(R, c)
            return [(TRUE, dict(result=r, ops=(("S", c, ()), r)))]
        if kR == "S":
            r = with_comp(L, c)
            return [(TRUE, dict(result=r, ops=(r, ("S", c, ()))))]
        if kL != "M":
            return [(TRUE, REJECT)]               # never vector times vector; only a *matrix* times matrix|vector
        lr, lc = rows_cols(L)
        rr, rc = rows_cols(R)
        agree = lc == rr
        ops = (with_comp(L, c), with_comp(R, c))
        if kR == "V":
            return [(agree, dict(result=("V", c, (lr,)), ops=ops)), (z3.Not(agree), REJECT)]
        # matrix x matrix: rows(L) x cols(R); a one-column result may be given as a vector
        return [(z3.And(agree, rc > 1), dict(result=("M", c, (lr, rc)), ops=ops)),
                (z3.And(agree, rc == 1), dict(result_any=[("M", c, (lr, rc)), ("V", c, (lr,))], ops=ops)),
                (z3.Not(agree), REJECT)]
    raise Unsupported("operator " + opname)


def outcome_goal(cases, raised, res, opd0, opd1, L, R):
    """Goal (z3 Bool): the observed behaviour conforms to the spec cases."""
    conj = []
    for cond, out in cases:
        if out == DONTCARE:
            continue
        if out == REJECT:
            conj.append(z3.Implies(cond, z3.BoolVal(raised)))
            continue
        if raised:
            conj.append(z3.Not(cond))
            continue
        ok = []
        if "result" in out:
            ok.append(same(res, out["result"]))
        if "result_any" in out:
            ok.append(z3.Or(*[same(res, r) for r in out["result_any"]]))
        if out.get("ops") is not None:
            ok.append(same(opd0, out["ops"][0]))
            ok.append(same(opd1, out["ops"][1]))
        if out.get("cmp_ops"):
            # both operands converted to one common type of the operands' shape
            if opd0 is None or opd1 is None:
                ok.append(z3.BoolVal(False))
            else:
                ok.append(same(opd0, opd1))
                ok.append(same((opd0[0], "f", opd0[2]), (L[0], "f", L[2])))
                ok.append(z3.BoolVal(opd0[1] in (wider(L[1], R[1]),)))
        conj.append(z3.Implies(cond, z3.And(*ok)))
    return z3.And(*conj) if conj else z3.BoolVal(True)


# ---------------------------------------------------------------------------
# structural-equality cut for PrimitiveType.__eq__ (which compares repr strings)

def struct_eq(self, other):
    ty = _types()
    if not isinstance(other, ty.PrimitiveType):
        return False
    a, b = desc(self), desc(other)
    if a[0] != b[0] or a[1] != b[1]:
        return False
    if not a[2]:
        return True
    c = z3.simplify(z3.And(*[x == y for x, y in zip(a[2], b[2])]))
    if z3.is_true(c):
        return True
    if z3.is_false(c):
        return False
    return SymBool(c)


def _exc_init(self, message, *args):
    """Cut for Errors.CompileException.__init__: keeps the message object and the
    arguments but does not format the text (diagnostic wording is not part of
    the typing contract; formatting would stringify symbolic sizes)."""
    self.message = message
    self.messageArgs = args
    self.messageText = message.message


import contextlib


@contextlib.contextmanager
def eq_cut():
    import nsl.Errors as E
    ty = _types()
    with patched(ty.PrimitiveType, __eq__=struct_eq), patched(E.CompileException, __init__=_exc_init):
        yield


def universe(maxn=4):
    ty = _types()
    comps = [ty.Float, ty.Integer, ty.UnsignedInteger]
    out = [c() for c in comps]
    out += [ty.VectorType(c(), n) for c in comps for n in range(1, maxn + 1)]
    out += [ty.MatrixType(c(), r, k) for c in comps for r in range(1, maxn + 1) for k in range(1, maxn + 1)]
    return out


def shapes(ctx, tag):
    """All type shapes with symbolic sizes: 3 scalars, 3 vectors, 3 matrices."""
    for comp in "fiu":
        yield ("S", comp, ())
    for comp in "fiu":
        n = ctx.int(f"{tag}n")
        ctx.assume(n >= 1)
        yield ("V", comp, (n,))
    for comp in "fiu":
        r, k = ctx.int(f"{tag}r"), ctx.int(f"{tag}k")
        ctx.assume(r >= 1)
        ctx.assume(k >= 1)
        yield ("M", comp, (r, k))


SHAPE_IDS = [(k, c) for k in "SVM" for c in "fiu"]


def shape(ctx, tag, k, comp):
    if k == "S":
        return ("S", comp, ())
    if k == "V":
        n = ctx.int(f"{tag}n")
        ctx.assume(n >= 1)
        return ("V", comp, (n,))
    r, kk = ctx.int(f"{tag}r"), ctx.int(f"{tag}k")
    ctx.assume(r >= 1)
    ctx.assume(kk >= 1)
    return ("M", comp, (r, kk))


def spell(d, model=None, prefer=(2, 3, 4)):
    """Concrete repr of a description under a model (for replay scripts)."""
    def val(x):
        if isinstance(x, int):
            return x
        t = x.t if is_sym(x) else x
        s = z3.simplify(t)
        if z3.is_int_value(s):
            return s.as_long()
        return int((model or {}).get(str(t), 2))
    comp = {"f": "types.Float()", "i": "types.Integer()", "u": "types.UnsignedInteger()"}[d[1]]
    if d[0] == "S":
        return comp
    if d[0] == "V":
        return f"types.VectorType({comp}, {val(d[2][0])})"
    return f"types.MatrixType({comp}, {val(d[2][0])}, {val(d[2][1])})"


@family("C09.iscmp", props=["C09", "C01", "C04"], functions=["nsl.op::IsComparison", "nsl.op::StrToOp"])
def iscmp(R):
    """IsComparison is true exactly for the six comparison operations; every binary operator spelling maps to its own Operation."""
    o = _ops()
    f = resolve("nsl.op::IsComparison")
    for m in o.Operation:
        want = m.name in CMP
        got = bool(f(m))
        R.check(f"C09.iscmp[{m.name}]", "nsl.op::IsComparison", got == want,
                detail=f"IsComparison({m.name}) = {got}, property says {want}",
                replay=script("""
                    from nsl import op
                    m = op.Operation[{{name}}]
                    print('IsComparison', m, '=', op.IsComparison(m))
                    if bool(op.IsComparison(m)) != {{want}}: print('REPLAY-CONFIRMED')
                    """, name=m.name, want=want))
    s2o = resolve("nsl.op::StrToOp")
    seen = {}
    for name, sp in OPSTR.items():
        got = s2o(sp)
        R.check(f"C09.strtoop[{name}]", "nsl.op::StrToOp", got is o.Operation[name] and got not in seen.values(),
                detail=f"StrToOp({sp!r}) = {got}")
        seen[sp] = got


@family("C09.types.resolve", props=["C09", "C01", "C04"],
        functions=[T + "::ResolveBinaryExpressionType", T + "::_GetCommonScalarType", T + "::_GetCommonPrimitiveType",
                   T + "::_GetRowsColumns", T + "::VectorType.WithComponentType", T + "::MatrixType.WithComponentType",
                   "nsl.op::IsComparison"],
        assumptions=["modular cut: PrimitiveType.__eq__ (repr-string comparison) is replaced by structural equality on (class, component, sizes); its agreement with the real __eq__ is checked bounded-exhaustively (C09.types.eq)",
                     "'rejected' = any exception raised by the resolver (assertion failures count as rejections)"])
def types_resolve(R):
    """For all 13 operators and all operand type shapes with symbolic vector widths / matrix shapes (>= 1):
    ResolveBinaryExpressionType raises iff spec rejects, else returns the result and operand types of spec."""
    o = _ops()
    f = resolve(T + "::ResolveBinaryExpressionType")
    for opname in BINOPS:
        operation = o.Operation[opname]
        for (kl, cl), (kr, cr) in itertools.product(SHAPE_IDS, SHAPE_IDS):
            label = f"{opname},{kl}{cl},{kr}{cr}"

            def run(ctx, kl=kl, cl=cl, kr=kr, cr=cr, opname=opname, operation=operation):
                L = shape(ctx, "L", kl, cl)
                Rr = shape(ctx, "R", kr, cr)
                ctx.ghost["L"], ctx.ghost["R"] = L, Rr
                with eq_cut():
                    lt, rt = mk(L), mk(Rr)
                    try:
                        et = f(operation, lt, rt)
                    except Unsupported:
                        raise
                    except Exception as e:
                        ctx.ghost["exc"] = e
                        return [("conforms", outcome_goal(spec(opname, dl(L), dl(Rr)), True, None, None, None, dl(L), dl(Rr)),
                                 f"resolver raised {type(e).__name__}")]
                    res = desc(et.GetReturnType())
                    o0, o1 = desc(et.GetOperandType(0)), desc(et.GetOperandType(1))
                return [("conforms", outcome_goal(spec(opname, dl(L), dl(Rr)), False, res, o0, o1, dl(L), dl(Rr)),
                         f"resolver returned {show(res)} with operands {show(o0)}, {show(o1)}")]

            def replay(model, clause, kl=kl, cl=cl, kr=kr, cr=cr, opname=opname):
                L = _concrete((kl, cl), "L", model)
                Rr = _concrete((kr, cr), "R", model)
                return replay_resolve(opname, L, Rr)

            verify(R, "C09.types.resolve", T + "::ResolveBinaryExpressionType", run, replay, label=label)


def dl(d):
    """description with z3 terms for dims"""
    return (d[0], d[1], tuple(term(x) for x in d[2]))


def show(d):
    if d is None:
        return "None"
    return f"{d[0]}{d[1]}{tuple(str(z3.simplify(term(x))) for x in d[2])}"


def _concrete(kc, tag, model):
    k, c = kc
    g = lambda n, dflt: max(1, int(model.get(n, dflt)))
    if k == "S":
        return ("S", c, ())
    if k == "V":
        return ("V", c, (g(tag + "n", 2),))
    return ("M", c, (g(tag + "r", 2), g(tag + "k", 2)))


def expected_concrete(opname, L, R):
    """Evaluate the spec on concrete descriptions -> 'reject' | 'dontcare' | outcome dict"""
    for cond, out in spec(opname, dl(L), dl(R)):
        if z3.is_true(z3.simplify(cond)):
            return out
    raise Unsupported("spec conditions not exhaustive")


def replay_resolve(opname, L, R):
    exp = expected_concrete(opname, L, R)
    if exp in (REJECT, DONTCARE):
        expect = exp
    else:
        res = exp.get("result") or exp["result_any"][0]
        expect = dict(result=spell(dl2(res)), ops=[spell(dl2(x)) for x in exp["ops"]] if exp.get("ops") else None,
                      alt=[spell(dl2(r)) for r in exp.get("result_any", [])])
    return script("""
        from nsl import types, op
        L, R = {{L}}, {{R}}
        L, R = eval(L), eval(R)
        expect = {{expect}}
        try:
            et = types.ResolveBinaryExpressionType(op.Operation[{{opname}}], L, R)
            got = (et.GetReturnType(), et.GetOperandType(0), et.GetOperandType(1))
            print('returned', [repr(x) for x in got])
        except Exception as e:
            got = None
            print('raised', type(e).__name__, e)
        bad = False
        if expect == 'reject':
            bad = got is not None
        elif expect != 'dontcare':
            if got is None:
                bad = True
            else:
                want = [eval(expect['result'])] + [eval(a) for a in expect['alt']]
                bad = not any(repr(got[0]) == repr(w) for w in want)
                if expect['ops'] and not bad:
                    bad = [repr(x) for x in got[1:]] != [repr(eval(x)) for x in expect['ops']]
                if expect['ops'] is None and not bad:
                    bad = got[1] is None or got[2] is None or repr(got[1]) != repr(got[2])
        print('property C09 expects', expect)
        if bad: print('REPLAY-CONFIRMED')
        """, L=spell(dl2(L)), R=spell(dl2(R)), expect=expect, opname=opname)


def dl2(d):
    def v(x):
        s = z3.simplify(term(x))
        return s.as_long() if z3.is_int_value(s) else x
    return (d[0], d[1], tuple(v(x) for x in d[2]))


@family("C09.types.eq", props=["C09", "C10"], functions=[T + "::PrimitiveType.__eq__"], tier="quick")
def types_eq(R):
    """BOUNDED stand-in: PrimitiveType.__eq__ agrees with structural equality on all pairs of the internal
    universe (component x vector size 1-4 x matrix shape 1-4 x 1-4: 63 types, 3969 pairs)."""
    ty = _types()
    real = ty.PrimitiveType.__dict__.get("__eq__")
    if real is None:
        raise Missing("PrimitiveType.__eq__")
    U = universe()
    bad = None
    n = 0
    for a in U:
        for b in U:
            n += 1
            if bool(real(a, b)) != bool(struct_eq(a, b)):
                bad = (repr(a), repr(b), bool(real(a, b)))
                break
        if bad:
            break
    R.bounded("C09.types.eq", T + "::PrimitiveType.__eq__", bad is None, n,
              detail="exhaustive over the 63-type internal universe" if bad is None else f"__eq__({bad[0]}, {bad[1]}) = {bad[2]} differs from structural equality",
              replay=None)


# ---------------------------------------------------------------------------
# end to end over the spellable types: accept/reject and static types in the compiled module

SPELL = {"float": ("S", "f", ()), "int": ("S", "i", ()), "uint": ("S", "u", ())}
for _c, _n in (("float", "f"), ("int", "i"), ("uint", "u")):
    for _k in (2, 3, 4):
        SPELL[f"{_c}{_k}"] = ("V", _n, (_k,))
SPELL["float3x3"] = ("M", "f", (3, 3))
SPELL["float4x4"] = ("M", "f", (4, 4))
UNSPELL = {v: k for k, v in SPELL.items()}


def ir_desc(t):
    import nsl.LinearIR as IR
    if isinstance(t, IR.IntegerType):
        return ("S", "u" if t.Unsigned else "i", ())
    if isinstance(t, IR.FloatType):
        return ("S", "f", ())
    if isinstance(t, IR.VectorType):
        return ("V", ir_desc(t.ElementType)[1], (t.Size,))
    if isinstance(t, IR.MatrixType):
        return ("M", ir_desc(t.ElementType)[1], (t.RowCount, t.ColumnCount))
    return ("?", type(t).__name__, ())


def compile_quiet(src, options=None):
    """-> (result|None, exception|None).  SystemExit (syntax error) is reported as exception."""
    import io, contextlib, signal, threading
    from nsl import Compiler
    buf = io.StringIO()
    # a compilation that does not come back within the budget is reported as a failure of that compilation (the real compiler takes
    # milliseconds for these programs; a changed tree may loop, e.g. in the deferred replace bookkeeping of the optimiser)
    budget = float(os.environ.get("VERIF_COMPILE_BUDGET", "30"))
    use_alarm = threading.current_thread() is threading.main_thread() and budget > 0

    class CompileTimeout(Exception):
        pass

    def on_alarm(signum, frame):
        raise CompileTimeout(f"Compile did not return within {budget:g} s")

    if use_alarm:
        prev = signal.signal(signal.SIGALRM, on_alarm)
        prev_timer = signal.setitimer(signal.ITIMER_REAL, budget)
    try:
        with contextlib.redirect_stdout(buf):
            r = Compiler.Compiler().Compile(src, options or {})
        return r, None
    except BaseException as e:
        if isinstance(e, KeyboardInterrupt):
            raise
        return None, e
    finally:
        if use_alarm:
            signal.setitimer(signal.ITIMER_REAL, 0)
            signal.signal(signal.SIGALRM, prev)
            if prev_timer and prev_timer[0] > 0:
                signal.setitimer(signal.ITIMER_REAL, prev_timer[0])     # we were called inside a path with its own budget


def _e2e_one(R, opname):
    import nsl.LinearIR as IR
    # operand forms: two parameters, and a parameter next to an integer / floating literal on either side (a literal has the type int / float
    # whatever stands next to it: C09 types an operator from the types of its operands)
    LIT = {"int": "2", "float": "2.5"}
    cases = [(ln, rn, f"{ln} a, {rn} b", "a", "b", f"{ln},{rn}") for ln in SPELL for rn in SPELL]
    for tn_, lit in LIT.items():
        cases += [(ln, tn_, f"{ln} a", "a", lit, f"{ln},literal {lit}") for ln in SPELL]
        cases += [(tn_, rn, f"{rn} b", lit, "b", f"literal {lit},{rn}") for rn in SPELL]
    for ln, rn, params, ea, eb, tag in cases:
        L, Rr = SPELL[ln], SPELL[rn]
        for _once in (0,):
            exp = expected_concrete(opname, L, Rr)
            if exp == DONTCARE:
                continue
            if exp == REJECT:
                tn = ln
            else:
                res = dl2(exp.get("result") or exp["result_any"][0])
                tn = UNSPELL.get(res)
                if tn is None:
                    continue          # result type not spellable (cannot be written as a return type)
            src = f"export function f({params}) -> {tn} {{ return ({ea} {OPSTR[opname]} {eb}); }}"
            oid = f"C09.e2e[{opname},{tag}]"
            fn = "nsl.Compiler::Compiler.Compile"
            r, exc = compile_quiet(src)
            rp = script("""
                import io, contextlib
                from nsl import Compiler
                src = {{src}}
                try:
                    with contextlib.redirect_stdout(io.StringIO()):
                        r = Compiler.Compiler().Compile(src)
                    out = 'accepted' if r is not None else 'rejected (None)'
                except BaseException as e:
                    out = 'rejected (%s: %s)' % (type(e).__name__, e)
                print(src); print('compiler:', out, '; property C09 expects:', {{want}})
                if out.startswith('accepted') != ({{want}} == 'accepted'): print('REPLAY-CONFIRMED')
                """, src=src, want="rejected" if exp == REJECT else "accepted")
            if exp == REJECT:
                R.check(oid, fn, r is None, detail=f"`{src}` is accepted but the property rejects {ln} {OPSTR[opname]} {rn}", replay=rp)
                continue
            if r is None:
                R.check(oid, fn, False, detail=f"`{src}` is rejected ({type(exc).__name__ if exc else 'pass failed'}: {str(exc)[:120]}) but the property accepts it with result {tn}", replay=rp)
                continue
            # static types in the compiled module
            f = r.IRModule.Functions["f"]
            instrs = f.Instructions
            ret = [i for i in instrs if isinstance(i, IR.ReturnInstruction)]
            # the value the operator produced: the returned value, seen through conversions `return` inserted on its way to the declared type
            opv = ret[0].Value if ret else None
            while isinstance(opv, IR.CastInstruction):
                opv = opv.Value
            ok = bool(ret) and ret[0].Value is not None and ir_desc(ret[0].Value.Type) == res and opv is not None and ir_desc(opv.Type) == res
            det = f"`{src}`: the operator's value has static type {ir_desc(opv.Type) if opv is not None else None} (returned: {ir_desc(ret[0].Value.Type) if ret and ret[0].Value is not None else None}), property says {res}"
            if ok and exp.get("ops") and isinstance(opv, IR.BinaryInstruction):
                want = [dl2(x) for x in exp["ops"]]
                got = [ir_desc(v.Type) for v in opv.Values]
                if sorted(map(str, got)) != sorted(map(str, want)):      # (the IR may order the operands of a commutative operator differently)
                    ok = False
                    det = f"`{src}`: operands reach the operator with types {got}, property says {want}"
            R.check(oid, fn, ok, detail=det, replay=None)


def _mk_e2e(opname):
    @family(f"C09.e2e.{opname}", props=["C09"],
            functions=["nsl.Compiler::Compiler.Compile", "nsl.passes.ComputeTypes::ComputeTypeVisitor._ProcessExpression",
                       "nsl.ast::BinaryExpression.ResolveType", "nsl.passes.AddImplicitCasts::AddImplicitCastVisitor.v_BinaryExpression",
                       "nsl.LinearIR::BinaryInstruction.FromOperation", "nsl.passes.LowerToIR::LowerToIRVisitor.v_BinaryExpression"],
            assumptions=["finite domain enumerated completely: 13 operators x 14 x 14 spellable operand types, each compiled by the real Compiler (exhaustive-finite, no solver)"])
    def fam(R, opname=opname):
        _e2e_one(R, opname)
    fam.__doc__ = f"End to end for operator {opname}: accept/reject of `function f(L a, R b) -> T {{ return (a OP b); }}` and the static result/operand types in the compiled module, all spellable L, R."
    return fam


for _o in BINOPS:
    _mk_e2e(_o)



@family("C09.builtin-types", props=["C09", "C04", "C10"], functions=[T + "::BuiltinTypeFactory", "nsl.parser::NslParser.p_primitive_type"],
        assumptions=["the spellings are read from the grammar production `primitive_type` of the real parser on every run (finite: complete)"])
def builtin_types(R):
    """Every built-in type spelling the grammar accepts denotes the type its name says: `float`, `int`, `uint` the scalars, `<scalar>N` a vector
    of N components of that scalar, `floatNxM` / `matrixNxM` the float matrix with N rows and M columns, `void` void."""
    import re
    import nsl.parser as PM
    import nsl.lexer as LX
    ty = _types()
    f = resolve(T + "::BuiltinTypeFactory")
    doc = PM.NslParser.p_primitive_type.__doc__ or ""
    toks = [t for t in re.split(r"[\s|:]+", doc) if t and t != "primitive_type"]
    R.check("C09.builtin-types.grammar", "nsl.parser::NslParser.p_primitive_type", len(toks) >= 16, detail=f"tokens of the production: {toks}")
    reserved = {v: k for k, v in getattr(LX.NslLexer, "reserved", {}).items()} if hasattr(LX.NslLexer, "reserved") else {}
    for tok in toks:
        spelling = reserved.get(tok, tok.lower())
        try:
            t = f(spelling)
        except Exception as e:
            R.check(f"C09.builtin-types[{spelling}]", T + "::BuiltinTypeFactory", False, detail=f"BuiltinTypeFactory({spelling!r}) raised {type(e).__name__}: {e}")
            continue
        m = re.fullmatch(r"(float|int|uint|matrix)(\d)?(?:x(\d))?", spelling)
        if spelling == "void":
            ok = isinstance(t, ty.Void)
        elif m is None:
            ok = False
        else:
            base = {"float": ty.Float, "int": ty.Integer, "uint": ty.UnsignedInteger, "matrix": ty.Float}[m.group(1)]
            if m.group(3):
                ok = isinstance(t, ty.MatrixType) and type(t.GetComponentType()) is base and t.GetRowCount() == int(m.group(2)) and t.GetColumnCount() == int(m.group(3))
            elif m.group(2):
                ok = isinstance(t, ty.VectorType) and type(t.GetComponentType()) is base and t.GetComponentCount() == int(m.group(2))
            else:
                ok = type(t) is base
        R.check(f"C09.builtin-types[{spelling}]", T + "::BuiltinTypeFactory", ok, detail=f"`{spelling}` denotes {t!r}")


# ---------------------------------------------------------------------------
# C05 / C04: a value reaches a variable, a target or a caller only if it has the SHAPE of the declared type.  An assignment, an initialiser or a
# `return` whose value cannot be converted to the declared type (scalar -> vector, vector -> scalar, vectors of different sizes, matrix <-> vector,
# array <-> scalar, struct <-> anything else) must be rejected: the VM has no such conversion, the value would travel on under a wrong type and the
# next operator, index or member access fails with a TypeError / IndexError (an internal error in the sense of C05).

_SHAPE_TYPES = {
    # spelling: (shape, sample input)
    "int": (("s",), 3), "uint": (("s",), 3), "float": (("s",), 1.5),
    "int2": (("v", 2), [1, 2]), "float2": (("v", 2), [1.5, 2.5]), "float3": (("v", 3), [1.5, 2.5, 3.5]), "float4": (("v", 4), [1.5, 2.5, 3.5, 4.5]),
    "float3x3": (("m", 3, 3), [[1.0, 2.0, 3.0], [4.0, 5.0, 6.0], [7.0, 8.0, 9.0]]),
    "float4x4": (("m", 4, 4), [[1.0, 2.0, 3.0, 4.0], [5.0, 6.0, 7.0, 8.0], [9.0, 10.0, 11.0, 12.0], [13.0, 14.0, 15.0, 16.0]]),
    "int[3]": (("a", 3), [1, 2, 3]), "S": (("S",), {"a": 1}),
}


def _has_shape(value, shape):
    num = lambda x: isinstance(x, (int, float)) and not isinstance(x, bool)
    if shape[0] == "s":
        return num(value)
    if shape[0] in "va":
        return isinstance(value, list) and len(value) == shape[1] and all(num(x) for x in value)
    if shape[0] == "m":
        return isinstance(value, list) and len(value) == shape[1] and all(isinstance(r, list) and len(r) == shape[2] and all(num(x) for x in r) for r in value)
    return isinstance(value, dict) and set(value) == {"a"}


_SHAPE_USE = {"s": "return (t + 1);", "v": "return (t + t);", "m": "return (t * 2.0);", "a": "t[0] = (t[1] + 1); return t;", "S": "t.a = (t.a + 1); return t;"}


@family("C05.shape-compat", props=["C05"], functions=["nsl.ast::AssignmentExpression.ResolveType", "nsl.passes.ComputeTypes::ComputeTypeVisitor.v_VariableDeclaration",
                                                           "nsl.passes.ComputeTypes::ComputeTypeVisitor._ProcessExpression", T + "::IsCompatible",
                                                           "nsl.passes.AddImplicitCasts::AddImplicitCastVisitor._ConvertTo"],
        assumptions=["types enumerated: int, uint, float, int2, float2, float3, float4, float3x3, float4x4, int[3], one struct -- all ordered pairs (declared type T, value type V), each in "
                     "three contexts {assignment, initialiser, return} x {plain, optimize}; the variable is then used the way its declared type allows (scalar + 1, vector + vector, "
                     "matrix * scalar, array element, struct member); one sample input per value type (shapes do not depend on the numbers)"])
def c05_shape_compat(R):
    """(declared type T, value type V): a program that lets a V reach a T -- by assignment, as initialiser or as returned value -- and then uses
    the T as a T is rejected at compile time, or runs without an internal error and yields a value of T's shape.  (Where V's shape is T's shape
    -- two scalars; two vectors of one size; two matrices of one shape; the same array or struct type -- the unchanged tree accepts and runs it.)"""
    import copy
    from nsl import LinearIR, VM
    for tname, (tshape, _tv) in _SHAPE_TYPES.items():
        use = _SHAPE_USE[tshape[0]]
        ctxs = {
            "assignment": "export function f({V} v) -> {T} {{ {T} t; t = v; " + use + " }}",
            "initialiser": "export function f({V} v) -> {T} {{ {T} t = v; " + use + " }}",
            "return": "function g({V} v) -> {T} {{ return v; }}\nexport function f({V} v) -> {T} {{ {T} t = g(v); " + use + " }}",
        }
        for vname, (vshape, sample) in _SHAPE_TYPES.items():
            compatible = tshape == vshape
            bad = []
            for cname, tmpl in ctxs.items():
                src = ("struct S { int a; }\n" if "S" in (tname, vname) else "") + tmpl.format(V=vname, T=tname)
                for opt in (False, True):
                    r, exc = compile_quiet(src, {"optimize": opt})
                    if r is None:
                        continue          # rejected: C05 speaks about accepted programs only (which pairs must be accepted is C09 / C10 matter)
                    try:
                        lk = LinearIR.Linker()
                        lk.AddModule(r.IRModule)
                        got = VM.VirtualMachine(lk.Link()).Invoke("f", v=copy.deepcopy(sample))
                        if not _has_shape(got, tshape):
                            bad.append((cname, opt, src, f"accepted; f({sample!r}) returned {got!r}, which is not a {tname}"))
                    except BaseException as e:
                        if isinstance(e, KeyboardInterrupt):
                            raise
                        bad.append((cname, opt, src, f"accepted; f({sample!r}) raised {type(e).__name__}: {str(e)[:100]}"))
            det = "" if not bad else f"{len(bad)} of 6 (context, optimisation) variants fail; first ({bad[0][0]}, {'opt' if bad[0][1] else 'plain'}): {bad[0][3]}\n{bad[0][2]}"
            R.check(f"C05.shape-compat[{tname} <- {vname}]", "nsl.passes.ComputeTypes::ComputeTypeVisitor._ProcessExpression", not bad, detail=det,
                    replay=None if not bad else script("""
                        import io, contextlib
                        from nsl import Compiler, LinearIR, VM
                        src, opt, compatible, sample = {{src}}, {{opt}}, {{compatible}}, {{sample}}
                        try:
                            with contextlib.redirect_stdout(io.StringIO()):
                                r = Compiler.Compiler().Compile(src, {'optimize': opt})
                        except BaseException as e:
                            r = None; print('rejected:', type(e).__name__, str(e)[:100])
                        print(src)
                        if r is None:
                            pass          # rejected: not a failure of C05
                        else:
                            lk = LinearIR.Linker(); lk.AddModule(r.IRModule)
                            try:
                                got = VM.VirtualMachine(lk.Link()).Invoke('f', v=sample)
                                print('accepted; f(%r) =' % (sample,), got, ' -- expected: a value of the declared result type')
                                want = {{want}}
                                shape = (lambda x: [shape(y) for y in x] if isinstance(x, list) else (sorted(x) if isinstance(x, dict) else 0))
                                if shape(got) != shape(want): print('REPLAY-CONFIRMED')
                            except Exception as e:
                                print('accepted; raised', type(e).__name__, e); print('REPLAY-CONFIRMED')
                        """, src=bad[0][2], opt=bad[0][1], compatible=compatible, sample=sample, want=_SHAPE_TYPES[tname][1]))


@family("C05.function-end", props=["C05"], functions=["nsl.VM::ExecutionContext.__Execute", "nsl.VM::VirtualMachine._Invoke", "nsl.passes.LowerToIR::LowerToIRVisitor.v_Function"],
        assumptions=["function shapes enumerated: result type {int, float, float2} x body {empty, return inside an if without else, return inside a loop only, if/else returning on both "
                     "branches (control: never falls off)}; the caller uses the result as a value of the declared type; inputs chosen so that the end of the body is reached"])
def c05_function_end(R):
    """A function with a result type whose body can reach its end without `return`: the program is rejected, or the call yields a value of the
    declared type -- the caller's next operator must not meet `None` (TypeError, an internal error in the sense of C05)."""
    from nsl import LinearIR, VM
    bodies = {"empty": "", "if-without-else": "if (a > 0) { return {v}; }", "loop-only": "for (int i = 0; i < a; ++i) { return {v}; }",
              "if-else-both": "if (a > 0) { return {v}; } else { return {v}; }"}
    for rt, v, use, shape in (("int", "1", "(g(a) + 1)", ("s",)), ("float", "1.5", "(g(a) * 2.0)", ("s",)), ("float2", "float2(1.0, 2.0)", "(g(a) + g(a))", ("v", 2))):
        for bname, body in bodies.items():
            src = f"function g(int a) -> {rt} {{ {body.replace('{v}', v)} }}\nexport function f(int a) -> {rt} {{ return {use}; }}"
            bad = None
            for opt in (False, True):
                r, exc = compile_quiet(src, {"optimize": opt})
                if r is None:
                    continue          # rejected: nothing to run (C05 speaks about accepted programs)
                try:
                    lk = LinearIR.Linker()
                    lk.AddModule(r.IRModule)
                    got = VM.VirtualMachine(lk.Link()).Invoke("f", a=0)
                    if not _has_shape(got, shape):
                        bad = bad or f"accepted; f(0) returned {got!r}, which is not a {rt}"
                except BaseException as e:
                    if isinstance(e, KeyboardInterrupt):
                        raise
                    bad = bad or f"accepted; f(0) raised {type(e).__name__}: {str(e)[:100]}"
            R.check(f"C05.function-end[{rt},{bname}]", "nsl.VM::VirtualMachine._Invoke", bad is None, detail=f"{bad}\n{src}",
                    replay=script("""
                        import io, contextlib
                        from nsl import Compiler, LinearIR, VM
                        src = {{src}}
                        try:
                            with contextlib.redirect_stdout(io.StringIO()):
                                r = Compiler.Compiler().Compile(src)
                        except BaseException as e:
                            r = None; print('rejected:', type(e).__name__, str(e)[:100])
                        print(src)
                        if r is not None:
                            lk = LinearIR.Linker(); lk.AddModule(r.IRModule)
                            try:
                                print('f(0) =', VM.VirtualMachine(lk.Link()).Invoke('f', a=0))
                            except Exception as e:
                                print('accepted; raised', type(e).__name__, e); print('REPLAY-CONFIRMED')
                        """, src=src))
