"""Reference semantics of the NSL scalar core, written from the text of property
C01 (C-like: declared precedence, int->float promotion, truncating integer
division, 0/1 comparisons and logical operators, zero-initialised locals that are
re-initialised whenever their declaration executes, break / continue / for-
increment rules, by-value calls into isolated frames, persistent globals).

Programs are small Python data structures; `render` turns one into NSL source
(optionally WITHOUT redundant parentheses, so that the parser's grouping is on
the path) and `Interp` evaluates it on Python numbers or on pyvc proxies -- the
same path context as the real VM, so one run decides ALL inputs of that path."""
from __future__ import annotations

import z3

from pyvc.sym import SymInt, SymReal, SymBool, term, is_sym
from . import irsem

LEVEL = {"||": 1, "&&": 2, "==": 3, "!=": 3, "<": 4, "<=": 4, ">": 4, ">=": 4, "+": 5, "-": 5, "*": 6, "/": 6, "%": 6}
OPN = {"+": "ADD", "-": "SUB", "*": "MUL", "/": "DIV", "%": "MOD", "&&": "LG_AND", "||": "LG_OR", ">": "CMP_GT", "<": "CMP_LT", "<=": "CMP_LE", ">=": "CMP_GE", "!=": "CMP_NE", "==": "CMP_EQ"}


# ---------------------------------------------------------------------------
# rendering

def rexpr(e, minimal=False, parent_level=0, right=False):
    k = e[0]
    if k == "int":
        return str(e[1]) if e[1] >= 0 else f"(0 - {-e[1]})"
    if k == "flt":
        return repr(float(e[1]))
    if k == "var":
        return e[1]
    if k == "idx":
        return e[1] + "".join(f"[{rexpr(i, minimal)}]" for i in e[2])
    if k == "fld":
        return f"{e[1]}.{e[2]}"
    if k == "call":
        return f"{e[1]}({', '.join(rexpr(a, minimal) for a in e[2])})"
    if k == "pre":
        return f"{e[1]}{e[2]}"
    if k == "post":
        return f"{e[2]}{e[1]}"
    if k == "bin":
        op, l, r = e[1], e[2], e[3]
        lv = LEVEL[op]
        s = f"{rexpr(l, minimal, lv, False)} {op} {rexpr(r, minimal, lv, True)}"
        if not minimal:
            return f"({s})"
        need = lv < parent_level or (lv == parent_level and right)
        return f"({s})" if need else s
    raise KeyError(k)


def rtype(t):
    if isinstance(t, tuple) and t[0] == "arr":
        return t[1] + "".join(f"[{n}]" for n in t[2])
    if isinstance(t, tuple) and t[0] == "struct":
        return t[1]
    return t


def rstmt(s, minimal=False, ind="  "):
    k = s[0]
    if k == "decl":
        init = f" = {rexpr(s[3], minimal)}" if s[3] is not None else ""
        return f"{ind}{rtype(s[1])} {s[2]}{init};"
    if k == "assign":
        return f"{ind}{rexpr(s[1], minimal)} {s[2]} {rexpr(s[3], minimal)};"
    if k == "expr":
        return f"{ind}{rexpr(s[1], minimal)};"
    if k == "if":
        out = f"{ind}if ({rexpr(s[1], minimal)}) {{\n" + "\n".join(rstmt(x, minimal, ind + "  ") for x in s[2]) + f"\n{ind}}}"
        if s[3] is not None:
            out += f" else {{\n" + "\n".join(rstmt(x, minimal, ind + "  ") for x in s[3]) + f"\n{ind}}}"
        return out
    if k == "while":
        return f"{ind}while ({rexpr(s[1], minimal)}) {{\n" + "\n".join(rstmt(x, minimal, ind + "  ") for x in s[2]) + f"\n{ind}}}"
    if k == "do":
        return f"{ind}do {{\n" + "\n".join(rstmt(x, minimal, ind + "  ") for x in s[1]) + f"\n{ind}}} while ({rexpr(s[2], minimal)})"
    if k == "for":
        init = rstmt(s[1], minimal, "").rstrip(";") if s[1] is not None else ""
        cond = rexpr(s[2], minimal) if s[2] is not None else ""
        nxt = (rstmt(s[3], minimal, "").rstrip(";")) if s[3] is not None else ""
        return f"{ind}for ({init}; {cond}; {nxt}) {{\n" + "\n".join(rstmt(x, minimal, ind + "  ") for x in s[4]) + f"\n{ind}}}"
    if k == "break":
        return f"{ind}break;"
    if k == "continue":
        return f"{ind}continue;"
    if k == "return":
        return f"{ind}return {rexpr(s[1], minimal)};" if s[1] is not None else f"{ind}return;"
    if k == "block":
        return f"{ind}{{\n" + "\n".join(rstmt(x, minimal, ind + "  ") for x in s[1]) + f"\n{ind}}}"
    raise KeyError(k)


def render(prog, minimal=False):
    out = []
    for sname, fields in prog.get("structs", []):
        out.append(f"struct {sname} {{ " + " ".join(f"{t} {n};" for t, n in fields) + " }")
    for t, n in prog.get("globals", []):
        out.append(f"{rtype(t)} {n};")
    for f in prog["functions"]:
        ex = "export " if f.get("export", True) else ""
        ps = ", ".join(f"{rtype(t)} {n}" for t, n in f["params"])
        out.append(f"{ex}function {f['name']}({ps}) -> {rtype(f['ret'])} {{\n" + "\n".join(rstmt(s, minimal) for s in f["body"]) + "\n}")
    return "\n".join(out)


# ---------------------------------------------------------------------------
# the reference interpreter

class _Break(Exception):
    pass


class _Continue(Exception):
    pass


class _Return(Exception):
    def __init__(self, v):
        self.v = v


def _num(t, kind):
    t = z3.simplify(t)
    if z3.is_int_value(t):
        return t.as_long()
    if kind == "float" and z3.is_rational_value(t):
        return float(t.numerator_as_long()) / float(t.denominator_as_long())
    return SymReal(t) if kind == "float" else SymInt(t)


def _val(v, kind):
    """bring a number to the representation of its static kind"""
    if kind == "float" and isinstance(v, int) and not isinstance(v, bool):
        return float(v)
    if kind == "float" and isinstance(v, SymInt):
        return SymReal(z3.ToReal(v.t))
    return v


def zero(t, structs):
    if t == "int":
        return 0
    if t == "float":
        return 0.0 if False else 0          # the VM's zero is the integer 0 for every scalar; numerically equal
    if isinstance(t, tuple) and t[0] == "arr":
        def mk(sizes):
            if len(sizes) == 1:
                return [zero(t[1], structs) for _ in range(sizes[0])]
            return [mk(sizes[1:]) for _ in range(sizes[0])]
        return mk(list(t[2]))
    if isinstance(t, tuple) and t[0] == "struct":
        return {n: zero(ft, structs) for ft, n in structs[t[1]]}
    if t in structs:
        return {n: zero(ft, structs) for ft, n in structs[t]}
    raise KeyError(t)


class Interp:
    def __init__(self, prog, globals_):
        self.prog = prog
        self.structs = dict(prog.get("structs", []))
        self.funcs = {}
        for f in prog["functions"]:
            self.funcs.setdefault(f["name"], []).append(f)
        self.gtypes = {n: t for t, n in prog.get("globals", [])}
        self.globals = globals_
        self.steps = 0

    # static types ---------------------------------------------------------
    def etype(self, e, env_t):
        k = e[0]
        if k == "int":
            return "int"
        if k == "flt":
            return "float"
        if k == "var":
            return env_t[e[1]] if e[1] in env_t else self.gtypes[e[1]]
        if k == "idx":
            t = env_t[e[1]] if e[1] in env_t else self.gtypes[e[1]]
            return t[1]
        if k == "fld":
            t = env_t[e[1]] if e[1] in env_t else self.gtypes[e[1]]
            sname = t[1] if isinstance(t, tuple) else t
            return dict((n, ft) for ft, n in self.structs[sname])[e[2]]
        if k == "call":
            return self.resolve(e[1], [self.etype(a, env_t) for a in e[2]])["ret"]
        if k in ("pre", "post"):
            return env_t[e[2]] if e[2] in env_t else self.gtypes[e[2]]
        if k == "bin":
            if e[1] in ("<", ">", "<=", ">=", "==", "!="):
                return "int"
            lt, rt = self.etype(e[2], env_t), self.etype(e[3], env_t)
            return "float" if "float" in (lt, rt) else "int"
        raise KeyError(k)

    def resolve(self, name, argtypes):
        best = None
        for f in self.funcs[name]:
            if len(f["params"]) != len(argtypes):
                continue
            score = sum(0 if pt == at else 1 for (pt, _), at in zip(f["params"], argtypes))
            if best is None or score < best[0]:
                best = (score, f)
        return best[1]

    # evaluation -------------------------------------------------------------
    def lookup(self, name, env):
        return env if name in env else self.globals

    def binop(self, op, a, b, ta, tb):
        both_int = ta == "int" and tb == "int"
        if not is_sym(a) and not is_sym(b):
            if op == "/":
                if both_int:
                    q = abs(a) // abs(b)
                    return q if (a < 0) == (b < 0) else -q
                return a / b
            if op == "%":
                return a % b
            if op == "&&":
                return 1 if (a and b) else 0
            if op == "||":
                return 1 if (a or b) else 0
            r = {"+": lambda: a + b, "-": lambda: a - b, "*": lambda: a * b, "<": lambda: a < b, ">": lambda: a > b, "<=": lambda: a <= b,
                 ">=": lambda: a >= b, "==": lambda: a == b, "!=": lambda: a != b}[op]()
            return (1 if r else 0) if isinstance(r, bool) else r
        ta_, tb_ = term(a), term(b)
        if op in ("/", "%") and False:
            pass
        if not both_int:
            ta_ = z3.ToReal(ta_) if ta_.sort() == z3.IntSort() else ta_
            tb_ = z3.ToReal(tb_) if tb_.sort() == z3.IntSort() else tb_
        res = irsem.binary(OPN[op], ta_, tb_, both_int)
        kind = "int" if (both_int or op in ("<", ">", "<=", ">=", "==", "!=", "&&", "||")) else "float"
        return _num(res, kind)

    def ev(self, e, env, env_t):
        k = e[0]
        if k == "int":
            return e[1]
        if k == "flt":
            return float(e[1])
        if k == "var":
            return self.lookup(e[1], env)[e[1]]
        if k == "idx":
            v = self.lookup(e[1], env)[e[1]]
            for i in e[2]:
                v = v[self.ev(i, env, env_t)]
            return v
        if k == "fld":
            return self.lookup(e[1], env)[e[1]][e[2]]
        if k == "call":
            args = [self.ev(a, env, env_t) for a in e[2]]
            f = self.resolve(e[1], [self.etype(a, env_t) for a in e[2]])
            args = [_val(v, pt) if pt in ("int", "float") else v for v, (pt, _) in zip(args, f["params"])]
            return self.call(f, args)
        if k in ("pre", "post"):
            scope = self.lookup(e[2], env)
            old = scope[e[2]]
            new = self.binop("+" if e[1] == "++" else "-", old, 1, "int", "int")
            scope[e[2]] = new
            return new if k == "pre" else old
        if k == "bin":
            lt, rt = self.etype(e[2], env_t), self.etype(e[3], env_t)
            a = self.ev(e[2], env, env_t)
            b = self.ev(e[3], env, env_t)
            return self.binop(e[1], a, b, lt, rt)
        raise KeyError(k)

    def truth(self, v):
        if is_sym(v):
            return bool(v != 0)
        return v != 0

    def lval(self, lhs, env, env_t):
        """-> (container, key) of an assignable expression; index expressions are evaluated exactly once, left to right"""
        k = lhs[0]
        if k == "var":
            return self.lookup(lhs[1], env), lhs[1]
        if k == "idx":
            c = self.lookup(lhs[1], env)[lhs[1]]
            idx = [self.ev(i, env, env_t) for i in lhs[2]]
            for i in idx[:-1]:
                c = c[i]
            return c, idx[-1]
        if k == "fld":
            return self.lookup(lhs[1], env)[lhs[1]], lhs[2]
        raise KeyError(k)

    def store(self, lhs, v, env, env_t):
        import copy
        if isinstance(v, (list, dict)):
            v = copy.deepcopy(v)          # assignment copies the value: arrays and structs are values, two variables never share one
        k = lhs[0]
        if k == "var":
            self.lookup(lhs[1], env)[lhs[1]] = v
        elif k == "idx":
            c = self.lookup(lhs[1], env)[lhs[1]]
            for i in lhs[2][:-1]:
                c = c[self.ev(i, env, env_t)]
            c[self.ev(lhs[2][-1], env, env_t)] = v
        elif k == "fld":
            self.lookup(lhs[1], env)[lhs[1]][lhs[2]] = v
        else:
            raise KeyError(k)

    def run(self, stmts, env, env_t):
        for s in stmts:
            self.exec(s, env, env_t)

    def exec(self, s, env, env_t):
        self.steps += 1
        if self.steps > 4000:
            raise RuntimeError("reference interpreter: step limit")
        k = s[0]
        if k == "decl":
            env_t[s[2]] = s[1]
            env[s[2]] = zero(s[1], self.structs)
            if s[3] is not None:
                import copy
                iv = self.ev(s[3], env, env_t)
                env[s[2]] = copy.deepcopy(iv) if isinstance(iv, (list, dict)) else _val(iv, s[1] if s[1] in ("int", "float") else None)
        elif k == "assign":
            tl = self.etype(s[1], env_t)
            if s[2] == "=":
                v = self.ev(s[3], env, env_t)
                self.store(s[1], _val(v, tl), env, env_t)
            else:
                # `l op= r`: the target is designated ONCE (its index expressions are evaluated once, C semantics), read, combined, written
                import copy
                cont, key = self.lval(s[1], env, env_t)
                v = self.binop(s[2][0], cont[key], self.ev(s[3], env, env_t), tl, self.etype(s[3], env_t))
                v = _val(v, tl)
                cont[key] = copy.deepcopy(v) if isinstance(v, (list, dict)) else v
        elif k == "expr":
            self.ev(s[1], env, env_t)
        elif k == "if":
            if self.truth(self.ev(s[1], env, env_t)):
                self.run(s[2], env, env_t)
            elif s[3] is not None:
                self.run(s[3], env, env_t)
        elif k == "while":
            while self.truth(self.ev(s[1], env, env_t)):
                try:
                    self.run(s[2], env, env_t)
                except _Break:
                    break
                except _Continue:
                    continue
        elif k == "do":
            while True:
                try:
                    self.run(s[1], env, env_t)
                except _Break:
                    break
                except _Continue:
                    pass
                if not self.truth(self.ev(s[2], env, env_t)):
                    break
        elif k == "for":
            if s[1] is not None:
                self.exec(s[1], env, env_t)
            while s[2] is None or self.truth(self.ev(s[2], env, env_t)):
                try:
                    self.run(s[4], env, env_t)
                except _Break:
                    break
                except _Continue:
                    pass
                if s[3] is not None:
                    self.exec(s[3], env, env_t)
        elif k == "break":
            raise _Break()
        elif k == "continue":
            raise _Continue()
        elif k == "return":
            raise _Return(self.ev(s[1], env, env_t) if s[1] is not None else None)
        elif k == "block":
            self.run(s[1], env, env_t)
        else:
            raise KeyError(k)

    def call(self, f, args):
        import copy
        # arguments are passed by value (C03): the callee works on its own copy of an array / struct argument
        env = {n: (copy.deepcopy(v) if isinstance(v, (list, dict)) else v) for (t, n), v in zip(f["params"], args)}
        env_t = {n: t for t, n in f["params"]}
        try:
            self.run(f["body"], env, env_t)
        except _Return as r:
            return _val(r.v, f["ret"]) if f["ret"] in ("int", "float") else r.v
        return None

    def invoke(self, name, **kw):
        f = [x for x in self.funcs[name] if x.get("export", True)][0]
        return self.call(f, [kw.get(n) for t, n in f["params"]])
