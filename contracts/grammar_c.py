"""C08: grouping of binary operators.  The parse function of NSL is the LALR(1)
automaton PLY derives from the docstrings and the `precedence` tuple of
NslParser.  The table is built IN MEMORY from the current source on every run
(no parsetab.py is read or written) and the obligations are stated on it: an LR
parser's decisions depend only on the state stack and one lookahead token, so
simulating the real action/goto tables from every state that can start an
expression, for every operator pair / triple, is a complete proof over all
inputs -- not a sample of source texts."""
from __future__ import annotations

import itertools

from pyvc.core import family, resolve, Missing
from pyvc.util import script
from . import types_c as tc

LEVEL = {"LOR": 1, "LAND": 2, "EQ": 3, "NE": 3, "LT": 4, "LE": 4, "GT": 4, "GE": 4, "PLUS": 5, "MINUS": 5, "TIMES": 6, "DIVIDE": 6, "MOD": 6}
SPELL = {"LOR": "||", "LAND": "&&", "EQ": "==", "NE": "!=", "LT": "<", "LE": "<=", "GT": ">", "GE": ">=", "PLUS": "+", "MINUS": "-", "TIMES": "*", "DIVIDE": "/", "MOD": "%"}
OPS = list(LEVEL)

_table = {}


def build_table():
    """-> (action, goto, productions) of the LALR table PLY builds for NslParser (start symbol: module)."""
    if _table:
        return _table["t"]
    import io, contextlib
    import ply.yacc
    import nsl.parser as P
    import nsl.lexer as LX
    obj = object.__new__(P.NslParser)
    lx = LX.NslLexer()
    obj.tokens = lx.tokens
    buf = io.StringIO()
    with contextlib.redirect_stdout(buf), contextlib.redirect_stderr(buf):
        parser = ply.yacc.yacc(module=obj, start="module", write_tables=False, debug=False, tabmodule="pyvc_no_such_table_module", errorlog=ply.yacc.NullLogger())
    _table["t"] = (parser.action, parser.goto, parser.productions)
    return _table["t"]


class Sim:
    """The LR driver algorithm on PLY's tables, on token TYPES, recording every reduction with the token span it covers."""

    def __init__(self, start_state):
        self.action, self.goto, self.prods = build_table()
        self.stack = [(start_state, None, None)]      # (state, symbol, tree)
        self.log = []

    def feed(self, tok, index):
        """process one lookahead token; returns 'shift' | 'error' | 'accept'"""
        while True:
            st = self.stack[-1][0]
            act = self.action[st].get(tok)
            if act is None:
                return "error"
            if act > 0:
                self.stack.append((act, tok, ("tok", tok, index)))
                return "shift"
            if act == 0:
                return "accept"
            p = self.prods[-act]
            n = p.len
            if n >= len(self.stack):
                return "context"      # the reduction reaches below the state we started from: the expression is complete
            kids = [x[2] for x in self.stack[len(self.stack) - n:]] if n else []
            if n:
                del self.stack[len(self.stack) - n:]
            tree = (p.name, tuple(k for k in kids))
            g = self.goto[self.stack[-1][0]].get(p.name)
            if g is None:
                return "error"
            self.stack.append((g, p.name, tree))


def leaves(t):
    if t[0] == "tok":
        return [t]
    out = []
    for k in t[1]:
        out += leaves(k)
    return out


def shape(t):
    """Reduce a parse tree to the grouping of its binary operators: nested tuples (op, left, right) with operand indices as leaves."""
    if t[0] == "tok":
        return None
    name, kids = t
    if name == "binary_expression":
        ops = [k for k in kids if _is_op(k)]
        subs = [k for k in kids if not _is_op(k) and not (k[0] == "tok" and k[1] in ("(", ")"))]
        if len(ops) == 1 and len(subs) == 2:
            return (_opname(ops[0]), shape(subs[0]) or _first(subs[0]), shape(subs[1]) or _first(subs[1]))
        if len(subs) == 1:          # '(' binary_expression ')'
            return shape(subs[0])
    if name == "assignment_expression":
        return ("=", _first(kids[0]), shape(kids[2]) or _first(kids[2]))
    inner = [shape(k) for k in kids if k[0] != "tok"]
    inner = [s for s in inner if s is not None]
    if len(inner) == 1:
        return inner[0]
    return None


def _is_op(k):
    if k[0] == "tok":
        return k[1] in LEVEL
    return k[0] == "bin_op"


def _opname(k):
    return k[1] if k[0] == "tok" else leaves(k)[0][1]


def _first(t):
    ls = leaves(t)
    ids = [x for x in ls if x[1] == "ID"]
    return ("id", ids[0][2]) if ids else None


def spec_tree(ops):
    """grouping of  id0 op0 id1 op1 id2 ...  by the declared levels, left to right"""
    operands = [("id", 2 * i) for i in range(len(ops) + 1)]

    def parse(minlevel, pos):
        left = operands[pos]
        i = pos
        while i < len(ops) and LEVEL[ops[i]] >= minlevel:
            o = ops[i]
            right, j = parse(LEVEL[o] + 1, i + 1)
            left = (o, left, right)
            i = j
        return left, i

    return parse(0, 0)[0]


def expression_states():
    """States in which a COMPLETE expression can start: they have a goto on `expression`, and in the state reached by it every binary
    operator is shifted (states that lie after `expression OP` -- where the right operand starts -- reduce there instead; the decisions
    taken from them are exercised by the pair/triple simulations that pass through them)."""
    action, goto, prods = build_table()
    out = []
    for q, g in goto.items():
        if "expression" not in g:
            continue
        s = g["expression"]
        if all(action[s].get(o, 0) > 0 for o in OPS):
            out.append(q)
    return sorted(out)


def inner_states_covered(Q):
    """every other state with a goto on `expression` is entered while simulating  ID op ID op ID  from some state of Q"""
    action, goto, prods = build_table()
    allq = {q for q, g in goto.items() if "expression" in g}
    seen = set(Q)
    for q in Q:
        for o1, o2 in itertools.product(OPS, repeat=2):
            for toks in (["ID", o1, "ID", o2, "ID"], ["(", "ID", o1, "ID", ")", o2, "ID"], ["ID", "EQUALS", "ID", o1, "ID"]):
                sim = Sim(q)
                for i, t in enumerate(toks):
                    if sim.feed(t, i) != "shift":
                        break
                    seen |= {x[0] for x in sim.stack}
    return sorted(allq - seen)


def run_from(q, toks):
    """Simulate from state q on the token types `toks`, then on every terminal that may follow; returns set of groupings observed (or 'error')."""
    action, goto, prods = build_table()
    sim = Sim(q)
    for i, t in enumerate(toks):
        if sim.feed(t, i) != "shift":
            return None
    # the terminals that can follow: try each terminal of the grammar, keep those that lead to a shift with the whole expression reduced
    results = set()
    terms = set()
    for st, acts in action.items():
        terms |= set(acts)
    for t in sorted(x for x in terms if x not in LEVEL and x not in ("ID",)):
        s2 = Sim(q)
        s2.stack = list(sim.stack)
        r = s2.feed(t, len(toks))
        if r == "error":
            continue
        # the expression is whatever now lies directly above the start state
        above = [x for x in s2.stack[1:]]
        covering = [x[2] for x in above if x[2] is not None and x[2][0] != "tok" and len(leaves(x[2])) >= len(toks)]
        cand = None
        for x in above:
            if x[2] is not None and x[2][0] != "tok":
                ls = leaves(x[2])
                if ls and ls[0][2] == 0 and ls[-1][2] == len(toks) - 1:
                    cand = x[2]
        if cand is None:
            continue
        results.add((t, shape(cand)))
    return results


def show(t):
    if t is None:
        return "?"
    if t[0] == "id":
        return "abcdefgh"[t[1] // 2] if t[1] % 2 == 0 else f"t{t[1]}"
    if t[0] == "=":
        return f"({show(t[1])} = {show(t[2])})"
    return f"({show(t[1])} {SPELL.get(t[0], t[0])} {show(t[2])})"


def replay_grouping(ops, vals=None):
    """evaluate on the VM with operand values that distinguish the groupings"""
    names = "abcd"[: len(ops) + 1]
    expr = " ".join(x for pair in zip(names, [SPELL[o] for o in ops] + [""]) for x in pair).strip()
    return script("""
        import io, contextlib, itertools
        from nsl import Compiler, LinearIR, VM
        names, ops, expr = {{names}}, {{ops}}, {{expr}}
        LEVEL = {'||': 1, '&&': 2, '==': 3, '!=': 3, '<': 4, '<=': 4, '>': 4, '>=': 4, '+': 5, '-': 5, '*': 6, '/': 6, '%': 6}
        def ev(o, x, y):
            if o == '/': return (abs(x) // abs(y)) * (1 if (x < 0) == (y < 0) else -1)
            if o == '&&': return 1 if (x and y) else 0
            if o == '||': return 1 if (x or y) else 0
            r = eval('x %s y' % o); return (1 if r else 0) if isinstance(r, bool) else r
        def spec(vals):
            def parse(minl, pos):
                left = vals[pos]; i = pos
                while i < len(ops) and LEVEL[ops[i]] >= minl:
                    right, j = parse(LEVEL[ops[i]] + 1, i + 1); left = ev(ops[i], left, right); i = j
                return left, i
            return parse(0, 0)[0]
        src = 'export function f(%s) -> int { return %s; }' % (', '.join('int ' + n for n in names), expr)
        try:
            with contextlib.redirect_stdout(io.StringIO()):
                r = Compiler.Compiler().Compile(src)
        except BaseException as e:
            print(src, 'rejected:', type(e).__name__, e); r = None
        bad = None
        if r is not None:
            l = LinearIR.Linker(); l.AddModule(r.IRModule); prog = l.Link()
            for vals in itertools.product((7, 2, 3, 1, 5, 0), repeat=len(names)):
                try:
                    want = spec(list(vals))
                except ZeroDivisionError:
                    continue
                try:
                    got = VM.VirtualMachine(prog).Invoke('f', **dict(zip(names, vals)))
                except ZeroDivisionError:
                    continue
                if got != want:
                    bad = (vals, got, want); break
        print(src, '; first disagreement (values, VM result, result with the declared precedence):', bad)
        if bad: print('REPLAY-CONFIRMED')
        """, names=names, ops=[SPELL[o] for o in ops], expr=expr)


@family("C08.lr", props=["C08", "C01"],
        functions=["nsl.parser::NslParser.precedence", "nsl.parser::NslParser.p_binary_expression", "nsl.parser::NslParser.p_expression", "nsl.parser::NslParser.p_assignment_expression",
                   "nsl.parser::NslParser.p_unary_expression_1"],
        assumptions=["PLY's table INTERPRETER (LRParser.parse) is trusted; its table GENERATOR is not: the table it produced for the current grammar is inspected",
                     "operands are identifiers (the reduction of an operand to `expression` happens before the operator decision and is the same for every unary expression)"])
def c08_lr(R):
    """From EVERY automaton state that can start an expression and for every pair and triple of the 13 binary operators, the real action/goto
    tables group `a o1 b o2 c (o3 d)` by the declared levels (|| < && < == != < < <= > >= < + - < * / %), left to right within a level, whatever
    terminal follows; parentheses override; an assignment's right-hand side is the whole following expression."""
    Q = expression_states()
    R.check("C08.lr.states", "nsl.parser::NslParser", len(Q) > 0, detail=f"{len(Q)} states can start an expression")
    missing = inner_states_covered(Q)
    action, goto, prods = build_table()
    # states not entered by these simulations start an expression in a context the simulations do not pass through (e.g. inside other
    # operators' operands, call arguments ...): they must themselves be context states
    R.check("C08.lr.coverage", "nsl.parser::NslParser", not [q for q in missing if q not in Q], detail=f"states with a goto on `expression` that no simulation passes through: {missing}")
    fn = "nsl.parser::NslParser.p_binary_expression"
    # pairs: every state
    for o1, o2 in itertools.product(OPS, repeat=2):
        want = spec_tree([o1, o2])
        bad = []
        n = 0
        for q in Q:
            res = run_from(q, ["ID", o1, "ID", o2, "ID"])
            if not res:
                bad.append((q, "syntax error or no complete expression"))
                continue
            for t, shp in res:
                n += 1
                if shp != want:
                    bad.append((q, t, show(shp)))
        R.check(f"C08.lr.pair[{o1},{o2}]", fn, not bad, detail=f"`a {SPELL[o1]} b {SPELL[o2]} c` must group as {show(want)}; {len(bad)} of {n} (state, follower) cases differ, e.g. {bad[:3]}",
                replay=replay_grouping([o1, o2]))
    # triples: every state, first follower only (the grouping is decided before the follower is seen except for the last reduction, covered by pairs)
    for o1, o2, o3 in itertools.product(OPS, repeat=3):
        want = spec_tree([o1, o2, o3])
        bad = []
        for q in Q:
            res = run_from(q, ["ID", o1, "ID", o2, "ID", o3, "ID"])
            if not res:
                bad.append((q, "syntax error"))
                continue
            for t, shp in res:
                if shp != want:
                    bad.append((q, t, show(shp)))
        R.check(f"C08.lr.triple[{o1},{o2},{o3}]", fn, not bad, detail=f"`a {SPELL[o1]} b {SPELL[o2]} c {SPELL[o3]} d` must group as {show(want)}; e.g. {bad[:2]}",
                replay=replay_grouping([o1, o2, o3]))
    # parentheses
    for o1, o2 in itertools.product(OPS, repeat=2):
        bad = []
        for q in Q:
            r1 = run_from(q, ["(", "ID", o1, "ID", ")", o2, "ID"])
            r2 = run_from(q, ["ID", o1, "(", "ID", o2, "ID", ")"])
            if not r1 or not r2:
                bad.append((q, "syntax error"))
                continue
            for t, shp in r1:
                if not (shp and shp[0] == o2 and isinstance(shp[1], tuple) and shp[1][0] == o1):
                    bad.append((q, t, "(a o1 b) o2 c ->", show(shp)))
            for t, shp in r2:
                if not (shp and shp[0] == o1 and isinstance(shp[2], tuple) and shp[2][0] == o2):
                    bad.append((q, t, "a o1 (b o2 c) ->", show(shp)))
        R.check(f"C08.lr.paren[{o1},{o2}]", fn, not bad, detail=f"parentheses must override the default grouping; e.g. {bad[:2]}")
    # assignment: the right-hand side extends over the whole following expression
    for aop in ("EQUALS", "PLUSEQUAL", "MINUSEQUAL", "TIMESEQUAL", "DIVEQUAL"):
        for o1, o2 in itertools.product(OPS, repeat=2):
            bad = []
            want = spec_tree([o1, o2])
            for q in Q:
                res = run_from(q, ["ID", aop, "ID", o1, "ID", o2, "ID"])
                if not res:
                    continue          # an assignment cannot stand in this context (e.g. directly inside parentheses): a rejection, not a grouping
                for t, shp in res:
                    # leaves are shifted by two tokens
                    if not (shp and shp[0] == "=" and _shift(shp[2], -2) == want):
                        bad.append((q, t, show(shp)))
            if bad:
                R.check(f"C08.lr.assign[{aop},{o1},{o2}]", "nsl.parser::NslParser.p_assignment_expression", False, detail=f"`x {aop} a {SPELL[o1]} b {SPELL[o2]} c`: the right-hand side must be the whole expression {show(want)}; e.g. {bad[:2]}")
        R.check(f"C08.lr.assign[{aop}]", "nsl.parser::NslParser.p_assignment_expression", True, detail="summary (failures are listed individually)")


def _shift(t, d):
    if t is None:
        return None
    if t[0] == "id":
        return ("id", t[1] + d)
    return (t[0], _shift(t[1], d), _shift(t[2], d))


@family("C08.tokens", props=["C08"], functions=["nsl.lexer::NslLexer", "nsl.op::StrToOp"],
        assumptions=["BOUNDED stand-in for the whitespace clause (token boundaries are decided by PLY's compiled master regular expression): the real lexer is run on every ordered pair of token classes with and without each separator"])
def c08_tokens(R):
    """Operator token rules match exactly their spelling, and the token TYPES of `x op y` do not depend on the whitespace between the tokens
    (space, tab, newline, none) for identifier operands."""
    import nsl.lexer as LX
    lx = LX.NslLexer()
    lx.Build()

    def types(text):
        lx.input(text)
        out = []
        while True:
            t = lx.token()
            if t is None:
                break
            out.append(t.type)
        return out

    for name, sp in SPELL.items():
        got = types(sp)
        R.check(f"C08.token[{name}]", "nsl.lexer::NslLexer", got == [name], detail=f"{sp!r} lexes as {got}")
    bad = []
    n = 0
    for name, sp in SPELL.items():
        base = types(f"x {sp} y")
        for sep1, sep2 in itertools.product(("", " ", "\t", "\n", "  \n\t"), repeat=2):
            n += 1
            got = types(f"x{sep1}{sp}{sep2}y")
            if got != base:
                bad.append((f"x{sep1}{sp}{sep2}y", got))
    R.bounded("C08.whitespace", "nsl.lexer::NslLexer", not bad, n, detail=f"{len(bad)} layouts change the token sequence, e.g. {bad[:3]}")
