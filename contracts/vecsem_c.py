"""C04 end to end, symbolically: each program of a completely enumerated family
(all swizzle masks x vector sizes, all element/row accesses, all vector/matrix
operators over the spellable types, constructor forms, copies) is compiled by
the real compiler once, and the real VM executes it on SYMBOLIC component
values (proxies), so every obligation holds for all component values and all
in-range dynamic indices."""
from __future__ import annotations

import itertools

import z3

from pyvc.core import family, resolve
from pyvc.sym import SymInt, SymReal, term, is_sym, Unsupported
from pyvc.util import script
from pyvc.verify import verify
from . import types_c as tc
from . import vm_c
from . import irsem

_compiled = {}


def program(src, options=None):
    key = (src, tuple(sorted((options or {}).items())))
    if key not in _compiled:
        r, exc = tc.compile_quiet(src, options)
        _compiled[key] = (r, exc)
    return _compiled[key]


def make_vm(result):
    from nsl import LinearIR, VM
    l = LinearIR.Linker()
    l.AddModule(result.IRModule)
    return VM.VirtualMachine(l.Link())


def invoke(result, fname, setglobals=None, **args):
    vm = make_vm(result)
    for k, v in (setglobals or {}).items():
        vm.SetGlobal(k, v)
    with vm_c.shims():
        return vm.Invoke(fname, **args), vm


def symvec(ctx, name, n, kind="f"):
    return [ctx.real(f"{name}{i}") if kind == "f" else ctx.int(f"{name}{i}") for i in range(n)]


def symmat(ctx, name, n):
    return [[ctx.real(f"{name}{i}{j}") for j in range(n)] for i in range(n)]


IDX = dict(zip("xyzwrgba", [0, 1, 2, 3] * 2))


def vt(n, kind="float"):
    return kind if n == 1 else f"{kind}{n}"


def same_obj(got, want):
    """result is structurally the list `want` of the very input proxies (no solver needed)"""
    if isinstance(want, list):
        return isinstance(got, list) and len(got) == len(want) and all(same_obj(g, w) for g, w in zip(got, want))
    return got is want


def concrete_replay(src, call, expect_expr):
    return script("""
        import io, contextlib
        from nsl import Compiler, LinearIR, VM
        src = {{src}}
        with contextlib.redirect_stdout(io.StringIO()):
            r = Compiler.Compiler().Compile(src)
        l = LinearIR.Linker(); l.AddModule(r.IRModule)
        vm = VM.VirtualMachine(l.Link())
        v = [1.0, 2.0, 3.0, 4.0]; w = [10.0, 20.0, 30.0, 40.0]; s = 7.0
        try:
            got = eval({{call}})
        except Exception as e:
            got = 'raised %s: %s' % (type(e).__name__, e)
        want = eval({{expect}})
        print(src, '->', got, '; expected', want)
        if got != want: print('REPLAY-CONFIRMED')
        """, src=src, call=call, expect=expect_expr)


def _masks(letters, n, repeat):
    for k in (1, 2, 3, 4):
        it = itertools.product(letters[:n], repeat=k) if repeat else itertools.permutations(letters[:n], k)
        for tup in it:
            yield "".join(tup)


def _mk_swizzle_read(n, letters):
    @family(f"C04.swizzle.read.{n}{letters[0]}", props=["C04", "C05"],
            functions=["nsl.passes.LowerToIR::LowerToIRVisitor.v_MemberAccessExpression", "nsl.passes.ComputeTypes::ComputeSwizzleType", "nsl.VM::ExecutionContext.__Execute"],
            assumptions=[f"all masks of length 1-4 over the first {n} letters of {letters} (any order, repetition) enumerated completely; component values symbolic"])
    def fam(R, n=n, letters=letters):
        for mask in _masks(letters, n, True):
            k = len(mask)
            src = f"export function f({vt(n)} v) -> {vt(k)} {{ return v.{mask}; }}"
            r, exc = program(src)
            oid = f"C04.swizzle.read[float{n}.{mask}]"
            fn = "nsl.passes.LowerToIR::LowerToIRVisitor.v_MemberAccessExpression"
            idx = [IDX[c] for c in mask]
            rp = concrete_replay(src, f"vm.Invoke('f', v=v[:{n}])", f"[v[i] for i in {idx}]" if k > 1 else f"v[{idx[0]}]")
            if r is None:
                R.check(oid, fn, False, detail=f"rejected: {exc!r}", replay=rp)
                continue

            def run(ctx, r=r, idx=idx, k=k, n=n):
                v = symvec(ctx, "v", n)
                got, _ = invoke(r, "f", v=v)
                want = [v[i] for i in idx] if k > 1 else v[idx[0]]
                return [("value", z3.BoolVal(same_obj(got, want)), f"returned {'a list of ' + str(len(got)) if isinstance(got, list) else 'a scalar'}"),
                        ("source-intact", z3.BoolVal(len(v) == n))]

            verify(R, "C04.swizzle.read", fn, run, lambda m, c, rp=rp: rp, label=f"float{n}.{mask}")
    fam.__doc__ = f"Swizzle reads on float{n} with every mask over {letters[:n]}: component i of the result is the named component; a one-letter mask yields a scalar."
    return fam


for _n in (2, 3, 4):
    for _l in ("xyzw", "rgba"):
        _mk_swizzle_read(_n, _l)


def _mk_swizzle_write(n):
    @family(f"C04.swizzle.write.{n}", props=["C04", "C05"],
            functions=["nsl.passes.LowerToIR::LowerToIRVisitor.v_MemberAccessExpression", "nsl.VM::ExecutionContext.__Execute"],
            assumptions=[f"all non-repeating masks over xyzw/rgba of float{n} enumerated completely, on a parameter, a local copy and a global; component values symbolic"])
    def fam(R, n=n):
        fn = "nsl.passes.LowerToIR::LowerToIRVisitor.v_MemberAccessExpression"
        for letters in ("xyzw", "rgba"):
            for mask in _masks(letters, n, False):
                k = len(mask)
                idx = [IDX[c] for c in mask]
                exp = f"[(w[{idx}.index(j)] if j in {idx} else v[j]) for j in range({n})]" if k > 1 else f"[(s if j == {idx[0]} else v[j]) for j in range({n})]"
                variants = {
                    "param": (f"export function f({vt(n)} v, {vt(k)} w) -> {vt(n)} {{ v.{mask} = w; return v; }}", None),
                    "local": (f"export function f({vt(n)} v, {vt(k)} w) -> {vt(n)} {{ {vt(n)} t = v; t.{mask} = w; return t; }}", None),
                    "source-of-copy": (f"export function f({vt(n)} v, {vt(k)} w) -> {vt(n)} {{ {vt(n)} t = v; t.{mask} = w; return v; }}", "unchanged"),
                    "global": (f"{vt(n)} g;\nexport function f({vt(k)} w) -> {vt(n)} {{ g.{mask} = w; return g; }}", "global"),
                }
                if letters == "rgba" or k > 2:
                    variants = {"param": variants["param"]}
                for vname, (src, mode) in variants.items():
                    r, exc = program(src)
                    label = f"float{n}.{mask},{vname}"
                    call = f"vm.Invoke('f', v=v[:{n}], w=(w[:{k}] if {k} > 1 else s))"
                    rp = concrete_replay(src, call, exp if mode != "unchanged" else f"v[:{n}]") if mode != "global" else None
                    if r is None:
                        R.check(f"C04.swizzle.write[{label}]", fn, False, detail=f"rejected: {exc!r}", replay=rp)
                        continue

                    def run(ctx, r=r, idx=idx, k=k, n=n, mode=mode):
                        v = symvec(ctx, "v", n)
                        w = symvec(ctx, "w", k) if k > 1 else ctx.real("w")
                        orig = list(v)
                        if mode == "global":
                            got, vm = invoke(r, "f", setglobals={"g": v}, w=w)
                            after = vm.GetGlobal("g")
                        else:
                            got, vm = invoke(r, "f", v=v, w=w)
                            after = None
                        wl = w if isinstance(w, list) else [w]
                        want = [wl[idx.index(j)] if j in idx else orig[j] for j in range(n)]
                        if mode == "unchanged":
                            want = orig
                        goals = [("value", z3.BoolVal(same_obj(got, want)), f"returned {got!r}" if not isinstance(got, list) else "")]
                        if mode == "global":
                            goals.append(("global-updated", z3.BoolVal(same_obj(after, want))))
                        return goals

                    verify(R, "C04.swizzle.write", fn, run, (lambda m, c, rp=rp: rp) if rp else None, label=label)
    fam.__doc__ = f"Swizzle writes on float{n}: exactly the named components of exactly the named variable change; a copy is independent of its source."
    return fam


for _n in (2, 3, 4):
    _mk_swizzle_write(_n)


@family("C04.index", props=["C04", "C05"], functions=["nsl.passes.LowerToIR::LowerToIRVisitor.v_ArrayExpression", "nsl.VM::ExecutionContext.__Execute"],
        assumptions=["vector sizes 2-4, float3x3 and float4x4, dynamic indices symbolic in range; on parameters, locals and globals"])
def c04_index(R):
    """v[i], m[i], m[i][j] read the selected element/row; v[i] = e, m[i] = r, m[i][j] = e change exactly that element of exactly the named variable."""
    fn = "nsl.passes.LowerToIR::LowerToIRVisitor.v_ArrayExpression"

    def ite_list(i, n, f):
        """value selected by symbolic index i among f(0..n-1) as z3 term"""
        t = term(f(n - 1))
        for j in reversed(range(n - 1)):
            t = z3.If(i.t == j, term(f(j)), t)
        return t

    for n in (2, 3, 4):
        src = f"export function f(float{n} v, int i) -> float {{ return v[i]; }}"
        r, exc = program(src)

        def run(ctx, r=r, n=n):
            v = symvec(ctx, "v", n)
            i = ctx.int("i")
            ctx.assume(i >= 0)
            ctx.assume(i < n)
            got, _ = invoke(r, "f", v=v, i=i)
            return [("value", vm_c.teq(got, ite_list(i, n, lambda j: v[j])))]

        if r is None:
            R.check(f"C04.index.read[float{n}]", fn, False, detail=f"rejected {exc!r}")
        else:
            verify(R, "C04.index.read", fn, run, label=f"float{n}")
        for where, src in (("param", f"export function f(float{n} v, int i, float s) -> float{n} {{ v[i] = s; return v; }}"),
                           ("local", f"export function f(float{n} v, int i, float s) -> float{n} {{ float{n} t = v; t[i] = s; return t; }}"),
                           ("source-of-copy", f"export function f(float{n} v, int i, float s) -> float{n} {{ float{n} t = v; t[i] = s; return v; }}")):
            r, exc = program(src)

            def runw(ctx, r=r, n=n, where=where):
                v = symvec(ctx, "v", n)
                orig = list(v)
                i, s = ctx.int("i"), ctx.real("s")
                ctx.assume(i >= 0)
                ctx.assume(i < n)
                got, _ = invoke(r, "f", v=v, i=i, s=s)
                if not (isinstance(got, list) and len(got) == n):
                    return [("value", z3.BoolVal(False), f"returned {got!r}")]
                if where == "source-of-copy":
                    return [("value", z3.BoolVal(same_obj(got, orig)))]
                return [("value", z3.And(*[z3.If(i.t == j, vm_c.teq(got[j], s), vm_c.teq(got[j], orig[j])) for j in range(n)]))]

            if r is None:
                R.check(f"C04.index.write[float{n},{where}]", fn, False, detail=f"rejected {exc!r}")
            else:
                verify(R, "C04.index.write", fn, runw, label=f"float{n},{where}")
    for n in (3, 4):
        mt = f"float{n}x{n}"
        progs = {
            "row-read": f"export function f({mt} m, int i) -> float{n} {{ return m[i]; }}",
            "elem-read": f"export function f({mt} m, int i, int j) -> float {{ return m[i][j]; }}",
            "row-write": f"export function f({mt} m, int i, float{n} r) -> {mt} {{ m[i] = r; return m; }}",
            "elem-write": f"export function f({mt} m, int i, int j, float s) -> {mt} {{ m[i][j] = s; return m; }}",
            "elem-write-local": f"export function f({mt} m, int i, int j, float s) -> {mt} {{ {mt} t = m; t[i][j] = s; return t; }}",
            "elem-write-source": f"export function f({mt} m, int i, int j, float s) -> {mt} {{ {mt} t = m; t[i][j] = s; return m; }}",
        }
        for what, src in progs.items():
            r, exc = program(src)
            if r is None:
                R.check(f"C04.index.matrix[{mt},{what}]", fn, False, detail=f"rejected {exc!r}")
                continue

            def runm(ctx, r=r, n=n, what=what):
                m = symmat(ctx, "m", n)
                orig = [list(row) for row in m]
                i, j = ctx.int("i"), ctx.int("j")
                for x in (i, j):
                    ctx.assume(x >= 0)
                    ctx.assume(x < n)
                s = ctx.real("s")
                rr = symvec(ctx, "r", n)
                kw = dict(m=m, i=i)
                if "elem" in what:
                    kw["j"] = j
                if what.startswith("elem-write"):
                    kw["s"] = s
                if what == "row-write":
                    kw["r"] = rr
                got, _ = invoke(r, "f", **kw)
                if what == "row-read":
                    ok = isinstance(got, list) and len(got) == n
                    return [("value", z3.And(*[vm_c.teq(got[c], ite_list(i, n, lambda a, c=c: orig[a][c])) for c in range(n)]) if ok else z3.BoolVal(False))]
                if what == "elem-read":
                    sel = None
                    t = None
                    for a in reversed(range(n)):
                        for b in reversed(range(n)):
                            t = term(orig[a][b]) if t is None else z3.If(z3.And(i.t == a, j.t == b), term(orig[a][b]), t)
                    return [("value", vm_c.teq(got, t))]
                ok = isinstance(got, list) and len(got) == n and all(isinstance(x, list) and len(x) == n for x in got)
                if not ok:
                    return [("value", z3.BoolVal(False), f"returned {got!r}")]
                if what == "elem-write-source":
                    return [("value", z3.BoolVal(all(same_obj(got[a], orig[a]) for a in range(n)))), ("argument-intact", z3.BoolVal(all(same_obj(m[a], orig[a]) for a in range(n))))]
                conj = []
                for a in range(n):
                    for b in range(n):
                        if what == "row-write":
                            conj.append(z3.If(i.t == a, vm_c.teq(got[a][b], rr[b]), vm_c.teq(got[a][b], orig[a][b])))
                        else:
                            conj.append(z3.If(z3.And(i.t == a, j.t == b), vm_c.teq(got[a][b], s), vm_c.teq(got[a][b], orig[a][b])))
                return [("value", z3.And(*conj)), ("argument-intact", z3.BoolVal(all(same_obj(m[a], orig[a]) for a in range(n))))]

            verify(R, "C04.index.matrix", fn, runm, label=f"{mt},{what}", max_paths=400)


VOPS = {"+": "ADD", "-": "SUB", ">": "CMP_GT", "<": "CMP_LT", "<=": "CMP_LE", ">=": "CMP_GE", "!=": "CMP_NE", "==": "CMP_EQ"}


@family("C04.arith", props=["C04", "C05"],
        functions=["nsl.passes.LowerToIR::LowerToIRVisitor.v_BinaryExpression", "nsl.LinearIR::BinaryInstruction.FromOperation", "nsl.VM::ExecutionContext.__Execute", "nsl.VM::ExecutionContext.__MatrixMatrixMultiply"],
        assumptions=["operand types enumerated over the spellable float/int vectors and float matrices; component values symbolic (floats as reals)",
                     "the `,ieee` obligations repeat element-wise +, -, and (vector | matrix) (* | /) scalar with float arithmetic UNINTERPRETED (pyvc.sym.FloatUF): every result component is exactly the one operator applied to the corresponding operand components, so a reciprocal-multiply or a re-association does not verify; matrix products keep the real-number model (their summation order is not prescribed)"])
def c04_arith(R):
    """Element-wise + and -, comparisons giving 0/1 per component, vector or matrix times / divided by scalar, matrix + and - matrix, and the
    matrix product evaluate component-wise as written, for all component values."""
    fn = "nsl.passes.LowerToIR::LowerToIRVisitor.v_BinaryExpression"
    for n in (2, 3, 4):
        for kind, k in (("float", "f"), ("int", "i")):
            for sp, opn in VOPS.items():
                rt = f"int{n}" if opn.startswith("CMP") else f"{kind}{n}"
                src = f"export function f({kind}{n} a, {kind}{n} b) -> {rt} {{ return (a {sp} b); }}"
                r, exc = program(src)
                if r is None:
                    R.check(f"C04.arith[{kind}{n} {sp} {kind}{n}]", fn, False, detail=f"rejected {exc!r}")
                    continue

                def run(ctx, r=r, n=n, k=k, opn=opn):
                    a, b = symvec(ctx, "a", n, k), symvec(ctx, "b", n, k)
                    got, _ = invoke(r, "f", a=a, b=b)
                    want = [irsem.binary(opn, x.t, y.t, k == "i") for x, y in zip(a, b)]
                    return [("value", vm_c.veq(got, want))]

                verify(R, "C04.arith", fn, run, label=f"{kind}{n} {sp} {kind}{n}")
                if kind == "float" and sp in "+-":
                    verify(R, "C04.arith", fn, vm_c.ieee(run), label=f"{kind}{n} {sp} {kind}{n},ieee")
        # an int vector divided by an int scalar / vector divides like ints do: truncation toward zero, per component
        for src, kwf, wantf, lab in (
                (f"export function f(int{n} a, int s) -> int{n} {{ return (a / s); }}", lambda ctx: dict(a=symvec(ctx, "a", n, "i"), s=ctx.int("s")),
                 lambda v: [irsem.binary("DIV", x.t, v["s"].t, True) for x in v["a"]], f"int{n} / int"),
                (f"export function f(int{n} a, int{n} b) -> int{n} {{ return (a / b); }}", lambda ctx: dict(a=symvec(ctx, "a", n, "i"), b=symvec(ctx, "b", n, "i")),
                 lambda v: [irsem.binary("DIV", x.t, y.t, True) for x, y in zip(v["a"], v["b"])], f"int{n} / int{n}")):
            r, exc = program(src)
            if r is None:
                R.ok(f"C04.arith[{lab}]", fn, detail=f"rejected ({type(exc).__name__})")
                continue

            def run_idiv(ctx, r=r, kwf=kwf, wantf=wantf):
                v = kwf(ctx)
                for d in ([v["s"]] if "s" in v else v["b"]):
                    ctx.assume(d != 0)
                for x in v["a"] + ([v["s"]] if "s" in v else v["b"]):
                    ctx.assume(irsem.in_i32(x.t))
                import copy
                got, _ = invoke(r, "f", **copy.deepcopy(v))
                return [("value", vm_c.veq(got, wantf(v)))]

            verify(R, "C04.arith", fn, run_idiv, lambda m, c, src=src, n=n: script("""
                import io, contextlib
                from nsl import Compiler, LinearIR, VM
                src, n = {{src}}, {{n}}
                with contextlib.redirect_stdout(io.StringIO()):
                    r = Compiler.Compiler().Compile(src)
                l = LinearIR.Linker(); l.AddModule(r.IRModule)
                a = [1, -7, 3, 7][:n]
                kw = dict(a=a, s=2) if 'int s' in src else dict(a=a, b=[2, 2, -2, 4][:n])
                got = VM.VirtualMachine(l.Link()).Invoke('f', **kw)
                def tdiv(x, y):
                    q = abs(x) // abs(y); return -q if (x < 0) != (y < 0) else q
                want = [tdiv(x, kw['s']) for x in a] if 's' in kw else [tdiv(x, y) for x, y in zip(a, kw['b'])]
                print(src, kw, '->', got, '; integer division truncates toward zero:', want)
                if got != want: print('REPLAY-CONFIRMED')
                """, src=src, n=n), label=lab)
        # operands of different component types: the int vector is converted, then the operator is applied component-wise -- in both orders
        for sp, opn in (("+", "ADD"), ("-", "SUB"), ("<", "CMP_LT"), (">=", "CMP_GE")):
            for order in ("int-float", "float-int"):
                lt, rt_ = (f"int{n}", f"float{n}") if order == "int-float" else (f"float{n}", f"int{n}")
                res = f"int{n}" if opn.startswith("CMP") else f"float{n}"
                src = f"export function f({lt} a, {rt_} b) -> {res} {{ return (a {sp} b); }}"
                r, exc = program(src)
                if r is None:
                    R.check(f"C04.arith[{lt} {sp} {rt_}]", fn, False, detail=f"rejected {exc!r}")
                    continue

                def run_mixed(ctx, r=r, n=n, opn=opn, order=order):
                    a = symvec(ctx, "a", n, "i" if order == "int-float" else "f")
                    b = symvec(ctx, "b", n, "f" if order == "int-float" else "i")
                    got, _ = invoke(r, "f", a=a, b=b)
                    want = [irsem.binary(opn, x.t, y.t, False) for x, y in zip(a, b)]
                    return [("value", vm_c.veq(got, want))]

                verify(R, "C04.arith", fn, run_mixed, lambda m, c, src=src, n=n: script("""
                    import io, contextlib
                    from nsl import Compiler, LinearIR, VM
                    src, n = {{src}}, {{n}}
                    with contextlib.redirect_stdout(io.StringIO()):
                        r = Compiler.Compiler().Compile(src)
                    l = LinearIR.Linker(); l.AddModule(r.IRModule)
                    iv, fv = [1, 2, 3, 4][:n], [0.5, 1.25, 2.75, 4.0][:n]
                    a, b = (iv, fv) if src.split('(')[1].startswith('int') else (fv, iv)
                    got = VM.VirtualMachine(l.Link()).Invoke('f', a=a, b=b)
                    import operator
                    o = {'+': operator.add, '-': operator.sub, '<': lambda x, y: int(x < y), '>=': lambda x, y: int(x >= y)}[src.split('(a ')[1].split(' b)')[0]]
                    want = [o(x, y) for x, y in zip(a, b)]
                    print(src, a, b, '->', got, 'expected', want)
                    if got != want: print('REPLAY-CONFIRMED')
                    """, src=src, n=n), label=f"{lt} {sp} {rt_}")
        for sp, opn in (("*", "MUL"), ("/", "DIV")):
            src = f"export function f(float{n} a, float s) -> float{n} {{ return (a {sp} s); }}"
            r, exc = program(src)

            def run(ctx, r=r, n=n, opn=opn):
                a, s = symvec(ctx, "a", n), ctx.real("s")
                if opn == "DIV":
                    ctx.assume(s != 0)
                got, _ = invoke(r, "f", a=a, s=s)
                return [("value", vm_c.veq(got, [irsem.binary(opn, x.t, s.t, False) for x in a]))]

            if r is None:
                R.check(f"C04.arith[float{n} {sp} float]", fn, False, detail=f"rejected {exc!r}")
            else:
                verify(R, "C04.arith", fn, run, label=f"float{n} {sp} float")
                verify(R, "C04.arith", fn, vm_c.ieee(run), label=f"float{n} {sp} float,ieee")
        src = f"export function f(float s, float{n} a) -> float{n} {{ return (s * a); }}"
        r, exc = program(src)

        def run_sv(ctx, r=r, n=n):
            a, s = symvec(ctx, "a", n), ctx.real("s")
            got, _ = invoke(r, "f", a=a, s=s)
            return [("value", vm_c.veq(got, [irsem.binary("MUL", s.t, x.t, False) for x in a]))]

        rp = script("""
            import io, contextlib
            from nsl import Compiler, LinearIR, VM
            src = {{src}}
            with contextlib.redirect_stdout(io.StringIO()):
                r = Compiler.Compiler().Compile(src)
            l = LinearIR.Linker(); l.AddModule(r.IRModule)
            a = [1.0, 2.0, 3.0, 4.0][:{{n}}]
            try:
                got = VM.VirtualMachine(l.Link()).Invoke('f', s=2.0, a=a)
            except Exception as e:
                got = 'raised %s: %s' % (type(e).__name__, e)
            print(src, '->', got)
            if got != [2.0 * x for x in a]: print('REPLAY-CONFIRMED')
            """, src=src, n=n)
        if r is None:
            R.check(f"C04.arith[float * float{n}]", fn, False, detail=f"rejected {exc!r}", replay=rp)
        else:
            verify(R, "C04.arith", fn, run_sv, lambda m, c, rp=rp: rp, label=f"float * float{n}")
            verify(R, "C04.arith", fn, vm_c.ieee(run_sv), lambda m, c, rp=rp: rp, label=f"float * float{n},ieee")
    for n in (3, 4):
        mt = f"float{n}x{n}"
        for sp in ("+", "-"):
            src = f"export function f({mt} a, {mt} b) -> {mt} {{ return (a {sp} b); }}"
            r, exc = program(src)

            def run(ctx, r=r, n=n, sp=sp):
                a, b = symmat(ctx, "a", n), symmat(ctx, "b", n)
                got, _ = invoke(r, "f", a=a, b=b)
                want = [[irsem.binary("ADD" if sp == "+" else "SUB", x.t, y.t, False) for x, y in zip(ra, rb)] for ra, rb in zip(a, b)]
                return [("value", vm_c.veq(got, want))]

            if r is None:
                R.check(f"C04.arith[{mt} {sp} {mt}]", fn, False, detail=f"rejected {exc!r}")
            else:
                verify(R, "C04.arith", fn, run, label=f"{mt} {sp} {mt}")
                verify(R, "C04.arith", fn, vm_c.ieee(run), label=f"{mt} {sp} {mt},ieee")
        for sp in ("*", "/"):
            src = f"export function f({mt} a, float s) -> {mt} {{ return (a {sp} s); }}"
            r, exc = program(src)

            def run(ctx, r=r, n=n, sp=sp):
                a, s = symmat(ctx, "a", n), ctx.real("s")
                if sp == "/":
                    ctx.assume(s != 0)
                got, _ = invoke(r, "f", a=a, s=s)
                want = [[irsem.binary("MUL" if sp == "*" else "DIV", x.t, s.t, False) for x in ra] for ra in a]
                return [("value", vm_c.veq(got, want))]

            if r is None:
                R.check(f"C04.arith[{mt} {sp} float]", fn, False, detail=f"rejected {exc!r}")
            else:
                verify(R, "C04.arith", fn, run, label=f"{mt} {sp} float")
                verify(R, "C04.arith", fn, vm_c.ieee(run), lambda m, c, src=src, n=n, sp=sp: script("""
                    import io, contextlib
                    from nsl import Compiler, LinearIR, VM
                    src, n = {{src}}, {{n}}
                    with contextlib.redirect_stdout(io.StringIO()):
                        r = Compiler.Compiler().Compile(src)
                    l = LinearIR.Linker(); l.AddModule(r.IRModule)
                    bad = None
                    for s in (3.0, 7.0, 10.0, 0.1, 49.0):
                        a = [[float(5 + i * n + j) for j in range(n)] for i in range(n)]
                        got = VM.VirtualMachine(l.Link()).Invoke('f', a=a, s=s)
                        want = [[(x * s) if {{sp}} == '*' else (x / s) for x in row] for row in a]
                        if got != want and bad is None: bad = (s, got[0], want[0])
                    print(src, 'first deviating scalar / row / IEEE result of the one operator:', bad)
                    if bad: print('REPLAY-CONFIRMED')
                    """, src=src, n=n, sp=sp), label=f"{mt} {sp} float,ieee")
        src = f"export function f({mt} a, {mt} b) -> {mt} {{ return (a * b); }}"
        r, exc = program(src)

        def run_mm(ctx, r=r, n=n):
            a, b = symmat(ctx, "a", n), symmat(ctx, "b", n)
            got, _ = invoke(r, "f", a=a, b=b)
            want = irsem.matmul([[x.t for x in row] for row in a], [[x.t for x in row] for row in b])
            ok = isinstance(got, list) and len(got) == n and all(isinstance(x, list) and len(x) == n for x in got)
            if not ok:
                return [("value", z3.BoolVal(False))]
            return [("entry", vm_c.teq(got[i][j], want[i][j]), f"[{i}][{j}]") for i in range(n) for j in range(n)]

        if r is None:
            R.check(f"C04.arith[{mt} * {mt}]", fn, False, detail=f"rejected {exc!r}")
        else:
            verify(R, "C04.arith", fn, run_mm, label=f"{mt} * {mt}")
        # matrix * vector
        src = f"export function f({mt} a, float{n} v) -> float{n} {{ return (a * v); }}"
        r, exc = program(src)

        def run_mv(ctx, r=r, n=n):
            a, v = symmat(ctx, "a", n), symvec(ctx, "v", n)
            got, _ = invoke(r, "f", a=a, v=v)
            want = [sum((a[i][k].t * v[k].t for k in range(n)), z3.RealVal(0)) for i in range(n)]
            return [("value", vm_c.veq(got, want), f"returned {'a list of ' + str(len(got)) if isinstance(got, list) else got!r}")]

        rp = script("""
            import io, contextlib
            from nsl import Compiler, LinearIR, VM
            src = {{src}}
            n = {{n}}
            with contextlib.redirect_stdout(io.StringIO()):
                r = Compiler.Compiler().Compile(src)
            l = LinearIR.Linker(); l.AddModule(r.IRModule)
            a = [[float(i * n + j + 1) for j in range(n)] for i in range(n)]; v = [1.0, 2.0, 3.0, 4.0][:n]
            try:
                got = VM.VirtualMachine(l.Link()).Invoke('f', a=a, v=v)
            except Exception as e:
                got = 'raised %s: %s' % (type(e).__name__, e)
            want = [sum(a[i][k] * v[k] for k in range(n)) for i in range(n)]
            print(src, '->', got, '; expected', want)
            if got != want: print('REPLAY-CONFIRMED')
            """, src=src, n=n)
        if r is None:
            R.check(f"C04.arith[{mt} * float{n}]", fn, False, detail=f"rejected {exc!r}", replay=rp)
        else:
            verify(R, "C04.arith", fn, run_mv, lambda m, c, rp=rp: rp, label=f"{mt} * float{n}")


@family("C04.construct", props=["C04", "C05"], functions=["nsl.passes.LowerToIR::LowerToIRVisitor.v_ConstructPrimitiveExpression", "nsl.VM::ExecutionContext.__Execute"],
        assumptions=["constructor forms enumerated: every split of 2-4 components into scalars and smaller vectors; matrices from rows; component values symbolic"])
def c04_construct(R):
    """Construction from scalars and smaller vectors concatenates the arguments in order; matrices are built from their rows; the result is independent of the arguments."""
    fn = "nsl.passes.LowerToIR::LowerToIRVisitor.v_ConstructPrimitiveExpression"

    def splits(n):
        if n == 0:
            yield []
            return
        for first in (1, 2, 3):
            if first <= n and first < 4:
                for rest in splits(n - first):
                    yield [first] + rest

    for n in (2, 3, 4):
        for parts in splits(n):
            if parts == [n]:
                continue
            params = ", ".join(f"{vt(k)} a{i}" for i, k in enumerate(parts))
            args = ", ".join(f"a{i}" for i in range(len(parts)))
            src = f"export function f({params}) -> float{n} {{ return float{n}({args}); }}"
            r, exc = program(src)
            label = f"float{n}({','.join(vt(k) for k in parts)})"
            if r is None:
                R.check(f"C04.construct[{label}]", fn, False, detail=f"rejected {exc!r}")
                continue

            def run(ctx, r=r, parts=parts):
                vals = {}
                flat = []
                for i, k in enumerate(parts):
                    if k == 1:
                        x = ctx.real(f"a{i}")
                        vals[f"a{i}"] = x
                        flat.append(x)
                    else:
                        x = symvec(ctx, f"a{i}_", k)
                        vals[f"a{i}"] = x
                        flat += x
                got, _ = invoke(r, "f", **vals)
                return [("value", z3.BoolVal(same_obj(got, flat))), ("fresh", z3.BoolVal(all(got is not v for v in vals.values())))]

            verify(R, "C04.construct", fn, run, label=label)
    # argument lists that do NOT provide exactly the components of the constructed type: rejected, or (if the language gives them a meaning)
    # at least a value with the right number of components -- never a `floatN` with another number of components, never a run-time failure
    fnt = "nsl.passes.ComputeTypes::ComputeTypeVisitor._ProcessExpression"
    for n in (1, 2, 3, 4):
        for ln in (1, 2, 3, 4):
            for parts in itertools.product((1, 2, 3, 4), repeat=ln):
                tot = sum(parts)
                if tot == n or tot > 6 or (n > 1 and list(parts) == [n]):
                    continue
                params = ", ".join(f"{vt(k)} a{i}" for i, k in enumerate(parts))
                args = ", ".join(f"a{i}" for i in range(len(parts)))
                src = f"export function f({params}) -> {vt(n)} {{ return {vt(n)}({args}); }}"
                label = f"{vt(n)}({','.join(vt(k) for k in parts)})"
                r, exc = program(src)
                if r is None:
                    R.ok(f"C04.construct.arity[{label}]", fnt, detail="rejected")
                    continue
                vals = {f"a{i}": (1.5 + i if k == 1 else [float(10 * i + j) for j in range(k)]) for i, k in enumerate(parts)}
                try:
                    got, _ = invoke(r, "f", **vals)
                    ok = (isinstance(got, list) and len(got) == n) if n > 1 else not isinstance(got, list)
                    det = f"accepted; the VM returns {got!r} for a `{vt(n)}`"
                except Exception as e:
                    ok, det = False, f"accepted; the VM raises {type(e).__name__}: {e}"
                R.check(f"C04.construct.arity[{label}]", fnt, ok, detail=f"{src}\n{det}", replay=script("""
                    import io, contextlib
                    from nsl import Compiler, LinearIR, VM
                    src, vals, n = {{src}}, {{vals}}, {{n}}
                    try:
                        with contextlib.redirect_stdout(io.StringIO()):
                            r = Compiler.Compiler().Compile(src)
                    except BaseException as e:
                        r = None; print('rejected', type(e).__name__, e)
                    if r is not None:
                        l = LinearIR.Linker(); l.AddModule(r.IRModule)
                        try:
                            got = VM.VirtualMachine(l.Link()).Invoke('f', **vals)
                        except BaseException as e:
                            got = e; print('VM raised', type(e).__name__, e)
                        print(src, '->', got)
                        if isinstance(got, BaseException) or (len(got) != n if isinstance(got, list) else n != 1): print('REPLAY-CONFIRMED')
                    """, src=src, vals=vals, n=n))
    for n in (3, 4):
        mt = f"float{n}x{n}"
        forms = [[n] * k for k in range(1, 6) if k != n] + [[1] * (n * n), [n - 1] * n, [n] * (n - 1) + [1], [1] + [n] * (n - 1)]
        for parts in forms:
            params = ", ".join(f"{vt(k)} a{i}" for i, k in enumerate(parts))
            args = ", ".join(f"a{i}" for i in range(len(parts)))
            src = f"export function f({params}) -> {mt} {{ return {mt}({args}); }}"
            label = f"{mt}({','.join(vt(k) for k in parts)})"
            r, exc = program(src)
            if r is None:
                R.ok(f"C04.construct.arity[{label}]", fnt, detail="rejected")
                continue
            vals = {f"a{i}": (1.5 + i if k == 1 else [float(10 * i + j) for j in range(k)]) for i, k in enumerate(parts)}
            try:
                got, _ = invoke(r, "f", **vals)
                ok = isinstance(got, list) and len(got) == n and all(isinstance(x, list) and len(x) == n for x in got)
                det = f"accepted; the VM returns {got!r} for a `{mt}`"
            except Exception as e:
                ok, det = False, f"accepted; the VM raises {type(e).__name__}: {e}"
            R.check(f"C04.construct.arity[{label}]", fnt, ok, detail=f"{src}\n{det}")
    # scalar constructors are the explicit conversion syntax: T(x) with one scalar argument yields x converted to T
    for tk, tn in (("f", "float"), ("i", "int"), ("u", "uint")):
        for ak, an in (("f", "float"), ("i", "int"), ("u", "uint")):
            src = f"export function f({an} a) -> {tn} {{ return {tn}(a); }}"
            label = f"{tn}({an})"
            r, exc = program(src)
            if r is None:
                R.check(f"C04.construct.scalar[{label}]", fn, False, detail=f"rejected {exc!r}: {src}")
                continue

            def runs(ctx, r=r, tk=tk, ak=ak):
                a = ctx.real("a") if ak == "f" else ctx.int("a")
                if ak != "f":
                    ctx.assume(irsem.in_i32(a.t))
                if ak == "u" or tk == "u":
                    ctx.assume(a >= 0)
                got, _ = invoke(r, "f", a=a)
                goals = [("scalar", z3.BoolVal(not isinstance(got, (list, dict)) and got is not None))]
                if ak != "f" and got is not None and not isinstance(got, (list, dict)):
                    goals.append(("value", vm_c.teq(got, a), "an integer converts to the same number"))
                return goals

            verify(R, "C04.construct.scalar", fn, runs, lambda m, c, src=src, ak=ak: script("""
                import io, contextlib
                from nsl import Compiler, LinearIR, VM
                src = {{src}}
                with contextlib.redirect_stdout(io.StringIO()):
                    r = Compiler.Compiler().Compile(src)
                l = LinearIR.Linker(); l.AddModule(r.IRModule)
                a = {{a}}
                try:
                    got = VM.VirtualMachine(l.Link()).Invoke('f', a=a); print(src, 'f(%r) =' % a, got)
                    if got != a and {{exact}}: print('REPLAY-CONFIRMED')
                except BaseException as e:
                    print(src, 'VM raised', type(e).__name__, e); print('REPLAY-CONFIRMED')
                """, src=src, a=(float(m.get("a", 2.5)) if ak == "f" else int(m.get("a", 3))), exact=ak != "f"), label=label)
    # arguments of another component type are converted (accepted programs must not go wrong: C05)
    for label, src, build, want in (
            ("float4(int2,int,float)", "export function f(int2 a, int b, float c) -> float4 { return float4(a, b, c); }",
             lambda ctx: dict(a=symvec(ctx, "a", 2, "i"), b=ctx.int("b"), c=ctx.real("c")), lambda v: [v["a"][0], v["a"][1], v["b"], v["c"]]),
            ("float2(int,uint)", "export function f(int a, uint b) -> float2 { return float2(a, b); }",
             lambda ctx: dict(a=ctx.int("a"), b=ctx.int("b")), lambda v: [v["a"], v["b"]]),
            ("call float2<-int2", "function h(float2 v) -> float { return v.y; }\nexport function f(int2 a) -> float { return h(a); }",
             lambda ctx: dict(a=symvec(ctx, "a", 2, "i")), lambda v: v["a"][1]),
            ("nested call int<-float", "function g(int x) -> int { return x; }\nfunction h(int x) -> int { return (x * 2); }\nexport function f(int a) -> int { return h(g(a)); }",
             lambda ctx: dict(a=ctx.int("a")), lambda v: v["a"] * 2)):
        r, exc = program(src)
        if r is None:
            R.check(f"C04.construct[{label}]", fn, False, detail=f"rejected {exc!r}")
            continue

        def runc(ctx, r=r, build=build, want=want):
            vals = build(ctx)
            got, _ = invoke(r, "f", **vals)
            w = want(vals)
            return [("value", vm_c.veq(got, [term(x) for x in w]) if isinstance(w, list) else vm_c.teq(got, term(w)))]

        verify(R, "C04.construct", fn, runc, label=label)
    for n in (3, 4):
        mt = f"float{n}x{n}"
        params = ", ".join(f"float{n} r{i}" for i in range(n))
        src = f"export function f({params}) -> {mt} {{ return {mt}({', '.join(f'r{i}' for i in range(n))}); }}"
        r, exc = program(src)
        if r is None:
            R.check(f"C04.construct[{mt}]", fn, False, detail=f"rejected {exc!r}")
            continue

        def runm(ctx, r=r, n=n):
            rows = [symvec(ctx, f"r{i}_", n) for i in range(n)]
            got, _ = invoke(r, "f", **{f"r{i}": rows[i] for i in range(n)})
            return [("value", z3.BoolVal(isinstance(got, list) and len(got) == n and all(same_obj(got[i], rows[i]) for i in range(n))))]

        verify(R, "C04.construct", fn, runm, label=mt)



@family("C04.affix", props=["C04", "C05"], functions=["nsl.passes.ComputeTypes::ComputeTypeVisitor._ProcessExpression", "nsl.passes.LowerToIR::LowerToIRVisitor.v_AffixExpression", "nsl.VM::ExecutionContext.__Execute"],
        assumptions=["vector and matrix types enumerated completely; both operators, prefix and postfix"])
def c04_affix(R):
    """`++` / `--` on a vector or matrix variable: rejected, or every component is incremented / decremented -- never a run-time failure of an
    accepted program."""
    fn = "nsl.passes.LowerToIR::LowerToIRVisitor.v_AffixExpression"
    for tname, mk in [(f"{k}{n}", (lambda ctx, k=k, n=n: symvec(ctx, "v", n, "f" if k == "float" else "i"))) for k in ("float", "int") for n in (2, 3, 4)] + \
                     [(f"float{n}x{n}", (lambda ctx, n=n: symmat(ctx, "v", n))) for n in (3, 4)]:
        for form, delta in (("++v", 1), ("v++", 1), ("--v", -1), ("v--", -1)):
            src = f"export function f({tname} v) -> {tname} {{ {form}; return v; }}"
            r, exc = program(src)
            label = f"{tname},{form}"
            if r is None:
                R.ok(f"C04.affix[{label}]", fn, detail="rejected")
                continue

            def run(ctx, r=r, mk=mk, delta=delta):
                v = mk(ctx)
                import copy
                got, _ = invoke(r, "f", v=copy.deepcopy(v))

                def want(x):
                    return [want(y) for y in x] if isinstance(x, list) else (x + delta)
                return [("value", vm_c.veq(got, want(v)) if not isinstance(v[0], list) else z3.And(*[vm_c.veq(g, w) for g, w in zip(got, want(v))]) if isinstance(got, list) and len(got) == len(v) else z3.BoolVal(False))]

            verify(R, "C04.affix", fn, run, lambda m, c, src=src: script("""
                import io, contextlib
                from nsl import Compiler, LinearIR, VM
                src = {{src}}
                with contextlib.redirect_stdout(io.StringIO()):
                    r = Compiler.Compiler().Compile(src)
                l = LinearIR.Linker(); l.AddModule(r.IRModule)
                n = int(src.split('(')[1].split()[0][-1])
                v = [[float(i + j) for j in range(n)] for i in range(n)] if 'x' in src.split('(')[1].split()[0] else [1.0, 2.0, 3.0, 4.0][:n]
                try:
                    print(src, '->', VM.VirtualMachine(l.Link()).Invoke('f', v=v))
                except BaseException as e:
                    print(src, 'is accepted, the VM raises', type(e).__name__, e); print('REPLAY-CONFIRMED')
                """, src=src), label=label)


@family("C04.swizzle.type", props=["C04", "C09", "C01"], functions=["nsl.passes.ComputeTypes::ComputeSwizzleType"],
        assumptions=["input types enumerated: float / int / uint scalars-as-components x 2, 3, 4 components; mask lengths 1-4; every ordered pair of requests in one process "
                     "(the type of a swizzle depends on its own operand only, not on what was asked before)"])
def c04_swizzle_type(R):
    """ComputeSwizzleType(T^n, mask): the component type of T^n for a one-letter mask, otherwise the vector of THAT component type with
    len(mask) components -- for every component type, whatever swizzle was typed before in this process (int swizzles after float ones)."""
    import itertools
    from nsl import types
    f = resolve("nsl.passes.ComputeTypes::ComputeSwizzleType")
    comps = {"float": types.Float, "int": types.Integer, "uint": types.UnsignedInteger}
    reqs = [(cn, n, k) for cn in comps for n in (2, 3, 4) for k in (1, 2, 3, 4)]

    def ask(cn, n, k):
        t = types.VectorType(comps[cn](), n)
        mask = "xyzw"[:n][:k] if k <= n else ("x" * k)
        return f(t, mask)

    def right(res, cn, k):
        if k == 1:
            return type(res) is comps[cn]
        return isinstance(res, types.VectorType) and type(res.GetComponentType()) is comps[cn] and res.GetComponentCount() == k

    bad = []
    for (a, b) in itertools.product(reqs, repeat=2):
        ra = ask(*a)
        rb = ask(*b)
        if not right(ra, a[0], a[2]) or not right(rb, b[0], b[2]):
            bad.append((a, b, str(ra), str(rb)))
    R.check("C04.swizzle.type", "nsl.passes.ComputeTypes::ComputeSwizzleType", not bad,
            detail=f"{len(bad)} of {len(reqs) ** 2} ordered request pairs (component type, vector size, mask length) give a wrong type; first: {bad[:3]}",
            replay=script("""
                import io, contextlib
                from nsl import Compiler, LinearIR, VM
                src = 'export function f(float4 a, int4 b) -> int2 { float2 t = a.xy; int2 r = (b.zw / 2); return r; }'
                with contextlib.redirect_stdout(io.StringIO()):
                    r = Compiler.Compiler().Compile(src)
                l = LinearIR.Linker(); l.AddModule(r.IRModule)
                got = VM.VirtualMachine(l.Link()).Invoke('f', a=[1.0, 2.0, 3.0, 4.0], b=[1, 2, -7, 7])
                print(src, '->', got, 'expected [-3, 3]')
                if got != [-3, 3] or not all(isinstance(x, int) for x in got): print('REPLAY-CONFIRMED')
                """))
    # end to end: swizzles of both component types in one program (and in two programs compiled one after the other)
    progs = [("export function f(float4 a, int4 b) -> int2 { float2 t = a.xy; int2 r = (b.zw / 2); return r; }", dict(a=[1.0, 2.0, 3.0, 4.0], b=[1, 2, -7, 7]), [-3, 3]),
             ("export function f(int4 b, float4 a) -> float2 { int2 t = b.xy; float2 r = (a.zw / 2); return r; }", dict(a=[1.0, 2.0, 3.0, 5.0], b=[1, 2, -7, 7]), [1.5, 2.5]),
             ("export function f(int3 b) -> int3 { return (b.zyx / 2); }", dict(b=[-7, 7, 5]), [2, 3, -3])]
    for order in (progs, list(reversed(progs))):
        for src, args, want in order:
            r, exc = tc.compile_quiet(src, None)
            label = src.split("{")[1].split(";")[0].strip()[:30] + ("" if order is progs else ",reversed-order")
            if r is None:
                R.check(f"C04.swizzle.type.e2e[{label}]", "nsl.passes.ComputeTypes::ComputeSwizzleType", False, detail=f"rejected: {exc!r}\n{src}")
                continue
            got = make_vm(r).Invoke("f", **args)
            R.check(f"C04.swizzle.type.e2e[{label}]", "nsl.passes.ComputeTypes::ComputeSwizzleType", got == want and all(type(g) is type(w) for g, w in zip(got, want)),
                    detail=f"{src}\nreturned {got!r}, expected {want!r}")
