"""Generated scalar-core programs (deeper exploration of C01 / C02 / C08 / C03 / C05).

A seeded generator writes well-typed programs of the scalar core in the tuple form
of refsem.py (every statement and operator form, helper functions, globals, arrays
with constant indices, nested loops with break / continue).  Each program is
compiled by the real compiler and run by the real VM on SYMBOLIC inputs against the
reference interpreter in the same path context -- exactly like the curated family
E2E.scalar, but the programs are not hand-picked: the generator explores the
interaction of constructs.  Each obligation holds for all inputs of its program; the
set of programs is what is sampled (seed: VERIF_SEED, default 0), so the family is
reported as such in its assumptions."""
from __future__ import annotations

import os
import random
import time

from pyvc.core import family
from pyvc.sym import PathLimit
from . import programs_c as pc
from . import refsem as rs

V, I, F, B = pc.V, pc.I, pc.F, pc.B

ARITH = ["+", "-", "*"]
PROGRAM_BUDGET_S = float(os.environ.get("VERIF_PROGRAM_BUDGET", "12"))     # wall-clock budget per generated program; over budget = skipped, never a verdict
CMP = ["<", ">", "<=", ">=", "==", "!="]


class Gen:
    def __init__(self, rnd):
        self.r = rnd
        self.n = 0

    def fresh(self, base):
        self.n += 1
        return f"{base}{self.n}"

    # expressions ------------------------------------------------------------
    def iexpr(self, env, depth):
        """int-typed expression over the int variables of env"""
        r = self.r
        ints = [n for n, t in env.items() if t == "int"]
        arrs = [n for n, t in env.items() if isinstance(t, tuple)]
        if depth <= 0 or r.random() < 0.25:
            c = r.random()
            if ints and c < 0.6:
                return V(r.choice(ints))
            if arrs and c < 0.75:
                a = r.choice(arrs)
                return ("idx", a, [I(r.randrange(env[a][2][0]))])
            return I(r.choice([0, 1, 2, 3, 5, 7, 10]))
        c = r.random()
        if c < 0.55:
            o = r.choice(ARITH)
            if o == "*" and r.random() < 0.8:
                return B("*", self.iexpr(env, depth - 1), I(r.choice([2, 3, 5, 10])))      # mostly linear: products of two symbols make path conditions nonlinear
            return B(o, self.iexpr(env, depth - 1), self.iexpr(env, depth - 1))
        if c < 0.65:
            return B("/", self.iexpr(env, depth - 1), I(r.choice([2, 3, 4, 7])))
        if c < 0.72:
            # % is constrained only for a non-negative dividend: a square
            e = self.iexpr(env, depth - 2)
            return B("%", B("*", e, e), I(r.choice([2, 3, 5])))
        if c < 0.9:
            return self.cond(env, depth - 1)
        if self.helpers and depth >= 1:
            h = r.choice(self.helpers)
            if h["ret"] == "int":
                return ("call", h["name"], [self.iexpr(env, depth - 2) if pt == "int" else self.fexpr(env, depth - 2) for pt, _ in h["params"]])
        return B("-", I(0), self.iexpr(env, depth - 1))

    def fexpr(self, env, depth):
        """float-typed (or int-typed: promotion) expression"""
        r = self.r
        floats = [n for n, t in env.items() if t == "float"]
        if depth <= 0 or r.random() < 0.25:
            if floats and r.random() < 0.7:
                return V(r.choice(floats))
            return F(r.choice([0.5, 1.0, 2.0, 2.5, 4.0]))
        c = r.random()
        if c < 0.5:
            l = self.fexpr(env, depth - 1)
            rr = self.fexpr(env, depth - 1) if r.random() < 0.6 else self.iexpr(env, depth - 1)
            if r.random() < 0.5:
                l, rr = rr, l
            if "flt" not in (l[0], rr[0]) and not self._isfloat(l, env) and not self._isfloat(rr, env):
                l = B("+", l, F(0.5))
            return B(r.choice(ARITH), l, rr)
        if c < 0.7:
            return B("/", self.fexpr(env, depth - 1), F(r.choice([2.0, 4.0, 0.5])))
        if self.helpers and c < 0.8:
            hs = [h for h in self.helpers if h["ret"] == "float"]
            if hs:
                h = r.choice(hs)
                return ("call", h["name"], [self.iexpr(env, depth - 2) if pt == "int" else self.fexpr(env, depth - 2) for pt, _ in h["params"]])
        return B("+", self.fexpr(env, depth - 1), self.iexpr(env, depth - 1))

    def _isfloat(self, e, env):
        if e[0] == "flt":
            return True
        if e[0] == "var":
            return env.get(e[1]) == "float"
        if e[0] == "bin":
            return e[1] not in CMP + ["&&", "||", "%"] and (self._isfloat(e[2], env) or self._isfloat(e[3], env))
        if e[0] == "call":
            return any(h["name"] == e[1] and h["ret"] == "float" for h in self.helpers)
        return False

    def cond(self, env, depth):
        r = self.r
        c = r.random()
        if c < 0.6 or depth <= 0:
            if r.random() < 0.75 or not any(t == "float" for t in env.values()):
                return B(r.choice(CMP), self.iexpr(env, depth - 1), self.iexpr(env, depth - 1))
            return B(r.choice(["<", ">", "<=", ">="]), self.fexpr(env, depth - 1), self.fexpr(env, depth - 1))
        return B(r.choice(["&&", "||"]), self.cond(env, depth - 1), self.cond(env, depth - 1))

    # statements -------------------------------------------------------------
    def stmts(self, env, depth, in_loop, budget):
        r = self.r
        out = []
        env = dict(env)
        for _ in range(r.randint(2, 5)):
            if budget[0] <= 0:
                break
            budget[0] -= 1
            c = r.random()
            ints = [n for n, t in env.items() if t == "int" and not n.startswith("i_") and n != "n"]
            floats = [n for n, t in env.items() if t == "float"]
            arrs = [n for n, t in env.items() if isinstance(t, tuple)]
            if c < 0.15:
                t = r.choice(["int", "int", "float"])
                n = self.fresh("v")
                init = None if r.random() < 0.3 else (self.iexpr(env, 2) if t == "int" else self.fexpr(env, 2))
                out.append(("decl", t, n, init))
                env[n] = t
            elif c < 0.2 and depth > 0:
                n = self.fresh("t")
                sz = r.choice([2, 3])
                out.append(("decl", ("arr", "int", (sz,)), n, None))
                env[n] = ("arr", "int", (sz,))
            elif c < 0.45 and ints:
                tgt = r.choice(ints)
                aop = r.choice(["=", "=", "+=", "-=", "*="])
                out.append(("assign", V(tgt), aop, self.iexpr(env, 2)))
            elif c < 0.52 and arrs:
                a = r.choice(arrs)
                out.append(("assign", ("idx", a, [I(r.randrange(env[a][2][0]))]), r.choice(["=", "+="]), self.iexpr(env, 2)))
            elif c < 0.6 and floats:
                tgt = r.choice(floats)
                out.append(("assign", V(tgt), r.choice(["=", "+=", "*=", "/="]), self.fexpr(env, 2) if r.random() < 0.7 else B("+", self.fexpr(env, 1), F(1.5))))
                if out[-1][2] == "/=":
                    out[-1] = ("assign", V(tgt), "/=", F(r.choice([2.0, 4.0])))
            elif c < 0.66 and ints:
                tgt = r.choice(ints)
                out.append(("expr", (r.choice(["pre", "post"]), r.choice(["++", "--"]), tgt)))
            elif c < 0.8 and depth > 0:
                th = self.stmts(env, depth - 1, in_loop, budget)
                el = self.stmts(env, depth - 1, in_loop, budget) if r.random() < 0.5 else None
                if th:
                    out.append(("if", self.cond(env, 1), th, el or None))
            elif c < 0.93 and depth > 0:
                kind = r.choice(["for", "for", "while", "do"])
                iv = "i_" + self.fresh("")
                bound = r.choice([I(2), I(3), V("n")]) if "n" in env else I(r.choice([2, 3]))
                benv = dict(env)
                benv[iv] = "int"
                body = self.stmts(benv, depth - 1, True, budget)
                if r.random() < 0.35:
                    body.insert(r.randrange(len(body) + 1), ("if", B(r.choice(["==", ">"]), V(iv), I(r.choice([0, 1]))), [(r.choice(["break", "continue"]),)], None))
                if kind == "for":
                    out.append(("for", ("decl", "int", iv, I(0)), B("<", V(iv), bound), ("expr", ("pre", "++", iv)) if r.random() < 0.6 else ("assign", V(iv), "+=", I(1)), body))
                elif kind == "while":
                    out.append(("decl", "int", iv, I(0)))
                    env[iv] = "int"
                    # the increment comes first so that `continue` cannot skip it
                    out.append(("while", B("<", V(iv), bound), [("assign", V(iv), "=", B("+", V(iv), I(1)))] + body))
                else:
                    out.append(("decl", "int", iv, I(0)))
                    env[iv] = "int"
                    out.append(("do", [("expr", ("pre", "++", iv))] + body, B("<", V(iv), bound)))
            elif in_loop and c < 0.96:
                pass
            elif "g" in self.globals and ints:
                out.append(("assign", V("g"), r.choice(["=", "+="]), self.iexpr(env, 2)))
        return out

    def function(self, name, ret, params, export, depth=2):
        env = {n: t for t, n in params}
        env.update(self.globals)
        budget = [18]
        body = [("decl", "int", "acc", I(0))]
        env["acc"] = "int"
        body += self.stmts(env, depth, False, budget)
        ints = [n for n, t in env.items() if t == "int"]
        last = self.iexpr(env, 2) if ret == "int" else self.fexpr(env, 2)
        # the result depends on the state the body left behind
        for v in self.r.sample(ints, min(len(ints), 3)):
            last = B("+", last, V(v)) if self.r.random() < 0.7 else B("-", last, B("*", V(v), I(3)))
        body.append(("return", last))
        return pc.fn(name, ret, params, body, export=export)

    def program(self):
        self.helpers = []
        self.globals = {"g": "int"} if self.r.random() < 0.6 else {}
        fns = []
        for k in range(self.r.choice([0, 1, 1, 2])):
            ret = self.r.choice(["int", "int", "float"])
            params = [(self.r.choice(["int", "float"]), f"p{j}") for j in range(self.r.choice([1, 2]))]
            h = self.function(f"h{k}", ret, params, export=False, depth=1)
            fns.append(h)
            self.helpers.append(h)
        params = [("int", "a"), ("int", "b"), ("int", "n")] + ([("float", "x")] if self.r.random() < 0.6 else [])
        fns.append(self.function("f", self.r.choice(["int", "int", "float"]), params, export=True))
        inputs = {"a": "int", "b": "int", "n": "0..3"}
        if len(params) == 4:
            inputs["x"] = "float"
        gl = []
        if self.globals:
            gl = [("int", "g")]
            inputs["@g"] = "int"
        return pc.P(fns, globals_=gl, inputs=inputs)


def generated(seed, count):
    rnd = random.Random(seed)
    out = []
    for i in range(count):
        g = Gen(random.Random(rnd.getrandbits(64)))
        out.append((f"gen{seed}.{i}", g.program()))
    return out


def _mk(kind, part, parts, tier):
    n_total = 64 if tier == "quick" else 1600
    options = {"optimize": True} if kind == "optimize" else {}
    props = {"scalar": ["C01", "C03", "C05"], "optimize": ["C02", "C14"], "grouping": ["C08"]}[kind]

    @family(f"E2E.generated.{kind}.{part}" + ("" if tier == "quick" else ".deep"), props=props, tier=tier,
            functions=["nsl.Compiler::Compiler.Compile", "nsl.parser::NslParser.Parse", "nsl.passes.LowerToIR::LowerToIRVisitor", "nsl.VM::ExecutionContext.__Execute"],
            assumptions=[f"SAMPLED family of programs: {n_total} generated scalar-core programs per tier (seed VERIF_SEED, default 0; generator contracts/gen_c.py); for EACH program the inputs are symbolic, so each obligation holds for all inputs of its program, but the set of programs is a sample -- these obligations are reported under coverage.bounded and never counted as proved",
                         "oracle: contracts/refsem.py in the same path context; floats are reals (A2); a program whose exploration exceeds the path limit is skipped and counted as skipped"])
    def f(R, part=part):
        seed = int(os.environ.get("VERIF_SEED", "0") or 0)
        progs = generated(seed if tier == "quick" else seed + 1000, n_total)
        ran = skipped = nbad = 0
        for i, (name, prog) in enumerate(progs):
            if i % parts != part:
                continue
            sub = _Sub(R)
            from pyvc import sym, solver
            solver.CROSS_CHECK_MS = 1500          # sampled programs: the cvc5 cross-check of the thorough tier gets a short leash (nonlinear VCs)
            old_budget = sym.PATH_BUDGET_S
            sym.EXPLORE_DEADLINE = time.time() + PROGRAM_BUDGET_S
            sym.PATH_BUDGET_S = min(old_budget, PROGRAM_BUDGET_S)
            try:
                pc._run_program(sub, f"E2E.generated.{kind}", name, prog, options, kind == "grouping", "nsl.Compiler::Compiler.Compile", timeout_fails=False)
            except PathLimit:
                skipped += 1
                continue
            finally:
                solver.CROSS_CHECK_MS = None
                sym.EXPLORE_DEADLINE = None
                sym.PATH_BUDGET_S = old_budget
            ran += 1
            bad = [r for r in sub.results if r["status"] == "failed"]
            R.results.extend(bad)                 # a failed program is a full obligation of its own (with its replay)
            nbad += 1 if bad else 0
            skipped += 1 if (not bad and any(r["status"] != "discharged" for r in sub.results)) else 0
        R.bounded(f"E2E.generated.{kind}[{part}/{parts}]" + ("" if tier == "quick" else "[deep]"), "nsl.Compiler::Compiler.Compile", True, ran - nbad,
                  detail=f"{ran - nbad} of {ran} generated programs agree with the reference semantics for all inputs ({skipped} skipped: path limit / undecided); failing ones are reported as obligations of their own")
    f.__doc__ = f"Generated programs ({kind}): VM result and globals equal the reference semantics for all inputs of each program."
    return f


class _Sub:
    """Recorder facade collecting the per-program results of _run_program so that the family can fold the passing ones into ONE bounded entry."""

    def __init__(self, R):
        self.R = R
        self.results = []
        self.stats = R.stats
        self.fam = R.fam

    def __getattr__(self, name):
        real = getattr(type(self.R), name)

        def call(*a, **k):
            n0 = len(self.R.results)
            out = real(self.R, *a, **k)
            self.results += self.R.results[n0:]
            del self.R.results[n0:]
            return out
        return call


for _k in ("scalar", "optimize", "grouping"):
    for _p in range(4):
        _mk(_k, _p, 4, "quick")
        _mk(_k, _p, 4, "thorough")
