"""C11, C12, C13 (and the shared visitor machinery V): contracts on the validation
passes, proved by induction on trees -- each handler runs for real on a node
whose children are opaque; visits of children are answered by the induction
hypothesis (contracts/astgen.py)."""
from __future__ import annotations

import itertools

import z3

from pyvc.core import family, resolve, Missing
from pyvc.sym import SymInt, SymBool, term, Unsupported, cur
from pyvc.util import patched, script
from pyvc.verify import verify
from . import astgen as ag
from . import types_c as tc

VF = "nsl.passes.ValidateFlowStatements::ValidateFlowStatementVisitor"
VN = "nsl.passes.ValidateVariableNames::ValidateVariableNamesVisitor"
VIS = "nsl.Visitor"


def _handler():
    import nsl.Errors as E
    return E.ErrorHandler()


# ---------------------------------------------------------------------------
# V: the shared visitor machinery

@family("V.children", props=["C11", "C12", "C13", "C20", "C01", "C03", "C08", "C15", "C02", "C05", "C04", "C09"],
        functions=[VIS + "::Node.ForEachChild", VIS + "::Node.AcceptVisitor", VIS + "::Visitor.v_Generic", VIS + "::DefaultVisitor.v_Default",
                   "nsl.ast::*._Traverse"])
def v_children(R):
    """For every AST class: ForEachChild(f) (through the class's real _Traverse) applies f exactly once to every child
    node held by the object, in field order, stores a non-None result back and keeps the child on None; the default
    visitor reaches exactly those children.  v_Generic dispatches to the first v_<Class> along the MRO."""
    import nsl.Visitor as V
    for label, mk in ag.all_shapes().items():
        node, _ = mk()
        kids = ag.children_of(node)
        seen = []

        def f(n, ctx):
            seen.append((n, ctx))
            return None

        marker = object()
        try:
            node.ForEachChild(f, marker)
            ok = sorted(id(x) for x, _ in seen) == sorted(id(k) for k in kids) and all(c is marker for _, c in seen)
            det = f"visited {[getattr(x, 'tag', type(x).__name__) for x, _ in seen]}, children are {[getattr(k, 'tag', type(k).__name__) for k in kids]}"
        except Exception as e:
            ok, det = False, f"ForEachChild raised {type(e).__name__}: {e}"
        R.check(f"V.children[{label}]", "nsl.ast::" + type(node).__name__ + "._Traverse", ok, detail=det)
        # children survive the traversal (results of None keep the child)
        after = ag.children_of(node)
        R.check(f"V.children.kept[{label}]", "nsl.ast::" + type(node).__name__ + "._Traverse", sorted(id(x) for x in after) == sorted(id(k) for k in kids),
                detail="children changed by a traversal whose function returns None")
        # replacement is stored back
        if kids:
            node2, _ = mk()
            kids2 = ag.children_of(node2)
            repl = {id(k): ag.E(f"new{i}") if isinstance(k, ag.A().Expression) else (ag.S(f"new{i}") if isinstance(k, ag.A().Statement) else ag.N(f"new{i}")) for i, k in enumerate(kids2)}
            node2.ForEachChild(lambda n, c: repl[id(n)], None)
            got = ag.children_of(node2)
            R.check(f"V.children.replace[{label}]", "nsl.ast::" + type(node2).__name__ + "._Traverse",
                    sorted(id(x) for x in got) == sorted(id(repl[id(k)]) for k in kids2), detail="results of the traversal function are not stored back in place")

    # default visitor: a visitor without handlers reaches every child exactly once
    class Spy(V.DefaultVisitor):
        pass

    for label, mk in ag.all_shapes().items():
        node, _ = mk()
        v = Spy()
        step = ag.visitor_step(v, node, "CTX")
        kids = ag.children_of(node)
        R.check(f"V.default[{label}]", VIS + "::DefaultVisitor.v_Default",
                step.raised is None and sorted(id(x) for x, _ in step.visits) == sorted(id(k) for k in kids) and all(c == "CTX" for _, c in step.visits),
                detail=f"default traversal visited {[getattr(x, 'tag', '?') for x, _ in step.visits]} raised={step.raised!r}")

    # dispatch along the MRO
    a = ag.A()

    class D(V.DefaultVisitor):
        def __init__(self):
            super().__init__()
            self.log = []

        def v_Expression(self, o, ctx=None):
            self.log.append("Expression")

        def v_BinaryExpression(self, o, ctx=None):
            self.log.append("BinaryExpression")

        def v_FlowStatement(self, o, ctx=None):
            self.log.append("FlowStatement")

    import nsl.op as op
    cases = [(a.BinaryExpression(op.Operation.ADD, ag.E("l"), ag.E("r")), "BinaryExpression"),
             (a.AssignmentExpression(ag.E("l"), ag.E("r")), "BinaryExpression"),
             (a.PrimaryExpression("x"), "Expression"), (a.BreakStatement(), "FlowStatement"),
             (a.WhileStatement(ag.E("c"), ag.S("b")), "FlowStatement")]
    for node, want in cases:
        d = D()
        d.v_Generic(node, None)
        R.check(f"V.dispatch[{type(node).__name__}]", VIS + "::Visitor.v_Generic", d.log == [want], detail=f"dispatched to {d.log}, expected [{want}]")


# ---------------------------------------------------------------------------
# C11

LOOPS = ("ForStatement", "DoStatement", "WhileStatement")


@family("C11.visit", props=["C11"],
        functions=[VF + ".__VisitLoop", VF + ".v_DoStatement", VF + ".v_ForStatement", VF + ".v_WhileStatement", VF + ".v_BreakStatement",
                   VF + ".v_ContinueStatement", VF + ".GetContext", "nsl.Errors::CompileExceptionToErrorHandler.__exit__"],
        assumptions=["induction on tree height: visits of children are answered by the hypothesis 'the child raises CompileException and clears valid iff misplaced(child, depth)', with the lemma misplaced(t, d) => d == 0; the loop depth d is a symbolic integer >= 0",
                     "representation: the loop depth is the visitor context (an int, 0 at the root)"])
def c11_visit(R):
    """misplaced(t,d): t is break/continue and d = 0; or t is a loop and a child is misplaced(.,d+1); or a child is misplaced(.,d).
    For every node class with opaque children and symbolic depth d: the visitor visits each child with depth d+1 below a loop
    and d otherwise, ends with valid' = valid and not misplaced(t,d), raises only CompileException and only if misplaced(t,d)."""
    cls = resolve(VF)
    import nsl.Errors as E
    v0 = cls()
    R.check("C11.root-depth", VF + ".GetContext", v0.GetContext() == 0 and v0.valid is True, detail=f"GetContext() = {v0.GetContext()!r}, valid = {v0.valid!r}")
    for label, mk in ag.all_shapes().items():
        def run(ctx, mk=mk, label=label):
            d = ctx.int("d")
            ctx.assume(d >= 0)
            v = cls()
            v.SetErrorHandler(_handler())
            node, _ = mk()
            kids = ag.children_of(node)
            log = []

            def hyp(child, c, step):
                m = ctx.bool("mis_" + child.tag)
                ct = term(c) if isinstance(c, (int, SymInt)) else None
                if ct is None:
                    raise Unsupported(f"child visited with context {c!r}, not a depth")
                ctx.assume(z3.Implies(m.t, ct == 0))          # lemma
                taken = bool(m)
                log.append((child, ct, taken))
                if taken:
                    v.valid = False
                    E.ERROR_BREAK_OUTSIDE_FLOW_SWITCH.Raise()

            step = ag.visitor_step(v, node, d, hyp)
            kind = type(node).__name__
            isloop = kind in LOOPS
            want_depth = d.t + 1 if isloop else d.t
            goals = []
            goals.append(("child-depth", z3.And(*[c == want_depth for _, c, _ in log]) if log else z3.BoolVal(True),
                          f"{kind}: children visited at depths {[str(z3.simplify(c)) for _, c, _ in log]}"))
            child_mis = any(t for _, _, t in log)
            if not child_mis:
                goals.append(("all-children-once", z3.BoolVal(sorted(id(x) for x, _, _ in log) == sorted(id(k) for k in kids)),
                              f"{kind}: visited {[x.tag for x, _, _ in log]} of {[k.tag for k in kids]}"))
            self_mis = (d.t == 0) if kind in ("BreakStatement", "ContinueStatement") else z3.BoolVal(False)
            mis = z3.Or(self_mis, z3.BoolVal(child_mis))
            goals.append(("valid", z3.BoolVal(bool(v.valid)) == z3.Not(mis), f"{kind}: valid={v.valid} after the visit"))
            if step.raised is not None:
                goals.append(("raises-only-CompileException", z3.BoolVal(isinstance(step.raised, E.CompileException)), f"raised {step.raised!r}"))
                goals.append(("raises-only-if-misplaced", mis, f"{kind}: raised {step.raised!r}"))
            return goals

        verify(R, "C11.visit", VF, run, label=label)


def _stmt_trees(depth):
    """Statement source texts with the set-of-misplaced flag: (src, ok) ; ok = every break/continue inside a loop."""
    leaves = [("break;", "B"), ("continue;", "B"), ("x = (x + 1);", ""), ("return x;", "")]

    def gen(d):
        if d == 0:
            return [(s, (k == "B"), False) for s, k in leaves]     # (src, has_free_bc, _)
        sub = gen(d - 1)
        out = list(sub)
        for (s, f, _) in sub:
            out.append((f"if (x < 9) {s}", f, False))
            out.append((f"while (x < 3) {s}", False, False))
            out.append((f"for (; x < 3; x = (x + 1)) {s}", False, False))
            out.append((f"do {{ {s} }} while (x < 3)", False, False))
        for (s1, f1, _), (s2, f2, _) in itertools.product(sub, repeat=2):
            out.append((f"{{ {s1} {s2} }}", f1 or f2, False))
            out.append((f"if (x < 9) {s1} else {s2}", f1 or f2, False))
        return out

    seen = {}
    for s, f, _ in gen(depth):
        seen.setdefault(s, f)
    return sorted(seen.items())


def _c11_e2e(R, part, parts, depth):
    trees = _stmt_trees(depth)
    fn = "nsl.Compiler::Compiler.Compile"
    bad = None
    n = 0
    for i, (s, free) in enumerate(trees):
        if i % parts != part:
            continue
        src = f"export function f(int x) -> int {{ {s} return x; }}"
        r, exc = tc.compile_quiet(src)
        n += 1
        if (r is None) != free:
            bad = (src, free, r is None, exc)
            break
    rp = None
    det = f"{n} statement trees (nesting depth <= {depth}) compiled; accept/reject agrees with the rule"
    if bad:
        det = f"`{bad[0]}`: {'rejected' if bad[2] else 'accepted'} ({type(bad[3]).__name__ if bad[3] else ''}) but the rule says {'reject' if bad[1] else 'accept'}"
        rp = script("""
            import io, contextlib
            from nsl import Compiler
            src = {{src}}
            try:
                with contextlib.redirect_stdout(io.StringIO()):
                    r = Compiler.Compiler().Compile(src)
            except BaseException as e:
                r = None; print('rejected by', type(e).__name__, e)
            print(src, '->', 'accepted' if r is not None else 'rejected', '; C11 expects', {{want}})
            if (r is None) != ({{want}} == 'rejected'): print('REPLAY-CONFIRMED')
            """, src=bad[0], want="rejected" if bad[1] else "accepted")
    R.bounded(f"C11.e2e[{part}/{parts}]", fn, bad is None, n, detail=det, replay=rp)


def _mk_c11(part, parts=4):
    @family(f"C11.e2e.{part}", props=["C11"], functions=["nsl.Compiler::Compiler.Compile", "nsl.Compiler::Compiler.__RunPass", "nsl.Pass::MakePassFromVisitor"],
            assumptions=["BOUNDED stand-in (never counted as proved): all statement trees of nesting depth <= 2 over {break, continue, assignment, return, block, if, if/else, while, for, do} compiled end to end"])
    def f(R, part=part):
        _c11_e2e(R, part, parts, 2)
    f.__doc__ = "Bounded end-to-end check: accept/reject of every statement tree up to nesting depth 2 equals 'all break/continue inside a loop'."
    return f


for _p in range(4):
    _mk_c11(_p)


# ---------------------------------------------------------------------------
# C12

def _loc(tag):
    a = ag.A()
    return a.Location((hash(tag) % 50, hash(tag) % 50 + 3))


@family("C12.ctx", props=["C12"], functions=[VN + ".Context.Add", VN + ".Context.Get"],
        assumptions=["finite domain enumerated completely: context chains of depth 1-4, every distribution of the names {a,b} over the levels, queried with {a,b,c} (the operations are uniform in the names)"])
def c12_ctx(R):
    """Context.Get(n) is the location of the nearest declaration of n along the parent chain (None if invisible);
    Context.Add(n, loc) inserts n at this level iff n is invisible, else raises with (name, new, existing) in that order and leaves the chain unchanged."""
    cls = resolve(VN)
    import nsl.Errors as E
    Ctx = cls.Context
    names = ["a", "b"]
    for depth in ((1, 2, 3, 4) if R.tier != "thorough" else (1, 2, 3, 4, 5, 6)):        # context chain depth (thorough tier: up to 6)
        # each name is declared at one level or nowhere
        for where in itertools.product(range(-1, depth), repeat=len(names)):
            chain = []
            c = None
            for lvl in range(depth):
                c = Ctx(c)
                chain.append(c)
            locs = {}
            ok_build = True
            for n, lvl in zip(names, where):
                if lvl >= 0:
                    locs[n] = _loc(f"{n}{lvl}")
                    try:
                        chain[lvl].Add(n, locs[n])
                    except Exception:
                        ok_build = False
            label = f"depth{depth}," + ",".join(f"{n}@{l}" for n, l in zip(names, where))
            if not ok_build:
                R.check(f"C12.ctx.build[{label}]", VN + ".Context.Add", False, detail="adding a fresh name to an empty level raised")
                continue
            for q in names + ["c"]:
                for lvl in range(depth):
                    visible = q in locs and where[names.index(q)] <= lvl
                    got = chain[lvl].Get(q)
                    R.check(f"C12.ctx.get[{label},{q}@{lvl}]", VN + ".Context.Get", (got is locs[q]) if visible else (got is None),
                            detail=f"Get({q!r}) at level {lvl} returned {got!r}; visible={visible}")
            # Add at the innermost level
            for q in names + ["c"]:
                lvl = depth - 1
                visible = q in locs and where[names.index(q)] <= lvl
                newloc = _loc("new" + q)
                # rebuild a private copy of the chain for the Add test
                c2 = None
                ch2 = []
                for l2 in range(depth):
                    c2 = Ctx(c2)
                    ch2.append(c2)
                for n, l2 in zip(names, where):
                    if l2 >= 0:
                        ch2[l2].Add(n, locs[n])
                try:
                    ch2[lvl].Add(q, newloc)
                    raised = None
                except E.CompileException as e:
                    raised = e
                if visible:
                    ok = raised is not None and raised.message is E.ERROR_VARIABLE_NAME_ALREADY_USED
                    if ok:
                        txt = raised.messageText
                        ok = txt == E.ERROR_VARIABLE_NAME_ALREADY_USED.message.format(q, newloc, locs[q])
                    det = f"Add({q!r}) on a chain where it is visible: {'raised ' + raised.messageText if raised else 'accepted'}"
                else:
                    ok = raised is None and ch2[lvl].Get(q) is newloc and all(ch2[l3].Get(q) is None for l3 in range(lvl))
                    det = f"Add({q!r}) of an invisible name: {'raised' if raised else 'accepted'}; outer levels see it: {[ch2[l3].Get(q) is not None for l3 in range(lvl)]}"
                R.check(f"C12.ctx.add[{label},{q}]", VN + ".Context.Add", ok, detail=det)


SCOPE_NODES = ("Function", "CompoundStatement", "ForStatement", "DoStatement", "WhileStatement", "IfStatement")


@family("C12.scopes", props=["C12", "C05"],
        functions=[VN + ".v_Function", VN + ".v_CompoundStatement", VN + ".v_ForStatement", VN + ".v_DoStatement", VN + ".v_WhileStatement",
                   VN + ".v_IfStatement", VN + ".v_VariableDeclaration", VN + ".v_StructureDefinition", VN + ".GetContext"],
        assumptions=["induction on tree height with opaque children; hypothesis: a child subtree either returns or raises CompileException (a redeclaration inside it)"])
def c12_scopes(R):
    """Every scope-introducing node (function, block, for, do, while, if) visits all its children with one NEW context whose
    parent is the incoming context (siblings of different scope nodes therefore get different contexts with the same parent);
    every other node passes the incoming context through; a declaration adds its name to exactly the context it is visited with;
    a function adds its parameters to its new context before the body; a redeclaration anywhere below clears `valid`."""
    cls = resolve(VN)
    import nsl.Errors as E
    a = ag.A()
    import nsl.types as ty
    for label, mk in ag.all_shapes().items():
        for child_raises in (False, True):
            node, _ = mk()
            kids = ag.children_of(node)
            kind = type(node).__name__
            if child_raises and not kids:
                continue
            v = cls()
            v.SetErrorHandler(_handler())
            incoming = cls.Context(v.GetContext())
            incoming.Add("outer", _loc("outer"))
            if kind == "Function":
                # parameters are real Argument nodes
                args = [a.Argument(ty.Integer(), "p0"), a.Argument(ty.Float(), "p1")]
                for i, g in enumerate(args):
                    g.SetLocation(_loc(f"p{i}"))
                node = a.Function("f", args, ty.Integer(), ag.S("body"))
                kids = [node.GetBody()]
            seen = []

            def hyp(child, c, step, v=v):
                seen.append((child, c))
                if child_raises and len(seen) == 1:
                    E.ERROR_VARIABLE_NAME_ALREADY_USED.Raise("x", "l1", "l2")

            step = ag.visitor_step(v, node, incoming, hyp)
            lab = f"{label},{'child-redeclares' if child_raises else 'children-ok'}"
            fn = VN + ".v_" + kind
            ctxs = [c for _, c in seen]
            if kind == "VariableDeclaration":
                R.check(f"C12.scopes.decl[{lab}]", VN + ".v_VariableDeclaration",
                        incoming.Get("v") is node.GetLocation() and step.raised is None,
                        detail=f"declaration did not add its name with its own location to the context it was visited with (Get -> {incoming.Get('v')!r}, raised {step.raised!r})")
                continue
            if kind == "StructureDefinition":
                ok = all(isinstance(c, cls.Context) and c is not incoming and c.Get("outer") is None for c in ctxs) and len(set(map(id, ctxs))) <= 1
                R.check(f"C12.scopes.struct[{lab}]", fn, ok and (child_raises or sorted(id(x) for x, _ in seen) == sorted(id(k) for k in kids)),
                        detail="structure fields must be checked in a context of their own (names of fields do not clash with variables)")
                if child_raises:
                    R.check(f"C12.scopes.struct.invalid[{lab}]", fn, v.valid is False and step.raised is None, detail=f"valid={v.valid} raised={step.raised!r}")
                continue
            if kind in SCOPE_NODES and not kids:
                continue
            if kind == "IfStatement":
                # The two branches of an if are DISJOINT sibling scopes (C12: "a variable of the same or an enclosing block, loop header or
                # branch" is visible; "disjoint sibling scopes may reuse a name"): a declaration made directly in the then-branch
                # (`if (c) int x = 1; else ...`) must not be visible in the else-branch, and vice versa.
                by = {getattr(ch, "tag", None): c for ch, c in seen}
                okc = all(isinstance(c, cls.Context) and c is not incoming and c.Get("outer") is not None for c in ctxs)
                R.check(f"C12.scopes.fresh[{lab}]", fn, bool(ctxs) and okc, detail=f"IfStatement: condition and branches must be visited with new contexts chained to the incoming one")
                if okc and by.get("t") is not None:
                    by["t"].Add("only_then", _loc("only_then"))
                    R.check(f"C12.scopes.drop[{lab}]", fn, incoming.Get("only_then") is None, detail="a name declared in a branch is visible after the if statement")
                    if by.get("f") is not None:
                        by["f"].Add("only_else", _loc("only_else"))
                        R.check(f"C12.scopes.branches-disjoint[{lab}]", fn, by["f"].Get("only_then") is None and by["t"].Get("only_else") is None,
                                detail="a name declared directly in one branch of an if is visible in the other branch (one scope for both branches)",
                                replay=script("""
                                    import io, contextlib
                                    from nsl import Compiler, LinearIR, VM
                                    bad = False
                                    for src, want in (('export function f(int c) -> int { int r = 0; if (c > 0) int x = 1; else r = x; return r; }', 'rejected'),
                                                      ('export function f(int c) -> int { int r = 0; if (c > 0) int x = 1; else int x = 2; return r; }', 'accepted')):
                                        try:
                                            with contextlib.redirect_stdout(io.StringIO()):
                                                r = Compiler.Compiler().Compile(src)
                                        except BaseException as e:
                                            r = None; print('rejected by', type(e).__name__, e)
                                        got = 'accepted' if r is not None else 'rejected'
                                        print(src, '->', got, '; C12 expects', want)
                                        bad = bad or got != want
                                    if bad: print('REPLAY-CONFIRMED')
                                    """))
                if child_raises:
                    R.check(f"C12.scopes.invalid[{lab}]", fn, v.valid is False and step.raised is None, detail=f"a redeclaration below {kind}: valid={v.valid} raised={step.raised!r}")
                else:
                    R.check(f"C12.scopes.all[{lab}]", fn, sorted(id(x) for x, _ in seen) == sorted(id(k) for k in kids) and step.raised is None and v.valid is True,
                            detail=f"visited {[getattr(x, 'tag', '?') for x, _ in seen]} of {[getattr(k, 'tag', '?') for k in kids]}; valid={v.valid}; raised={step.raised!r}")
                continue
            if kind in SCOPE_NODES:
                fresh = bool(ctxs) and all(isinstance(c, cls.Context) for c in ctxs) and len(set(map(id, ctxs))) == 1 and ctxs[0] is not incoming
                parent_ok = fresh and ctxs[0].Get("outer") is not None
                R.check(f"C12.scopes.fresh[{lab}]", fn, fresh and parent_ok,
                        detail=f"{kind}: children must be visited with one new context chained to the incoming one (contexts {[type(c).__name__ for c in ctxs]}, fresh={fresh}, sees outer names={parent_ok})")
                if fresh:
                    # names added below are not visible in the incoming context afterwards
                    ctxs[0].Add("inner", _loc("inner"))
                    R.check(f"C12.scopes.drop[{lab}]", fn, incoming.Get("inner") is None, detail="a name declared in the inner scope is visible in the enclosing one")
                if kind == "Function" and fresh:
                    R.check(f"C12.scopes.params[{lab}]", fn, ctxs[0].Get("p0") is args[0].GetLocation() and ctxs[0].Get("p1") is args[1].GetLocation()
                            and incoming.Get("p0") is None, detail="parameters must be declared in the function's own context before the body is visited")
                if child_raises:
                    R.check(f"C12.scopes.invalid[{lab}]", fn, v.valid is False and step.raised is None, detail=f"a redeclaration below {kind}: valid={v.valid} raised={step.raised!r}")
                else:
                    R.check(f"C12.scopes.all[{lab}]", fn, sorted(id(x) for x, _ in seen) == sorted(id(k) for k in kids) and step.raised is None and v.valid is True,
                            detail=f"visited {[getattr(x, 'tag', '?') for x, _ in seen]} of {[getattr(k, 'tag', '?') for k in kids]}; valid={v.valid}; raised={step.raised!r}")
            else:
                same = all(c is incoming for c in ctxs)
                R.check(f"C12.scopes.pass[{lab}]", VN, same, detail=f"{kind} is not a scope: children must see the incoming context")
                if child_raises:
                    R.check(f"C12.scopes.propagate[{lab}]", VN, isinstance(step.raised, E.CompileException) or v.valid is False,
                            detail=f"a redeclaration below {kind} was lost: valid={v.valid} raised={step.raised!r}")
                else:
                    R.check(f"C12.scopes.all[{lab}]", VN, sorted(id(x) for x, _ in seen) == sorted(id(k) for k in kids) and step.raised is None,
                            detail=f"visited {[getattr(x, 'tag', '?') for x, _ in seen]} of {[getattr(k, 'tag', '?') for k in kids]}")
    # the root context is the parent of everything: globals are declared into it
    v = cls()
    R.check("C12.scopes.root", VN + ".GetContext", isinstance(v.GetContext(), cls.Context) and v.GetContext() is v.GetContext(), detail="GetContext must return the one root context")


_C12_PROGRAMS = None


def _c12_programs():
    """(src, must_reject) over block structures x declaration positions x names."""
    out = []
    pre = "int g;\n"
    names = {"param": "p", "global": "g", "outer": "o", "fresh": "z", "sibling": "s", "loopvar": "i"}

    def prog(body):
        return pre + f"export function f(int p) -> int {{ int o = 1; {body} return o; }}"

    for nm, visible_top in (("p", True), ("g", True), ("o", True), ("z", False)):
        decl = f"int {nm} = 2;"
        out.append((prog(decl), visible_top))
        out.append((prog(f"{{ {decl} }}"), visible_top))
        out.append((prog(f"if (o < 3) {{ {decl} }}"), visible_top))
        out.append((prog(f"if (o < 3) {{ o = 2; }} else {{ {decl} }}"), visible_top))
        out.append((prog(f"while (o < 3) {{ {decl} o = (o + 1); }}"), visible_top))
        out.append((prog(f"do {{ {decl} o = (o + 1); }} while (o < 3)"), visible_top))
        out.append((prog(f"for (int i = 0; i < 2; ++i) {{ {decl} }}"), visible_top))
        out.append((prog(f"for (int {nm} = 0; o < 2; o = (o + 1)) {{ o = (o + 1); }}"), visible_top))
        out.append((prog(f"{{ {{ {decl} }} }}"), visible_top))
    # sibling scopes may reuse a name; a name is not visible after its block / loop header
    out.append((prog("{ int s = 1; o = s; } { int s = 2; o = s; }"), False))
    out.append((prog("if (o < 3) { int s = 1; o = s; } else { int s = 2; o = s; }"), False))
    out.append((prog("for (int i = 0; i < 2; ++i) { o = i; } for (int i = 0; i < 3; ++i) { o = i; }"), False))
    out.append((prog("{ int s = 1; o = s; } int s = 5; o = s;"), False))
    out.append((prog("int s = 5; { int s = 1; o = s; }"), True))
    out.append((prog("for (int i = 0; i < 2; ++i) { int i = 3; }"), True))
    out.append((prog("{ int s = 1; { int t = 2; { int s = 3; } } }"), True))
    out.append((prog("int s = 1; int s = 2;"), True))
    out.append((pre + "int g;\nexport function f(int p) -> int { return p; }", True))
    out.append((pre + "export function f(int p, int p) -> int { return p; }", True))
    out.append((pre + "function h(int q) -> int { int w = q; return w; }\nexport function f(int p) -> int { int w = p; int q = 2; return (w + q); }", False))
    # a name is not visible after the block that contains a loop of any kind
    for loop in ("do { o = (o + 1); } while (o < 3)", "while (o < 3) { o = (o + 1); }", "for (int k = 0; k < 2; ++k) { o = (o + 1); }", "if (o < 3) { o = 2; }"):
        out.append((prog(f"{{ int s = 1; {loop} o = s; }} o = s;"), True))
        out.append((prog(f"{{ int s = 1; {loop} o = s; }} int s = 2; o = s;"), False))
    # the two branches of an if are disjoint scopes even without braces
    out.append((prog("if (o < 3) int s = 1; else int s = 2;"), False))
    out.append((prog("if (o < 3) int s = 1; else o = s;"), True))
    out.append((prog("if (o < 3) int s = 1; o = s;"), True))
    out.append((prog("if (o < 3) { o = 2; } else int o = 2;"), True))
    out.append((prog("if (o < 3) int z = 1; else { int z = 2; o = z; }"), False))
    # use after scope end is rejected (unknown symbol)
    out.append((prog("{ int s = 1; } o = s;"), True))
    out.append((prog("for (int i = 0; i < 2; ++i) { o = i; } o = i;"), True))
    return out


@family("C12.e2e", props=["C12", "C05"], functions=["nsl.Compiler::Compiler.Compile", VN, "nsl.passes.ComputeTypes::ComputeTypeVisitor"],
        assumptions=["BOUNDED stand-in (never counted as proved): a fixed grid of block structures x declaration positions x names (parameter, global, enclosing, fresh, sibling) compiled end to end"])
def c12_e2e(R):
    """Bounded end-to-end check: a declaration is rejected exactly when its name is visible; sibling scopes may reuse names; names are invisible after their scope."""
    progs = _c12_programs()
    bad = None
    for src, rej in progs:
        r, exc = tc.compile_quiet(src)
        if (r is None) != rej:
            bad = (src, rej, r is None, exc)
            break
    rp = None
    det = f"{len(progs)} programs; accept/reject agrees with the scoping rule"
    if bad:
        det = f"{'rejected' if bad[2] else 'accepted'} ({type(bad[3]).__name__ if bad[3] else ''}: {str(bad[3])[:80]}), rule says {'reject' if bad[1] else 'accept'}:\n{bad[0]}"
        rp = script("""
            import io, contextlib
            from nsl import Compiler
            src = {{src}}
            try:
                with contextlib.redirect_stdout(io.StringIO()):
                    r = Compiler.Compiler().Compile(src)
            except BaseException as e:
                r = None; print('rejected by', type(e).__name__, e)
            print(src); print('->', 'accepted' if r is not None else 'rejected', '; C12 expects', {{want}})
            if (r is None) != ({{want}} == 'rejected'): print('REPLAY-CONFIRMED')
            """, src=bad[0], want="rejected" if bad[1] else "accepted")
    R.bounded("C12.e2e", "nsl.Compiler::Compiler.Compile", bad is None, len(progs), detail=det, replay=rp)


# ---------------------------------------------------------------------------
# C13

OOB = "nsl.passes.ValidateArrayOutOfBoundsAccess::ValidateArrayOutOfBoundsAccessVisitor"
AAT = "nsl.passes.ValidateArrayAccessType::ValidateArrayAccessTypeVisitor"
SWZ = "nsl.passes.ValidateSwizzle"


def _parent_shapes(ctx):
    """(label, description builder) for indexable parent types with symbolic sizes."""
    ty = tc._types()

    def arr(k):
        sizes = []
        for i in range(k):
            s = ctx.int(f"s{i}")
            ctx.assume(s >= 1)
            sizes.append(s)
        return ty.ArrayType(ty.Integer(), sizes), sizes

    def vec():
        n = ctx.int("s0")
        ctx.assume(n >= 1)
        return ty.VectorType(ty.Float(), n), [n]

    def mat():
        r, c = ctx.int("s0"), ctx.int("s1")
        ctx.assume(r >= 1)
        ctx.assume(c >= 1)
        return ty.MatrixType(ty.Float(), r, c), [r, c]

    return {"array-rank1": lambda: arr(1), "array-rank2": lambda: arr(2), "array-rank3": lambda: arr(3), "vector": vec, "matrix": mat}


PARENT_KINDS = ["array-rank1", "array-rank2", "array-rank3", "vector", "matrix"]


def _oob_witness(kind, model):
    s = [max(1, int(model.get(f"s{i}", 2))) for i in range(3)]
    v = int(model.get("v", 0))
    if kind.startswith("array"):
        k = int(kind[-1])
        decl = "int" + "".join(f"[{s[i]}]" for i in range(k)) + " a;"
        acc = f"a[{v}]" + "".join("[0]" for _ in range(k - 1))
        ret = "int"
        size0 = s[0]
    elif kind == "vector":
        n = min(max(s[0], 2), 4)
        decl = f"float{n} a;"
        acc, ret, size0 = f"a[{v}]", "float", n
    else:
        n = 3 if s[0] <= 3 else 4
        decl = f"float{n}x{n} a;"
        acc, ret, size0 = f"a[{v}][0]", "float", n
    src = f"{decl}\nexport function f() -> {ret} {{ return {acc}; }}"
    return src, (v < 0 or v >= size0)


@family("C13.oob", props=["C13"], functions=[OOB + "._ValidateArrayExpression", OOB + ".v_Expression", "nsl.types::ArrayType.GetSize", "nsl.types::VectorType.GetSize", "nsl.types::MatrixType.GetSize"],
        assumptions=["diagnostic text formatting is cut (CompileException.__init__ keeps the arguments unformatted)"])
def c13_oob(R):
    """For arrays of rank 1-3, vectors and matrices with symbolic sizes and a literal index v (symbolic integer): the pass clears
    `valid` iff v < 0 or v >= the size of the FIRST remaining dimension (the one this index selects); other expressions are left alone."""
    cls = resolve(OOB)
    a = ag.A()
    ty = tc._types()
    for kind in PARENT_KINDS:
        def run(ctx, kind=kind):
            v = ctx.int("v")
            T, sizes = _parent_shapes(ctx)[kind]()
            vis = cls()
            vis.SetErrorHandler(_handler())
            node = a.ArrayExpression(ag.E("p", T), a.LiteralExpression(v, ty.Integer()))
            with tc.eq_cut():
                step = ag.visitor_step(vis, node, None)
            want_invalid = z3.Or(v.t < 0, v.t >= sizes[0].t)
            goals = [("invalid-iff-out-of-range", z3.BoolVal(not vis.valid) == want_invalid, f"valid={vis.valid}"),
                     ("no-exception-escapes", z3.BoolVal(step.raised is None), f"raised {step.raised!r}"),
                     ("children-visited", z3.BoolVal(sorted(x.tag if ag.is_opaque(x) else 'lit' for x, _ in step.visits) == ['lit', 'p']), f"visited {step.visits!r}")]
            return goals

        def replay(model, clause, kind=kind):
            src, bad = _oob_witness(kind, model)
            return script("""
                import io, contextlib
                from nsl import Compiler
                src = {{src}}
                try:
                    with contextlib.redirect_stdout(io.StringIO()):
                        r = Compiler.Compiler().Compile(src)
                except BaseException as e:
                    r = None; print('rejected by', type(e).__name__, e)
                print(src); print('->', 'accepted' if r is not None else 'rejected', '; C13 expects', {{want}})
                if (r is None) != ({{want}} == 'rejected'): print('REPLAY-CONFIRMED')
                """, src=src, want="rejected" if bad else "accepted")

        verify(R, "C13.oob", OOB + "._ValidateArrayExpression", run, replay, label=kind)

    # a non-literal index is never rejected by this pass
    vis = cls()
    vis.SetErrorHandler(_handler())
    node = a.ArrayExpression(ag.E("p", ty.ArrayType(ty.Integer(), [2])), ag.E("i", ty.Integer()))
    step = ag.visitor_step(vis, node, None)
    R.check("C13.oob.dynamic-index", OOB + "._ValidateArrayExpression", vis.valid is True and step.raised is None, detail=f"valid={vis.valid} raised={step.raised!r}")


@family("C13.idxtype", props=["C13"], functions=[AAT + "._ValidateArrayExpression", AAT + ".v_Expression"],
        assumptions=["finite domain enumerated completely: index expression of each of the 63 primitive types of the internal universe plus an array and a struct type"])
def c13_idxtype(R):
    """The pass clears `valid` iff the index expression's type is neither int nor uint; no exception escapes; children are visited."""
    cls = resolve(AAT)
    a = ag.A()
    ty = tc._types()
    U = tc.universe() + [ty.ArrayType(ty.Integer(), [2]), ty.StructType("S", {"a": ty.Integer()})]
    for t in U:
        vis = cls()
        vis.SetErrorHandler(_handler())
        node = a.ArrayExpression(ag.E("p", ty.ArrayType(ty.Integer(), [4])), ag.E("i", t))
        step = ag.visitor_step(vis, node, None)
        want_valid = isinstance(t, (ty.Integer, ty.UnsignedInteger))
        R.check(f"C13.idxtype[{t!r}]", AAT + "._ValidateArrayExpression",
                vis.valid == want_valid and step.raised is None and sorted(x.tag for x, _ in step.visits) == ["i", "p"],
                detail=f"index of type {t!r}: valid={vis.valid}, expected {want_valid}; raised={step.raised!r}; visited {[x.tag for x, _ in step.visits]}")


@family("C13.reach", props=["C13"], functions=[OOB + ".v_Expression", AAT + ".v_Expression", "nsl.Visitor::Visitor.v_Generic"],
        assumptions=["induction on tree height with opaque children"])
def c13_reach(R):
    """Both visitors visit every child of every node class exactly once (so every ArrayExpression of the tree -- parents, index
    expressions, initialisers, assignment targets, arguments -- is reached), and validate an ArrayExpression before descending."""
    for path in (OOB, AAT):
        cls = resolve(path)
        for label, mk in ag.all_shapes().items():
            node, _ = mk()
            if type(node).__name__ == "ArrayExpression":
                import nsl.types as ty
                node = ag.A().ArrayExpression(ag.E("p", ty.ArrayType(ty.Integer(), [4])), ag.E("i", ty.Integer()))
            kids = ag.children_of(node)
            vis = cls()
            vis.SetErrorHandler(_handler())
            step = ag.visitor_step(vis, node, None)
            R.check(f"C13.reach[{path.split('::')[1]},{label}]", path + ".v_Expression",
                    step.raised is None and sorted(id(x) for x, _ in step.visits) == sorted(id(k) for k in kids),
                    detail=f"visited {[getattr(x, 'tag', '?') for x, _ in step.visits]} of {[getattr(k, 'tag', '?') for k in kids]}; raised={step.raised!r}")


@family("C13.drop", props=["C13", "C04"], functions=["nsl.passes.ComputeTypes::ComputeTypeVisitor._ProcessExpression"],
        assumptions=["modular cut: PrimitiveType.__eq__ structural"])
def c13_drop(R):
    """The type of p[i] drops exactly the first dimension: Array(s1..sk) -> Array(s2..sk) (element type for k = 1), Vector(c,n) -> c,
    Matrix(c,r,k) -> Vector(c,k); the index must be scalar.  Sizes symbolic."""
    CT = resolve("nsl.passes.ComputeTypes::ComputeTypeVisitor")
    a = ag.A()
    ty = tc._types()
    for kind in PARENT_KINDS:
        def run(ctx, kind=kind):
            T, sizes = _parent_shapes(ctx)[kind]()
            scope = ty.Scope()
            scope.RegisterVariable("p", T)
            scope.RegisterVariable("i", ty.Integer())
            node = a.ArrayExpression(a.PrimaryExpression("p"), a.PrimaryExpression("i"))
            v = CT()
            with tc.eq_cut():
                got = v._ProcessExpression(node, scope)
            if kind == "vector":
                ok = z3.BoolVal(isinstance(got, ty.Float))
            elif kind == "matrix":
                ok = tc.same(tc.desc(got), ("V", "f", (sizes[1].t,))) if isinstance(got, ty.VectorType) else z3.BoolVal(False)
            elif kind == "array-rank1":
                ok = z3.BoolVal(isinstance(got, ty.Integer))
            else:
                if isinstance(got, ty.ArrayType) and len(got.GetSize()) == len(sizes) - 1 and isinstance(got.GetComponentType(), ty.Integer):
                    ok = z3.And(*[term(x) == s.t for x, s in zip(got.GetSize(), sizes[1:])])
                else:
                    ok = z3.BoolVal(False)
            return [("drops-first-dimension", ok, f"type of p[i] for {kind} is {type(got).__name__}"),
                    ("recorded-on-node", z3.BoolVal(node.GetType() is got))]

        verify(R, "C13.drop", "nsl.passes.ComputeTypes::ComputeTypeVisitor._ProcessExpression", run, label=kind)

    # one visitor types every access of a module: the row type of an access does not depend on the accesses typed before it (arrays that agree
    # in some dimensions and differ in others, in both orders; the bounds pass checks constants against these types)
    shapes = [(2, 3, 4), (2, 3, 6), (5, 3, 4), (2, 3), (2, 4), (3, 3), (2, 3, 4, 2), (2, 3, 4, 5)]
    bad = []
    for s1, s2 in itertools.permutations(shapes, 2):
        scope = ty.Scope()
        scope.RegisterVariable("p", ty.ArrayType(ty.Integer(), list(s1)))
        scope.RegisterVariable("q", ty.ArrayType(ty.Integer(), list(s2)))
        scope.RegisterVariable("i", ty.Integer())
        v = CT()
        try:
            v._ProcessExpression(a.ArrayExpression(a.PrimaryExpression("p"), a.PrimaryExpression("i")), scope)
            got = v._ProcessExpression(a.ArrayExpression(a.PrimaryExpression("q"), a.PrimaryExpression("i")), scope)
            if not (isinstance(got, ty.ArrayType) and [int(x) for x in got.GetSize()] == list(s2[1:])):
                bad.append((s1, s2, repr(got)))
        except Exception as e:
            bad.append((s1, s2, f"{type(e).__name__}: {e}"))
    w = bad[0] if bad else None

    def _decl(name, shape):
        return "int" + "".join(f"[{d}]" for d in shape) + f" {name};"

    R.check("C13.drop.sequence", "nsl.passes.ComputeTypes::ComputeTypeVisitor._ProcessExpression", not bad,
            detail=f"{len(bad)} of {len(shapes) * (len(shapes) - 1)} ordered pairs of arrays: the type of q[i] after p[i] was typed by the same visitor is wrong, e.g. {bad[:3]}",
            replay=script("""
                import io, contextlib
                from nsl import Compiler
                s1, s2 = {{s1}}, {{s2}}
                decl = lambda n, s: 'int' + ''.join('[%d]' % d for d in s) + ' ' + n + ';'
                res = []
                for last, want in ((s2[-1] - 1, 'accepted'), (s2[-1], 'rejected')):
                    idx1 = ''.join('[0]' for _ in s1)
                    idx2 = ''.join('[%d]' % (d - 1) for d in s2[:-1]) + '[%d]' % last
                    src = decl('p', s1) + ' ' + decl('q', s2) + ' export function f() -> int { return p%s + q%s; }' % (idx1, idx2)
                    try:
                        with contextlib.redirect_stdout(io.StringIO()):
                            r = Compiler.Compiler().Compile(src)
                    except BaseException as e:
                        r = None
                    got = 'accepted' if r is not None else 'rejected'
                    print(src, '->', got, '; C13 expects', want)
                    res.append(got == want)
                if not all(res): print('REPLAY-CONFIRMED')
                """, s1=list(w[0]), s2=list(w[1])) if w else None)


ALPHA = "xyzwrgba?"


def _mask_ok(mask):
    if any(c not in "xyzwrgba" for c in mask):
        return False
    return not (any(c in "xyzw" for c in mask) and any(c in "rgba" for c in mask))


def _mask_max(mask):
    idx = {"x": 0, "y": 1, "z": 2, "w": 3, "r": 0, "g": 1, "b": 2, "a": 3}
    return max(idx[c] for c in mask)


@family("C13.mask", props=["C13"], functions=[SWZ + "::ValidateSwizzleMask", "nsl.Utility::ContainsAnyOf"],
        assumptions=["finite domain enumerated completely: all 7380 strings of length 1-4 over xyzwrgba plus one foreign symbol"])
def c13_mask(R):
    """ValidateSwizzleMask(s) raises iff s has a letter outside xyzwrgba or letters from both sets."""
    f = resolve(SWZ + "::ValidateSwizzleMask")
    import nsl.Errors as E
    bad = []
    n = 0
    for k in (1, 2, 3, 4):
        for tup in itertools.product(ALPHA, repeat=k):
            s = "".join(tup)
            n += 1
            try:
                f(s)
                raised = False
            except E.CompileException:
                raised = True
            if raised == _mask_ok(s):
                bad.append(s)
    R.check("C13.mask[all-7380]", SWZ + "::ValidateSwizzleMask", not bad and n == 7380,
            detail=f"{len(bad)} of {n} masks misjudged, e.g. {bad[:5]}",
            replay=script("""
                from nsl.passes.ValidateSwizzle import ValidateSwizzleMask
                s = {{s}}
                try:
                    ValidateSwizzleMask(s); out = 'accepted'
                except Exception as e:
                    out = 'rejected'
                print(repr(s), out, '; expected', {{want}})
                if out != {{want}}: print('REPLAY-CONFIRMED')
                """, s=bad[0], want="accepted" if _mask_ok(bad[0]) else "rejected") if bad else None)


@family("C13.swizzle", props=["C13", "C05"], functions=[SWZ + "::ValidateSwizzleMaskVisitor.v_MemberAccessExpression", SWZ + "::ValidateSwizzleMask"],
        assumptions=["finite domain enumerated completely: 7380 masks x vector sizes 1-4 (the member node carries the mask as the parser builds it: a PrimaryExpression)"])
def c13_swizzle(R):
    """The swizzle pass clears `valid` iff the parent is a vector and the mask violates the letter rules or names a component the vector
    does not have; the access chain below the swizzle is visited; member accesses on structs are left alone."""
    cls = resolve(SWZ + "::ValidateSwizzleMaskVisitor")
    a = ag.A()
    ty = tc._types()
    for n in (1, 2, 3, 4):
        bad = []
        cnt = 0
        for k in (1, 2, 3, 4):
            for tup in itertools.product(ALPHA, repeat=k):
                s = "".join(tup)
                cnt += 1
                vis = cls()
                vis.SetErrorHandler(_handler())
                node = a.MemberAccessExpression(ag.E("p", ty.VectorType(ty.Float(), n)), a.PrimaryExpression(s))
                step = ag.visitor_step(vis, node, None)
                want_valid = _mask_ok(s) and _mask_max(s) < n
                if vis.valid != want_valid or step.raised is not None:
                    bad.append((s, vis.valid, repr(step.raised)))
        w = bad[0] if bad else None
        R.check(f"C13.swizzle[vector{n}]", SWZ + "::ValidateSwizzleMaskVisitor.v_MemberAccessExpression", not bad,
                detail=f"{len(bad)} of {cnt} masks misjudged on a {n}-vector, e.g. {bad[:4]}",
                replay=script("""
                    import io, contextlib
                    from nsl import Compiler
                    n, mask = {{n}}, {{mask}}
                    k = len(mask)
                    rt = 'float' if k == 1 else 'float%d' % k
                    src = 'export function f(float%d v) -> %s { return v.%s; }' % (max(n, 2), rt, mask)
                    try:
                        with contextlib.redirect_stdout(io.StringIO()):
                            r = Compiler.Compiler().Compile(src)
                    except BaseException as e:
                        r = None; print('rejected by', type(e).__name__, e)
                    print(src, '->', 'accepted' if r is not None else 'rejected', '; C13 expects', {{want}})
                    if (r is None) != ({{want}} == 'rejected'): print('REPLAY-CONFIRMED')
                    """, n=n, mask=w[0].replace("?", "q"), want="accepted" if (_mask_ok(w[0]) and _mask_max(w[0]) < max(n, 2)) else "rejected") if w and n >= 2 else None)
    # a module contains many swizzles and ONE visitor judges them all: the verdict on a swizzle does not depend on the swizzles judged before it
    # (the same mask on a wider vector, on a vector of another component type, on the same vector)
    for n1, n2 in ((4, 3), (4, 2), (3, 2), (2, 4), (3, 3), (4, 4)):
        bad, cnt = [], 0
        for k in (1, 2, 3, 4):
            for tup in itertools.product(ALPHA, repeat=k):
                s = "".join(tup)
                if not (_mask_ok(s) and _mask_max(s) < n1):
                    continue                      # (`valid` is sticky: only an accepted first swizzle leaves the second one's verdict visible)
                for c2 in (ty.Float(), ty.Integer()):
                    cnt += 1
                    vis = cls()
                    vis.SetErrorHandler(_handler())
                    ag.visitor_step(vis, a.MemberAccessExpression(ag.E("p", ty.VectorType(ty.Float(), n1)), a.PrimaryExpression(s)), None)
                    first_ok = vis.valid
                    step = ag.visitor_step(vis, a.MemberAccessExpression(ag.E("q", ty.VectorType(c2, n2)), a.PrimaryExpression(s)), None)
                    want_valid = _mask_max(s) < n2
                    if first_ok is True and (vis.valid != want_valid or step.raised is not None):
                        bad.append((s, vis.valid, repr(step.raised)))
        w = bad[0] if bad else None
        R.check(f"C13.swizzle.sequence[vector{n1},vector{n2}]", SWZ + "::ValidateSwizzleMaskVisitor.v_MemberAccessExpression", not bad,
                detail=f"{len(bad)} of {cnt} (mask, component type) pairs misjudged on a {n2}-vector after the same mask was accepted on a {n1}-vector by the same visitor, e.g. {bad[:4]}",
                replay=script("""
                    import io, contextlib
                    from nsl import Compiler
                    n1, n2, mask = {{n1}}, {{n2}}, {{mask}}
                    k = len(mask)
                    rt = 'float' if k == 1 else 'float%d' % k
                    src = 'export function f(float%d v, float%d w) -> %s { %s t = v.%s; return w.%s; }' % (n1, n2, rt, rt, mask, mask)
                    try:
                        with contextlib.redirect_stdout(io.StringIO()):
                            r = Compiler.Compiler().Compile(src)
                    except BaseException as e:
                        r = None; print('rejected by', type(e).__name__, e)
                    print(src, '->', 'accepted' if r is not None else 'rejected', '; C13 expects', {{want}})
                    if (r is None) != ({{want}} == 'rejected'): print('REPLAY-CONFIRMED')
                    """, n1=n1, n2=n2, mask=w[0], want="accepted" if _mask_max(w[0]) < n2 else "rejected") if w else None)
    # structs are not swizzles; the parent chain is visited
    vis = cls()
    vis.SetErrorHandler(_handler())
    node = a.MemberAccessExpression(ag.E("p", ty.StructType("S", {"xq": ty.Integer()})), a.PrimaryExpression("xq"))
    step = ag.visitor_step(vis, node, None)
    R.check("C13.swizzle[struct-member]", SWZ + "::ValidateSwizzleMaskVisitor.v_MemberAccessExpression", vis.valid is True and step.raised is None,
            detail=f"valid={vis.valid} raised={step.raised!r}")
    vis = cls()
    vis.SetErrorHandler(_handler())
    node = a.MemberAccessExpression(ag.E("p", ty.VectorType(ty.Float(), 4)), a.PrimaryExpression("xy"))
    step = ag.visitor_step(vis, node, None)
    R.check("C13.swizzle.reach-parent", SWZ + "::ValidateSwizzleMaskVisitor.v_MemberAccessExpression", [getattr(x, "tag", None) for x, _ in step.visits].count("p") == 1,
            detail=f"the expression below the swizzle is not visited (a swizzle nested in it would go unchecked): visited {[getattr(x, 'tag', '?') for x, _ in step.visits]}")


def _c13_programs():
    out = []
    # arrays: every dimension of an access chain, constants from -1 to size+1
    for dims in ([2], [3], [2, 3], [3, 2], [2, 1], [2, 3, 2]):
        decl = "int" + "".join(f"[{d}]" for d in dims) + " a;"
        for pos in range(len(dims)):
            for v in range(-1, dims[pos] + 2):
                idx = ["0"] * len(dims)
                idx[pos] = str(v)
                src = f"{decl}\nexport function f() -> int {{ return a{''.join('[' + i + ']' for i in idx)}; }}"
                out.append((src, v < 0 or v >= dims[pos]))
    for n in (2, 3, 4):
        for v in range(-1, n + 2):
            out.append((f"export function f(float{n} a) -> float {{ return a[{v}]; }}", v < 0 or v >= n))
    for n in (3, 4):
        for pos in (0, 1):
            for v in range(-1, n + 2):
                idx = ["0", "0"]
                idx[pos] = str(v)
                out.append((f"export function f(float{n}x{n} a) -> float {{ return a[{idx[0]}][{idx[1]}]; }}", v < 0 or v >= n))
    # index types
    for t, rej in (("int", False), ("uint", False), ("float", True), ("float2", True), ("int2", True)):
        out.append((f"int[4] a;\nexport function f({t} i) -> int {{ return a[i]; }}", rej))
    out.append(("int[4] a;\nexport function f() -> int { return a[1.0]; }", True))
    out.append(("int[4] a;\nint[4] b;\nexport function f(float x) -> int { return a[b[x]]; }", True))
    out.append(("int[4] a;\nint[4] b;\nexport function f(int x) -> int { return a[b[x]]; }", False))
    # writes and nested positions
    out.append(("int[2][3] a;\nexport function f() -> void { a[2][0] = 1; }", True))
    out.append(("int[2][3] a;\nexport function f() -> void { a[1][2] = 1; }", False))
    out.append(("int[2] a;\nint[3] b;\nexport function f() -> int { return a[b[3]]; }", True))
    out.append(("int[2] a;\nexport function f(int x) -> int { int y = a[2]; return y; }", True))
    return out


def _mk_c13_e2e(part, parts=4):
    @family(f"C13.e2e.{part}", props=["C13"], functions=["nsl.Compiler::Compiler.Compile", OOB, AAT],
            assumptions=["BOUNDED stand-in (never counted as proved): array shapes of rank 1-3, vectors, matrices x constant indices from -1 to size+1 at every dimension; index types; nested positions; compiled end to end"])
    def f(R, part=part):
        progs = [p for i, p in enumerate(_c13_programs()) if i % parts == part]
        bads = []
        for src, rej in progs:
            r, exc = tc.compile_quiet(src)
            if (r is None) != rej:
                bads.append((src, rej, r is None, exc))
        if not bads:
            R.bounded(f"C13.e2e[{part}/{parts}]", "nsl.Compiler::Compiler.Compile", True, len(progs), detail=f"{len(progs)} programs; accept/reject agrees")
        for k, bad in enumerate(bads[:40]):
            det = f"{'rejected' if bad[2] else 'accepted'}, C13 says {'reject' if bad[1] else 'accept'}: {bad[0]}"
            rp = script("""
                import io, contextlib
                from nsl import Compiler
                src = {{src}}
                try:
                    with contextlib.redirect_stdout(io.StringIO()):
                        r = Compiler.Compiler().Compile(src)
                except BaseException as e:
                    r = None; print('rejected by', type(e).__name__, e)
                print(src); print('->', 'accepted' if r is not None else 'rejected', '; C13 expects', {{want}})
                if (r is None) != ({{want}} == 'rejected'): print('REPLAY-CONFIRMED')
                """, src=bad[0], want="rejected" if bad[1] else "accepted")
            import hashlib
            R.bounded(f"C13.e2e[{bad[0].splitlines()[0][:24]}|{bad[0].split('{')[1].split('}')[0].strip()}]", "nsl.Compiler::Compiler.Compile", False, 1, detail=det, replay=rp)
    f.__doc__ = "Bounded end-to-end check of constant bounds, index type and nested positions."
    return f


for _p in range(4):
    _mk_c13_e2e(_p)


# ---------------------------------------------------------------------------
# valid is monotone: once cleared, no visit of any node sets it again

VALIDATORS = [(OOB, ["C13"], lambda v: None), (AAT, ["C13"], lambda v: None), (SWZ + "::ValidateSwizzleMaskVisitor", ["C13"], lambda v: None),
              (VF, ["C11"], lambda v: 1), (VN, ["C12"], lambda v: v.Context(v.GetContext())),
              ("nsl.passes.ValidateExportedFunctions::ValidateExportedFunctionsVisitor", ["C05"], lambda v: None)]


def _mk_monotone(path, props, mkctx):
    name = path.split("::")[1]

    @family(f"V.monotone.{name}", props=props, functions=[path], assumptions=["induction on tree height with opaque children: the hypothesis for a child visit is 'valid is not set back to True'"])
    def f(R, path=path, mkctx=mkctx):
        cls = resolve(path)
        import nsl.types as ty
        a = ag.A()
        for label, mk in ag.all_shapes().items():
            node, _ = mk()
            kind = type(node).__name__
            if kind == "ArrayExpression":
                node = a.ArrayExpression(ag.E("p", ty.ArrayType(ty.Integer(), [4])), ag.E("i", ty.Integer()))
            if kind == "MemberAccessExpression":
                node = a.MemberAccessExpression(ag.E("p", ty.VectorType(ty.Float(), 4)), a.PrimaryExpression("xy"))
            if kind == "Function":
                args = [a.Argument(ty.Integer(), "p0")]
                args[0].SetLocation(_loc("p0"))
                node = a.Function("f", args, ty.Integer(), ag.S("body"), isExported=True)
            if kind == "VariableDeclaration":
                node.SetLocation(_loc("v"))
            vis = cls()
            vis.SetErrorHandler(_handler())
            vis.valid = False
            try:
                step = ag.visitor_step(vis, node, mkctx(vis) if mkctx is not None else None)
                ok = vis.valid is False
                det = f"visiting a {kind} node set valid back to {vis.valid!r} (an earlier error in the module would be forgotten)"
            except Exception as e:
                ok, det = False, f"harness: {type(e).__name__}: {e}"
            R.check(f"V.monotone[{name},{label}]", path, ok, detail=det)
    f.__doc__ = f"{name}: once `valid` is False, visiting any node class leaves it False (the verdict of the pass is the conjunction over the whole tree)."
    return f


for _v in VALIDATORS:
    _mk_monotone(*_v)


# ---------------------------------------------------------------------------
# AddImplicitCasts: reaches every expression, and leaves call / constructor / index operands at the required type (C03, C05, C09)

AIC = "nsl.passes.AddImplicitCasts::AddImplicitCastVisitor"


@family("CASTS.visit", props=["C03", "C05", "C09", "C01", "C04"], functions=[AIC + ".v_CallExpression", AIC + ".v_ConstructPrimitiveExpression", AIC + ".v_BinaryExpression", AIC + ".v_ArrayExpression", AIC + "._GetTargetType"],
        assumptions=["induction on tree height with opaque (typed) children; argument / parameter types enumerated over int, float, uint, float2, int2, float4, int4"])
def casts_visit(R):
    """The cast pass visits every child of every node class exactly once (so casts are also inserted in calls nested in arguments, constructor
    arguments and index expressions), and afterwards every argument of a call has the component type of its parameter, every constructor
    argument the component type of the constructed type, each binary operand the resolver's operand type -- by wrapping the argument in an
    implicit cast of the argument's own shape, never by reordering or dropping arguments."""
    cls = resolve(AIC)
    a = ag.A()
    import nsl.types as ty
    import nsl.op as op
    from .overload_c import make_function
    I, F, U = ty.Integer(), ty.Float(), ty.UnsignedInteger()
    # reach
    for label, mk in ag.all_shapes().items():
        node, _ = mk()
        kind = type(node).__name__
        if kind == "CallExpression":
            fn_t = make_function("h", [I, I][: len(node.GetArguments())])
            node = a.CallExpression(fn_t, [ag.E(f"e{i}", I) for i in range(len(node.GetArguments()))])
        elif kind == "ConstructPrimitiveExpression":
            node = a.ConstructPrimitiveExpression(ty.VectorType(F, 2), [ag.E("e0", F), ag.E("e1", F)])
        elif kind == "BinaryExpression":
            node = a.BinaryExpression(op.Operation.ADD, ag.E("l", I), ag.E("r", I))
            node.ResolveType(I, I)
        elif kind == "AssignmentExpression":
            node = a.AssignmentExpression(ag.E("l", I), ag.E("r", I))
            node.ResolveType(I, I)
        elif kind == "ArrayExpression":
            node = a.ArrayExpression(ag.E("p", ty.ArrayType(I, [4])), ag.E("i", I))
        elif label == "VariableDeclaration/init":
            node = a.VariableDeclaration(I, "v", ag.E("init", I))          # (every expression carries a type after the typing pass)
        elif label == "ReturnStatement/value":
            node = a.ReturnStatement(ag.E("e", I))
        kids = ag.children_of(node)
        vis = cls()
        try:
            step = ag.visitor_step(vis, node, None)
            ok = step.raised is None and sorted(id(x) for x, _ in step.visits) == sorted(id(k) for k in kids)
            det = f"visited {[getattr(x, 'tag', '?') for x, _ in step.visits]} of {[getattr(k, 'tag', type(k).__name__) for k in kids]}; raised={step.raised!r}"
        except Exception as e:
            ok, det = False, f"harness: {type(e).__name__}: {e}"
        # the same with operands that DO get a cast: a child that is wrapped in a cast must still be visited (the expression below it
        # needs its own casts)
        variants = []
        if kind == "ConstructPrimitiveExpression":
            variants = [("int-args", lambda: a.ConstructPrimitiveExpression(ty.VectorType(F, 2), [ag.E("e0", I), ag.E("e1", I)])),
                        ("mixed-args", lambda: a.ConstructPrimitiveExpression(ty.VectorType(F, 3), [ag.E("e0", ty.VectorType(I, 2)), ag.E("e1", F)]))]
        elif kind == "CallExpression" and len(node.GetArguments()) == 2:
            variants = [("converted-args", lambda: a.CallExpression(make_function("h", [F, F]), [ag.E("e0", I), ag.E("e1", F)]))]
        elif kind == "BinaryExpression":
            def mixed(lt, rt):
                n = a.BinaryExpression(op.Operation.ADD, ag.E("l", lt), ag.E("r", rt))
                n.ResolveType(lt, rt)
                return n
            variants = [("int+float", lambda: mixed(I, F)), ("float+int", lambda: mixed(F, I)), ("uint+int", lambda: mixed(U, I))]
        elif kind == "ArrayExpression":
            variants = [("uint-index", lambda: a.ArrayExpression(ag.E("p", ty.ArrayType(I, [4])), ag.E("i", U)))]
        for vl, mkv in variants:
            n2 = mkv()
            kids2 = ag.children_of(n2)
            try:
                st2 = ag.visitor_step(cls(), n2, None)
                ok2 = st2.raised is None and sorted(id(x) for x, _ in st2.visits) == sorted(id(k) for k in kids2)
                det2 = f"visited {[getattr(x, 'tag', '?') for x, _ in st2.visits]} of {[getattr(k, 'tag', type(k).__name__) for k in kids2]}; raised={st2.raised!r}"
            except Exception as e:
                ok2, det2 = False, f"harness: {type(e).__name__}: {e}"
            R.check(f"CASTS.reach[{label},{vl}]", AIC, ok2, detail=f"{kind}: {det2} (an operand that is wrapped in a cast must still be visited)")
        R.check(f"CASTS.reach[{label}]", AIC, ok, detail=f"{kind}: {det} (an expression nested below is never given its casts)",
                replay=script("""
                    import io, contextlib
                    from nsl import Compiler, LinearIR, VM
                    src = 'function g(int x) -> int { return x; }\\nfunction h(int x) -> int { return (x * 2); }\\nexport function f(float a) -> int { return h(g(a)); }'
                    with contextlib.redirect_stdout(io.StringIO()):
                        r = Compiler.Compiler().Compile(src)
                    l = LinearIR.Linker(); l.AddModule(r.IRModule)
                    got = VM.VirtualMachine(l.Link()).Invoke('f', a=1.5)
                    print(src); print('f(1.5) =', got, '; g takes an int: g(1.5) is g(1) = 1, h(1) = 2')
                    if got != 2: print('REPLAY-CONFIRMED')
                    """) if kind in ("CallExpression",) else None)
    # assignment, initialiser and return convert the value to the type of the target (C05: `int i = 1.5; a[i]` must not reach the VM with a
    # float index; C01: the value stored in an int variable is an int)
    SC = {"int": I, "float": F, "uint": U, "float2": ty.VectorType(F, 2), "int2": ty.VectorType(I, 2)}
    same_shape = [(x, y) for x in SC for y in SC if tc.desc(SC[x])[0] == tc.desc(SC[y])[0] and tc.desc(SC[x])[2] == tc.desc(SC[y])[2]]

    def converted(node_value, original, target_name, source_name):
        if tc.desc(SC[target_name])[1] == tc.desc(SC[source_name])[1]:
            return node_value is original
        return isinstance(node_value, a.CastExpression) and node_value.GetArgument() is original and repr(node_value.GetType()) == repr(SC[target_name])

    for tt, st in same_shape:
        l, r = ag.E("l", SC[tt]), ag.E("r", SC[st])
        n = a.AssignmentExpression(l, r)
        n.ResolveType(SC[tt], SC[st])
        cls().v_Generic(n, None)
        R.check(f"CASTS.assign[{tt} = {st}]", AIC + ".v_BinaryExpression", n.GetLeft() is l and converted(n.GetRight(), r, tt, st),
                detail=f"`{tt} l; l = <{st}>`: right-hand side after the pass is {type(n.GetRight()).__name__}:{n.GetRight().GetType()}")
        init = ag.E("init", SC[st])
        d = a.VariableDeclaration(SC[tt], "v", init)
        cls().v_Generic(d, None)
        R.check(f"CASTS.init[{tt} v = {st}]", AIC, converted(d.GetInitializerExpression(), init, tt, st),
                detail=f"`{tt} v = <{st}>`: initialiser after the pass is {type(d.GetInitializerExpression()).__name__}:{d.GetInitializerExpression().GetType()}")
        e = ag.E("e", SC[st])
        ret = a.ReturnStatement(e)
        fnode = a.Function("f", [], SC[tt], a.CompoundStatement([ret]))
        cls().v_Generic(fnode, None)
        R.check(f"CASTS.return[{tt} <- {st}]", AIC, converted(ret.GetExpression(), e, tt, st),
                detail=f"`function f() -> {tt} {{ return <{st}>; }}`: returned expression after the pass is {type(ret.GetExpression()).__name__}:{ret.GetExpression().GetType()}")
    # call arguments end up at the parameter's component type
    T = {"int": I, "float": F, "uint": U, "float2": ty.VectorType(F, 2), "int2": ty.VectorType(I, 2), "float4": ty.VectorType(F, 4), "int4": ty.VectorType(I, 4)}
    conv = [(x, y) for x in T for y in T if tc.desc(T[x])[0] == tc.desc(T[y])[0] and tc.desc(T[x])[2] == tc.desc(T[y])[2]]
    for at, pt in conv:
        fn_t = make_function("h", [T[pt], I])
        e0, e1 = ag.E("e0", T[at]), ag.E("e1", I)
        node = a.CallExpression(fn_t, [e0, e1])
        cls().v_Generic(node, None)
        args = node.GetArguments()
        ok = len(args) == 2 and args[1] is e1
        if ok:
            if tc.desc(T[at])[1] == tc.desc(T[pt])[1]:
                ok = args[0] is e0
            else:
                ok = isinstance(args[0], a.CastExpression) and args[0].GetArgument() is e0 and args[0].IsImplicit() and repr(args[0].GetType()) == repr(T[pt])
        R.check(f"CASTS.call[{at}->{pt}]", AIC + ".v_CallExpression", ok, detail=f"argument of type {at} for a parameter of type {pt}: arguments after the pass {[type(x).__name__ + ':' + str(x.GetType()) for x in args]}")
    for rt, ats in (("float4", ["int2", "int", "float"]), ("float2", ["int", "uint"]), ("int4", ["float2", "int2"]), ("float4", ["float4"]), ("int2", ["int", "int"])):
        es = [ag.E(f"e{i}", T[t]) for i, t in enumerate(ats)]
        node = a.ConstructPrimitiveExpression(T[rt], list(es))
        cls().v_Generic(node, None)
        args = node.GetArguments()
        want_c = tc.desc(T[rt])[1]
        ok = len(args) == len(es)
        for x, e, t in zip(args, es, ats):
            if tc.desc(T[t])[1] == want_c:
                ok = ok and x is e
            else:
                ok = ok and isinstance(x, a.CastExpression) and x.GetArgument() is e and tc.desc(x.GetType())[1] == want_c and tc.desc(x.GetType())[0] == tc.desc(T[t])[0] \
                    and [str(z3.simplify(d)) for d in tc.desc(x.GetType())[2]] == [str(z3.simplify(d)) for d in tc.desc(T[t])[2]]
        R.check(f"CASTS.construct[{rt}({','.join(ats)})]", AIC + ".v_ConstructPrimitiveExpression", ok, detail=f"arguments after the pass {[type(x).__name__ + ':' + str(x.GetType()) for x in args]}")


# ---------------------------------------------------------------------------
# Function names of an IR module are unique (C14: a call names ONE existing function with the same number of arguments)

VEF = "nsl.passes.ValidateExportedFunctions::ValidateExportedFunctionsVisitor"


@family("C14.names", props=["C14", "C10", "C03", "C05"],
        functions=[VEF + "._ValidateFunction", VEF + ".v_Function", "nsl.types::Function.GetMangledName", "nsl.passes.LowerToIR::LowerToIRVisitor.v_Function", "nsl.LinearIR::Module.CreateFunction"],
        assumptions=["sequences of up to 3 function declarations over names {a, b}, arities 0-2 and exported / not exported are enumerated completely for the validator (its state is a set of names: three declarations reach every transition)",
                     "end to end: a finite family of overload sets (exported and not, equal and different arity, equal parameter names)"])
def c14_names(R):
    """An exported function keeps its bare name in the IR, so two exported functions of one name -- whatever their parameter lists -- must be
    rejected; non-exported overloads get distinct mangled names.  Hence every defined source function has its own IR function, and a call
    (which carries only a name) reaches a function with the argument count it was resolved against."""
    import nsl.types as ty
    a = ag.A()
    cls = resolve(VEF)
    decls = [(n, k, e) for n in "ab" for k in (0, 1, 2) for e in (False, True)]
    bad = None
    cnt = 0
    for ln in (1, 2, 3):
        for seq in itertools.product(decls, repeat=ln):
            v = cls()
            v.SetErrorHandler(_handler())
            for n, k, e in seq:
                f = a.Function(n, [a.Argument(ty.Integer(), f"p{i}") for i in range(k)], ty.Integer(), ag.S("body"), isExported=e)
                ag.visitor_step(v, f, None)
            exported = [n for n, k, e in seq if e]
            want = len(exported) == len(set(exported))
            cnt += 1
            if bool(v.valid) != want and bad is None:
                bad = (seq, v.valid, want)
    R.check("C14.names.validator", VEF + "._ValidateFunction", bad is None,
            detail=f"{cnt} declaration sequences" if bad is None else f"declarations (name, arity, exported) {bad[0]}: valid={bad[1]}, but two exported functions share a name: {not bad[2]}",
            replay=None if bad is None else script("""
                import io, contextlib
                from nsl import Compiler
                src = {{src}}
                try:
                    with contextlib.redirect_stdout(io.StringIO()):
                        r = Compiler.Compiler().Compile(src)
                except BaseException as e:
                    r = None; print('rejected:', type(e).__name__, e)
                print(src, '->', 'accepted' if r is not None else 'rejected', '; expected', {{want}})
                if (r is not None) != ({{want}} == 'accepted'): print('REPLAY-CONFIRMED')
                """, src="\n".join(f"{'export ' if e else ''}function {n}({', '.join(f'int p{i}' for i in range(k))}) -> int {{ return {k}; }}" for n, k, e in (bad[0] if bad else ())),
                want="accepted" if (bad and bad[2]) else "rejected"))

    # end to end: one IR function per defined source function, calls reach a function of the right arity
    import nsl.LinearIR as IR
    fams = {
        "exported-arity": ["export function h(int a) -> int { return 1; }", "export function h(int a, int b) -> int { return 2; }"],
        "exported-types": ["export function h(int a) -> int { return 1; }", "export function h(float a) -> int { return 2; }"],
        "exported+private": ["export function h(int a) -> int { return 1; }", "function h(int a, int b) -> int { return 2; }"],
        "private-arity": ["function h(int a) -> int { return 1; }", "function h(int a, int b) -> int { return 2; }"],
        "private-types-same-names": ["function h(int a) -> int { return 1; }", "function h(float a) -> int { return 2; }", "function h(float2 a) -> int { return 3; }"],
        "private-three": ["function h(int a, float b) -> int { return 1; }", "function h(float a, int b) -> int { return 2; }", "function h(int a) -> float { return 3.0; }"],
    }
    for label, fs in fams.items():
        for perm in itertools.permutations(fs):
            ncalls = [(f.split("(")[1].split(")")[0].count(",") + 1) for f in perm]
            src = "\n".join(perm) + "\nexport function main(int x) -> int { return x; }"
            r, exc = tc.compile_quiet(src)
            nexp = sum(1 for f in perm if f.startswith("export function h"))
            oid = f"C14.names.e2e[{label},{'/'.join(str(fs.index(p)) for p in perm)}]"
            if nexp > 1:
                R.check(oid, VEF + "._ValidateFunction", r is None, detail=f"two exported functions named h must be rejected:\n{src}")
                continue
            if r is None:
                R.check(oid, "nsl.Compiler::Compiler.Compile", False, detail=f"rejected ({exc!r}):\n{src}")
                continue
            names = list(r.IRModule.Functions.keys())
            R.check(oid, "nsl.LinearIR::Module.CreateFunction", len(names) == len(perm) + 1 and len(set(names)) == len(names),
                    detail=f"{len(perm) + 1} source functions but IR functions {names} (an overload overwrote another one)")



@family("C12.typing-scopes", props=["C12", "C05"], functions=["nsl.passes.ComputeTypes::ComputeTypeVisitor.v_CompoundStatement", "nsl.passes.ComputeTypes::ComputeTypeVisitor.v_ForStatement",
                                                            "nsl.passes.ComputeTypes::ComputeTypeVisitor.v_DoStatement", "nsl.passes.ComputeTypes::ComputeTypeVisitor.v_WhileStatement",
                                                            "nsl.passes.ComputeTypes::ComputeTypeVisitor.v_IfStatement"],
        assumptions=["induction on tree height with opaque children (the child visit is answered by 'leaves the scope stack as it found it')"])
def c12_typing_scopes(R):
    """The typing pass mirrors the block structure: every scope node visits its children with a scope stack that is one deeper than the incoming
    one (chained to it), and leaves the stack exactly as it found it -- a scope that stayed on the stack would keep the variables of a closed
    block visible to the code after it."""
    import nsl.types as ty
    cls = resolve("nsl.passes.ComputeTypes::ComputeTypeVisitor")
    for label, mk in ag.statement_shapes().items():
        node, _ = mk()
        kind = type(node).__name__
        if kind not in SCOPE_NODES or kind == "Function" or not ag.children_of(node):
            continue
        v = cls()
        outer = ty.Scope()
        stack = [outer]
        depths = []

        def hyp(child, c, step):
            depths.append((len(c), c[-1] is not outer, c[0] is outer))

        step = ag.visitor_step(v, node, stack, hyp)
        ok = step.raised is None and len(stack) == 1 and stack[0] is outer and bool(depths) and all(d == (2, True, True) for d in depths)
        R.check(f"C12.typing-scopes[{label}]", "nsl.passes.ComputeTypes::ComputeTypeVisitor.v_" + kind, ok,
                detail=f"scope stack after the node: depth {len(stack)} (must be 1); children saw (depth, own scope, chained to the outer one): {depths}; raised {step.raised!r}",
                replay=script("""
                    import io, contextlib
                    from nsl import Compiler
                    src = 'export function f(int p) -> int { int o = 1; { int x = 5; int i = 0; do { i = (i + 1); } while (i < 3) o = i; } return x; }'
                    try:
                        with contextlib.redirect_stdout(io.StringIO()):
                            r = Compiler.Compiler().Compile(src)
                    except BaseException as e:
                        r = None; print('rejected by', type(e).__name__, e)
                    print(src, '->', 'accepted' if r is not None else 'rejected', '; x is out of scope at the return: C12 expects rejected')
                    if r is not None: print('REPLAY-CONFIRMED')
                    """))
