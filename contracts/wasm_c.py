"""C19 (and the byte-level parts of C06/C07): contracts on nsl.WebAssembly writers.

Every obligation runs the *real* writer on symbolic integers / opaque strings
and proves that a standard LEB128 decoder (contracts/leb.py) applied to the
bytes it produced recovers what was written, for the full 32-bit ranges."""
from __future__ import annotations

import z3

from pyvc.core import family, resolve, Missing
from pyvc.sym import SymInt, sym_bytes, term, is_sym
from pyvc.util import patched, script
from pyvc.verify import verify
from . import leb

W = "nsl.WebAssembly"
SHIMS = "shims bound in nsl.WebAssembly globals during verification: bytes->sym_bytes, len->sym_len, io->ChunkIO recorder"


def _mod():
    import nsl.WebAssembly as m
    return m


def _shimmed():
    m = _mod()
    return patched(m, bytes=sym_bytes, len=leb.sym_len, io=leb.FakeIO)


def _out_atoms(res):
    return leb.flatten(res)


# ---------------------------------------------------------------------------
@family("C19.leb.unsigned", props=["C19", "C06", "C07"], functions=[W + "::PackInteger", W + "::WriteInteger"],
        assumptions=[SHIMS, "math.ceil(bit_length()/7) evaluated over the reals (A2): exact, the quotient of two small integers"])
def leb_unsigned(R):
    """forall v in [0,2^32): PackInteger(v) is well-formed unsigned LEB128, <=5 bytes, decodes to v."""
    m = _mod()
    f = resolve(W + "::PackInteger")
    wi = resolve(W + "::WriteInteger")

    def run(ctx):
        v = ctx.int("v")
        ctx.assume(v >= 0)
        ctx.assume(v < 2 ** 32)
        with _shimmed():
            res = f(v)
        atoms = _out_atoms(res)
        val, pos, wf = leb.udec_stream(atoms, 0)
        return [("wellformed", z3.And(*wf)), ("decodes", val == v.t), ("consumed", pos == len(atoms)),
                ("length", len(atoms) <= 5),
                # the exact length (minimal encoding): this is the definition of uleblen that the section writers' contracts use
                ("length-exact", z3.IntVal(len(atoms)) == leb.uleblen_def(v.t))]

    def replay(model, clause):
        return script("""
            import nsl.WebAssembly as W
            {{dec}}
            v = {{v}}
            bs = W.PackInteger(v)
            d, pos = udec(bs)
            n = 1
            while (v >> (7 * n)) > 0: n += 1
            print('PackInteger', v, '->', bs.hex(), 'decodes to', d, '; minimal length', n)
            if d != v or pos != len(bs) or len(bs) != n: print('REPLAY-CONFIRMED')
            """.replace("{{dec}}", leb.PY_DECODERS), v=model.get("v", 0))

    verify(R, "C19.leb.unsigned", W + "::PackInteger", run, replay)

    # canary: the same clause with an off-by-one must fail (vacuity guard)
    def run_c(ctx):
        v = ctx.int("v")
        ctx.assume(v >= 0)
        ctx.assume(v < 2 ** 32)
        with _shimmed():
            res = f(v)
        atoms = _out_atoms(res)
        val, pos, wf = leb.udec_stream(atoms, 0)
        return [("c", val == v.t + 1)]

    from pyvc.sym import explore
    from pyvc import solver
    bad = 0
    for p in explore(run_c):
        if p.kind == "ok" and solver.prove(p.pc, p.out[0][1], both=False).status == "discharged":
            bad += 1
    if bad:
        R._rec("C19.leb.unsigned#canary", W + "::PackInteger", "crash", "z3", 0, "off-by-one canary was proved: vacuous")
    else:
        R.stats["canaries"] = R.stats.get("canaries", 0) + 1

    # WriteInteger writes exactly PackInteger's bytes
    def run_w(ctx):
        v = ctx.int("v")
        ctx.assume(v >= 0)
        ctx.assume(v < 2 ** 32)
        out = leb.ChunkIO()
        with _shimmed():
            wi(out, v)
        atoms = leb.flatten(out)
        val, pos, wf = leb.udec_stream(atoms, 0)
        return [("decodes", z3.And(val == v.t, pos == len(atoms), *wf))]

    verify(R, "C19.leb.write", W + "::WriteInteger", run_w)


# ---------------------------------------------------------------------------
def _instr(opname):
    m = _mod()
    try:
        return m.opcodes[opname]
    except Exception:
        raise Missing(f"opcode {opname}")


@family("C19.leb.signed", props=["C19", "C06"], functions=[W + "::Instruction.WriteTo"], assumptions=[SHIMS])
def leb_signed(R):
    """forall c in [-2^31,2^31): the immediate bytes of `i32.const c` decode, signed, to c."""
    m = _mod()
    Instr = resolve(W + "::Instruction")
    opc = _instr("i32.const")

    def run(ctx):
        c = ctx.int("c")
        ctx.assume(c >= -(2 ** 31))
        ctx.assume(c < 2 ** 31)
        out = leb.ChunkIO()
        with _shimmed():
            Instr(opc, (c,)).WriteTo(out)
        atoms = leb.flatten(out)
        goals = [("opcode", z3.And(len(atoms) >= 1, atoms[0] == opc) if atoms else False)]
        val, pos, wf = leb.sdec_stream(atoms, 1)
        goals += [("wellformed", z3.And(*wf)), ("decodes", val == c.t), ("consumed", pos == len(atoms))]
        return goals

    def replay(model, clause):
        return script("""
            import io, nsl.WebAssembly as W
            {{dec}}
            c = {{c}}
            out = io.BytesIO(); W.Instruction(W.opcodes['i32.const'], (c,)).WriteTo(out)
            bs = out.getvalue()
            d, pos = sdec(bs, 1)
            print('i32.const', c, '->', bs.hex(), 'immediate decodes (signed) to', d)
            if d != c or pos != len(bs): print('REPLAY-CONFIRMED')
            """.replace("{{dec}}", leb.PY_DECODERS), c=model.get("c", 0))

    verify(R, "C19.leb.signed", W + "::Instruction.WriteTo", run, replay)


@family("C19.leb.index", props=["C19", "C06", "C07"],
        functions=[W + "::Instruction.WriteTo", W + "::Export.WriteTo", W + "::Local.WriteTo", W + "::Table.WriteTo",
                   W + "::Memory.WriteTo"], assumptions=[SHIMS])
def leb_index(R):
    """Indices, counts and sizes are written as unsigned LEB128 that decodes to the value, over [0,2^32)."""
    m = _mod()
    Instr = resolve(W + "::Instruction")

    for opname in ("local.get", "local.set", "local.tee", "call", "global.get", "global.set", "br"):
        opc = _instr(opname)

        def run(ctx, opc=opc):
            i = ctx.int("i")
            ctx.assume(i >= 0)
            ctx.assume(i < 2 ** 32)
            out = leb.ChunkIO()
            with _shimmed():
                Instr(opc, (i,)).WriteTo(out)
            atoms = leb.flatten(out)
            val, pos, wf = leb.udec_stream(atoms, 1)
            return [("imm", z3.And(atoms[0] == opc, val == i.t, pos == len(atoms), *wf))]

        def replay(model, clause, opname=opname):
            return script("""
                import io, nsl.WebAssembly as W
                {{dec}}
                i = {{i}}
                out = io.BytesIO(); W.Instruction(W.opcodes[{{op}}], (i,)).WriteTo(out)
                bs = out.getvalue(); d, pos = udec(bs, 1)
                print({{op}}, i, '->', bs.hex(), 'decodes to', d)
                if d != i or pos != len(bs): print('REPLAY-CONFIRMED')
                """.replace("{{dec}}", leb.PY_DECODERS), i=model.get("i", 0), op=opname)

        verify(R, "C19.leb.index", W + "::Instruction.WriteTo", run, replay, label=opname)

    # an instruction without immediates writes exactly its opcode byte
    def run0(ctx):
        out = leb.ChunkIO()
        with _shimmed():
            Instr(_instr("i32.add")).WriteTo(out)
        atoms = leb.flatten(out)
        return [("bare", z3.And(len(atoms) == 1, atoms[0] == _instr("i32.add")))]

    verify(R, "C19.leb.index", W + "::Instruction.WriteTo", run0, label="no-immediate")

    # ---- the remaining writers are verified modularly: WriteInteger is cut by
    # its contract (ULEB chunk, precondition 0 <= v < 2^32 is the caller's obligation)
    def two(ctx):
        a, b = ctx.int("a"), ctx.int("b")
        for x in (a, b):
            ctx.assume(x >= 0)
            ctx.assume(x < 2 ** 32)
        out = leb.ChunkIO()
        stub = _LebCut()
        with _cut(stub):
            Instr(_instr("call_indirect"), (a, b)).WriteTo(out)
        atoms = leb.flatten(out)
        ok = len(atoms) == 3 and _is_uleb(atoms[1]) and _is_uleb(atoms[2])
        if not ok:
            return [("order", z3.BoolVal(False))]
        return [("order", z3.And(atoms[0] == _instr("call_indirect"), atoms[1].value == a.t, atoms[2].value == b.t)),
                ("leb-precondition", z3.And(*stub.requires))]

    verify(R, "C19.leb.index", W + "::Instruction.WriteTo", two, label="two-immediates")

    # Local: count then type
    Local = resolve(W + "::Local")
    VT = resolve(W + "::ValueType")

    for vt in (VT.i32, VT.f32):
        def runl(ctx, vt=vt):
            n = ctx.int("n")
            ctx.assume(n >= 1)
            ctx.assume(n < 2 ** 32)
            out = leb.ChunkIO()
            stub = _LebCut()
            with _cut(stub):
                Local(vt, n).WriteTo(out)
            atoms = leb.flatten(out)
            if not (len(atoms) == 2 and _is_uleb(atoms[0])):
                return [("local", z3.BoolVal(False))]
            return [("local", z3.And(atoms[0].value == n.t, atoms[1] == vt.value)), ("leb-precondition", z3.And(*stub.requires))]

        verify(R, "C19.leb.index", W + "::Local.WriteTo", runl, label=f"local-{vt.name}")

    # Export: name, kind byte 0, index
    Export = resolve(W + "::Export")

    def rune(ctx):
        i = ctx.int("i")
        ctx.assume(i >= 0)
        ctx.assume(i < 2 ** 32)
        bl = ctx.int("bl")
        ctx.assume(bl >= 0)
        ctx.assume(bl < 2 ** 32)
        name = _OpaqueStr("name", leb.Opaque("utf8(name)", bl))
        out = leb.ChunkIO()
        stub = _LebCut()
        with _cut(stub):
            Export(i, name).WriteTo(out)
        atoms = leb.flatten(out)
        if not (len(atoms) == 4 and _is_uleb(atoms[0]) and isinstance(atoms[1], leb.Opaque) and z3.is_expr(atoms[2]) and _is_uleb(atoms[3])):
            return [("export", z3.BoolVal(False))]
        return [("export", z3.And(atoms[0].value == bl.t, z3.BoolVal(atoms[1].name == "utf8(name)"), atoms[2] == 0, atoms[3].value == i.t)),
                ("leb-precondition", z3.And(*stub.requires))]

    def replay_e(model, clause):
        return script("""
            import io, nsl.WebAssembly as W
            {{dec}}
            i = {{i}}; name = 'f' + 'é' * 3
            out = io.BytesIO(); W.Export(i, name).WriteTo(out); bs = out.getvalue()
            n, p = udec(bs); nm = bs[p:p+n]; kind = bs[p+n]; idx, q = udec(bs, p+n+1)
            print('export', i, repr(name), '->', bs.hex(), 'decoded', n, nm, kind, idx)
            if nm != name.encode('utf-8') or kind != 0 or idx != i or q != len(bs): print('REPLAY-CONFIRMED')
            """.replace("{{dec}}", leb.PY_DECODERS), i=model.get("i", 0))

    verify(R, "C19.leb.index", W + "::Export.WriteTo", rune, replay_e, label="export")

    # Table: reftype, limits flag 0, min ; Memory: flag, min[, max]
    Table = resolve(W + "::Table")
    Memory = resolve(W + "::Memory")

    def runt(ctx):
        n = ctx.int("n")
        ctx.assume(n >= 0)
        ctx.assume(n < 2 ** 32)
        out = leb.ChunkIO()
        stub = _LebCut()
        with _cut(stub):
            Table(n).WriteTo(out)
        atoms = leb.flatten(out)
        if not (len(atoms) == 3 and _is_uleb(atoms[2])):
            return [("table", z3.BoolVal(False))]
        return [("table", z3.And(atoms[0] == 0x70, atoms[1] == 0, atoms[2].value == n.t)), ("leb-precondition", z3.And(*stub.requires))]

    verify(R, "C19.leb.index", W + "::Table.WriteTo", runt, label="table")

    def runm(ctx):
        lo, hi = ctx.int("lo"), ctx.int("hi")
        for x in (lo, hi):
            ctx.assume(x >= 0)
            ctx.assume(x < 2 ** 32)
        out = leb.ChunkIO()          # (a maximum of 0 is a maximum: `Memory(0, 0)` must not be written as "no maximum")
        stub = _LebCut()
        with _cut(stub):
            Memory(lo, hi).WriteTo(out)
        atoms = leb.flatten(out)
        if not (len(atoms) == 3 and _is_uleb(atoms[1]) and _is_uleb(atoms[2])):
            return [("memory", z3.BoolVal(False))]
        return [("memory", z3.And(atoms[0] == 1, atoms[1].value == lo.t, atoms[2].value == hi.t)), ("leb-precondition", z3.And(*stub.requires))]

    def replaym(model, clause):
        lo, hi = int(model.get("lo", 0)), int(model.get("hi", 0))
        return script("""
            import io, nsl.WebAssembly as W
            try:
                out = io.BytesIO(); W.Memory({{lo}}, {{hi}}).WriteTo(out); bs = out.getvalue()
            except BaseException as e:
                print('Memory(%d, %d).WriteTo raised' % ({{lo}}, {{hi}}), type(e).__name__, e); print('REPLAY-CONFIRMED'); raise SystemExit
            print('Memory(%d, %d) written as' % ({{lo}}, {{hi}}), bs.hex(), '; limits with a maximum are 01 <min> <max>')
            if len(bs) < 3 or bs[0] != 1: print('REPLAY-CONFIRMED')
            """, lo=lo, hi=hi)

    verify(R, "C19.leb.index", W + "::Memory.WriteTo", runm, replaym, label="memory-minmax")

    def runm0(ctx):
        lo = ctx.int("lo")
        ctx.assume(lo >= 0)
        ctx.assume(lo < 2 ** 32)
        out = leb.ChunkIO()
        stub = _LebCut()
        with _cut(stub):
            Memory(lo).WriteTo(out)
        atoms = leb.flatten(out)
        if not (len(atoms) == 2 and _is_uleb(atoms[1])):
            return [("memory", z3.BoolVal(False))]
        return [("memory", z3.And(atoms[0] == 0, atoms[1].value == lo.t)), ("leb-precondition", z3.And(*stub.requires))]

    verify(R, "C19.leb.index", W + "::Memory.WriteTo", runm0, label="memory-min")


class _OpaqueStr:
    """A name whose utf-8 encoding is an opaque blob of symbolic byte length,
    independent of its character count (so writing len(s) instead of
    len(s.encode()) cannot verify)."""

    def __init__(self, tag, blob):
        from pyvc.sym import cur
        self.tag = tag
        self.blob = blob
        # number of code points: a symbol of its own, related to the byte length only by the
        # UTF-8 bounds cl <= bl <= 4*cl
        self.char_len = cur().int("cl_" + tag)
        cur().assume(self.char_len >= 0)
        cur().assume(self.char_len <= blob.length)
        cur().assume(blob.length <= 4 * self.char_len)

    def encode(self, enc="utf-8", errors="strict"):
        if enc.lower().replace("-", "") != "utf8":
            from pyvc.sym import Unsupported
            raise Unsupported("name encoded with " + enc)
        return self.blob

    def __len__(self):
        from pyvc.sym import Unsupported
        raise Unsupported("character length of an opaque name")


@family("C19.string", props=["C19", "C07"], functions=[W + "::WriteString", W + "::PackString"],
        assumptions=[SHIMS, "str.encode('utf-8') is trusted; the name is an opaque string whose encoded length is an unconstrained symbol"])
def string(R):
    """WriteString(out, s) appends uleb(|utf8(s)|) ++ utf8(s)."""
    ws = resolve(W + "::WriteString")

    def run(ctx):
        bl = ctx.int("bl")
        ctx.assume(bl >= 0)
        ctx.assume(bl < 2 ** 32)
        s = _OpaqueStr("s", leb.Opaque("utf8(s)", bl))
        out = leb.ChunkIO()
        with _shimmed():
            ws(out, s)
        atoms = leb.flatten(out)
        n, p, wf = leb.udec_stream(atoms, 0)
        body = (p == len(atoms) - 1) and isinstance(atoms[-1], leb.Opaque) and atoms[-1].name == "utf8(s)"
        return [("prefix", z3.And(n == bl.t, *wf)), ("body", z3.BoolVal(bool(body)))]

    def replay(model, clause):
        return script("""
            import io, nsl.WebAssembly as W
            {{dec}}
            s = 'é' * max(1, min({{bl}} // 2, 200))
            out = io.BytesIO(); W.WriteString(out, s); bs = out.getvalue()
            n, pos = udec(bs)
            print(repr(s[:8]), len(s.encode()), '->', bs[:8].hex(), 'prefix', n)
            if n != len(s.encode('utf-8')) or bs[pos:] != s.encode('utf-8'): print('REPLAY-CONFIRMED')
            """.replace("{{dec}}", leb.PY_DECODERS), bl=model.get("bl", 2))

    verify(R, "C19.string", W + "::WriteString", run, replay)


# ---------------------------------------------------------------------------
# framing of sections and code bodies
#
# Modular step: inside the section writers, WriteInteger is *cut by its
# contract* (proved in C19.leb.unsigned / C19.leb.write for all v in [0,2^32)):
# the stub checks the precondition 0 <= v < 2^32 as an obligation of the caller
# and writes the abstract chunk ULEB(v), whose length is uleblen(v) with
# 1 <= uleblen(v) <= 5.

class _Entry:
    """An entry object whose WriteTo writes one opaque blob of symbolic length."""

    def __init__(self, name, length):
        self.blob = leb.Opaque(name, length)

    def WriteTo(self, output):
        output.write(self.blob)

    def Encode(self):
        io_ = leb.ChunkIO()
        io_.write(self.blob)
        return io_.getbuffer()


class _LebCut:
    """Contract stub for nsl.WebAssembly.WriteInteger."""

    def __init__(self):
        self.requires = []     # z3 Bools the caller must establish
        self.facts = []        # what the callee's contract guarantees

    def __call__(self, output, i):
        # behave like the real function on arguments it cannot work with (the real WriteInteger(output, i) calls output.write(...) and
        # does integer arithmetic on i): a caller that passes them the wrong way round fails in the real code, so it fails here
        if not hasattr(output, "write"):
            raise AttributeError(f"'{type(output).__name__}' object has no attribute 'write'")
        if isinstance(i, (leb.ChunkIO, bytes, str, list)) or hasattr(i, "write"):
            raise TypeError(f"unsupported operand type for the integer argument: '{type(i).__name__}'")
        t = term(i)
        self.requires.append(z3.And(t >= 0, t < 2 ** 32))
        fact = leb.uleblen(t) == leb.uleblen_def(t)      # proved for all v in [0, 2^32) by C19.leb.unsigned.length-exact
        self.facts.append(fact)
        try:
            # the callee's postcondition is known to the caller from here on (under its precondition): counter-models of later clauses
            # then give uleblen its real values instead of arbitrary ones
            from pyvc.sym import cur
            cur().pc.append(z3.Implies(z3.And(t >= 0, t < 2 ** 32), fact))
        except Exception:
            pass
        output.write(leb.ULEB(t))


def _cut(stub):
    m = _mod()
    return patched(m, bytes=sym_bytes, len=leb.sym_len, io=leb.FakeIO, WriteInteger=stub)


def _is_uleb(a):
    return isinstance(a, leb.ULEB)


def _frame_goals(atoms, section_id, entries, stub, per_entry_size_prefix=False):
    """[id] ++ uleb(|P|) ++ P  with  P = uleb(count) ++ entries (each optionally size-prefixed)."""
    goals = []
    if len(atoms) < 3:
        return [("id", z3.BoolVal(False))]
    goals.append(("id", atoms[0] == section_id if z3.is_expr(atoms[0]) else z3.BoolVal(False)))
    payload = atoms[2:]
    goals.append(("size", atoms[1].value == term(leb.atoms_len(payload)) if _is_uleb(atoms[1]) else z3.BoolVal(False)))
    goals.append(("count", atoms[2].value == len(entries) if _is_uleb(atoms[2]) else z3.BoolVal(False)))
    pos = 3
    ok = True
    conj = []
    for e in entries:
        if per_entry_size_prefix:
            if pos < len(atoms) and _is_uleb(atoms[pos]):
                conj.append(atoms[pos].value == e.blob.length.t)
                pos += 1
            else:
                ok = False
                break
        if pos < len(atoms) and atoms[pos] is e.blob:
            pos += 1
        else:
            ok = False
            break
    goals.append(("entries", z3.And(z3.BoolVal(ok and pos == len(atoms)), *conj)))
    goals.append(("leb-precondition", z3.Implies(z3.And(*stub.facts), z3.And(*stub.requires))))
    return goals


_SECTIONS = [
    ("TypeSection", "AddType", 1, False),
    ("TableSection", "Add", 4, False),
    ("MemorySection", "Add", 5, False),
    ("ExportSection", "Add", 7, False),
    ("CodeSection", "Add", 10, True),
]


@family("C19.frame", props=["C19", "C07"],
        functions=[W + f"::{s}.WriteTo" for s, _, _, _ in _SECTIONS] + [W + "::FunctionSection.WriteTo", W + "::Code.Encode"],
        assumptions=[SHIMS, "modular cut: WriteInteger is replaced by its contract (proved by C19.leb.unsigned/C19.leb.write on [0,2^32)) inside the section writers; its precondition is an obligation of the writer",
                     "entries are opaque blobs of unconstrained symbolic byte length (< 2^28 each; < 2^20 each for the large counts); the entry loop is executed for 0..3 and 128 entries (thorough tier: 0..6, 127, 128, 130, 300) -- the same loop body for every entry; the entry count is the only bounded parameter"])
def frame(R):
    """Each section writer appends nothing, or [id] ++ uleb(|payload|) ++ payload with payload = uleb(count) ++ entries;
    each code body is uleb(|body|) ++ body."""
    for sname, add, sid, prefixed in _SECTIONS:
        cls = resolve(W + "::" + sname)
        # entries per section: small counts, and counts whose own LEB128 encoding takes two bytes (128, 130) -- a size computed with
        # "1 byte for the count" is right below 128 and wrong from there on
        for k in ((0, 1, 2, 3, 128) if R.tier != "thorough" else (0, 1, 2, 3, 4, 5, 6, 127, 128, 130, 300)):
            def run(ctx, k=k, cls=cls, add=add, sid=sid, prefixed=prefixed, sname=sname):
                sec = cls()
                entries = []
                for j in range(k):
                    n = ctx.int(f"n{j}")
                    ctx.assume(n >= 0)
                    ctx.assume(n < (2 ** 28 if k <= 8 else 2 ** 20))      # (the whole section has to stay below 2^32 bytes)
                    e = _Entry(f"e{j}", n)
                    entries.append(e)
                    getattr(sec, add)(e)
                out = leb.ChunkIO()
                stub = _LebCut()
                with _cut(stub):
                    sec.WriteTo(out)
                atoms = leb.flatten(out)
                real_id = getattr(cls, "sectionId", None)
                if k == 0 and not atoms:
                    return [("empty-omitted", z3.BoolVal(True))]
                g = _frame_goals(atoms, sid, entries, stub, prefixed)
                g.append(("section-id-constant", z3.BoolVal(real_id == sid)))
                return g

            def replay(model, clause, sname=sname, add=add, k=k):
                sizes = [max(0, min(int(model.get(f"n{j}", 1)), 100000)) for j in range(k)]
                return script("""
                    import io, nsl.WebAssembly as W
                    {{dec}}
                    class E:
                        def __init__(s, n): s.n = n
                        def WriteTo(s, o): o.write(b'\\x2a' * s.n)
                        def Encode(s): return memoryview(b'\\x2a' * s.n)
                    prev = getattr(W, {{sname}})()          # a section object holds what was added to IT: another section of this process is none of its business
                    for n in (3, 5): getattr(prev, {{add}})(E(n))
                    prev.WriteTo(io.BytesIO())
                    sec = getattr(W, {{sname}})()
                    sizes = {{sizes}}
                    for n in sizes: getattr(sec, {{add}})(E(n))
                    out = io.BytesIO(); sec.WriteTo(out); bs = out.getvalue()
                    if bs:
                        size, p = udec(bs, 1); cnt, q = udec(bs, p)
                        def ulen(v):
                            n = 1
                            while v >= 128: v >>= 7; n += 1
                            return n
                        expected = (q - p) + sum(n + (ulen(n) if {{sname}} == 'CodeSection' else 0) for n in sizes)
                        print({{sname}}, sizes, 'id', bs[0], 'size field', size, 'actual payload', len(bs) - p, 'count', cnt, 'payload expected from the entries', expected)
                        if size != len(bs) - p or cnt != len(sizes) or len(bs) - p != expected: print('REPLAY-CONFIRMED')
                    elif sizes:
                        print({{sname}}, 'wrote nothing for', sizes); print('REPLAY-CONFIRMED')
                    """.replace("{{dec}}", leb.PY_DECODERS), sname=sname, add=add, sizes=sizes)

            verify(R, f"C19.frame.{sname}", W + f"::{sname}.WriteTo", run, replay, label=f"{k}-entries")

    # FunctionSection: entries are type indices (LEB) rather than blobs
    FS = resolve(W + "::FunctionSection")
    for k in ((0, 1, 2, 3) if R.tier != "thorough" else (0, 1, 2, 3, 4, 5, 6)):
        def runf(ctx, k=k):
            sec = FS()
            idx = []
            for j in range(k):
                i = ctx.int(f"i{j}")
                ctx.assume(i >= 0)
                ctx.assume(i < 2 ** 32)
                idx.append(i)
                sec.AddFunction(i)
            out = leb.ChunkIO()
            stub = _LebCut()
            with _cut(stub):
                sec.WriteTo(out)
            atoms = leb.flatten(out)
            if k == 0 and not atoms:
                return [("empty-omitted", z3.BoolVal(True))]
            if len(atoms) != 3 + k or not all(_is_uleb(a) for a in atoms[1:]):
                return [("shape", z3.BoolVal(False))]
            goals = [("id", atoms[0] == 3)]
            goals.append(("size", atoms[1].value == term(leb.atoms_len(atoms[2:]))))
            goals.append(("count", atoms[2].value == k))
            goals.append(("entries", z3.And(*[a.value == i.t for a, i in zip(atoms[3:], idx)])))
            goals.append(("leb-precondition", z3.Implies(z3.And(*stub.facts), z3.And(*stub.requires))))
            return goals

        verify(R, "C19.frame.FunctionSection", W + "::FunctionSection.WriteTo", runf, label=f"{k}-entries")

    # Code.Encode: uleb(#local groups) ++ groups ++ instructions ++ 0x0B
    Code = resolve(W + "::Code")
    Local = resolve(W + "::Local")
    VT = resolve(W + "::ValueType")
    for nl, ni in ((0, 0), (1, 2), (2, 1), (3, 0)):
        def runc(ctx, nl=nl, ni=ni):
            c = Code()
            for j in range(nl):
                c.AddLocal(Local(VT.i32))
            instrs = []
            for j in range(ni):
                n = ctx.int(f"n{j}")
                ctx.assume(n >= 0)
                ctx.assume(n < 2 ** 28)
                e = _Entry(f"ins{j}", n)
                instrs.append(e)
                c.AddInstruction(e)
            stub = _LebCut()
            with _cut(stub):
                buf = c.Encode()
            atoms = leb.flatten(buf)
            if not atoms or not _is_uleb(atoms[0]):
                return [("shape", z3.BoolVal(False))]
            # walk the declared groups: each is ULEB(count) ++ valtype byte
            p = 1
            g = 0
            total = z3.IntVal(0)
            while p + 1 < len(atoms) and _is_uleb(atoms[p]):
                total = total + atoms[p].value
                p += 2
                g += 1
            goals = [("local-groups", atoms[0].value == g), ("local-total", total == nl)]
            ok = True
            for e in instrs:
                if p < len(atoms) and atoms[p] is e.blob:
                    p += 1
                else:
                    ok = False
            goals.append(("instructions-in-order", z3.BoolVal(ok)))
            goals.append(("end-opcode", z3.And(z3.BoolVal(p == len(atoms) - 1), atoms[p] == 0x0B) if p < len(atoms) and z3.is_expr(atoms[p]) else z3.BoolVal(False)))
            goals.append(("leb-precondition", z3.Implies(z3.And(*stub.facts), z3.And(*stub.requires))))
            return goals

        verify(R, "C19.frame.Code", W + "::Code.Encode", runc, label=f"{nl}-locals,{ni}-instrs")


# ---------------------------------------------------------------------------------------------------------------------------------
# C19.frame.unbounded: the section writers for ANY number of entries -- the entry loop is cut at an inductive invariant (pyvc.loopcut).

_Z = z3.Function("entry_size", z3.IntSort(), z3.IntSort())        # Z(i): byte length of entry i
_TS = z3.Function("entries_bytes", z3.IntSort(), z3.IntSort())    # T(k): bytes the first k entries occupy in the payload (with their size prefixes where the section has them)


class _SymEntries:
    """The entry list of a section with a SYMBOLIC number n of entries."""

    def __init__(self, n, base=None):
        self.n = n
        self.sym_length = n
        self.base = base if base is not None else self

    def __bool__(self):
        from pyvc.sym import cur
        return cur().decide(self.n.t > 0)

    def __getitem__(self, i):
        # a prefix of the entries (`entries[:c]`): still entries 0, 1, ... in order, but possibly fewer of them
        if isinstance(i, slice) and i.start in (None, 0) and i.step in (None, 1) and (i.stop is None or (isinstance(i.stop, int) and i.stop >= 0)):
            return self if i.stop is None else _SymEntries(SymInt(z3.If(self.n.t < i.stop, self.n.t, z3.IntVal(i.stop))), self.base)
        from pyvc.sym import Unsupported
        raise Unsupported(f"entry list indexed by {i!r}")

    def __iter__(self):
        from pyvc.sym import Unsupported
        raise Unsupported("iteration over a symbolic-length entry list outside the cut loop")


class _KBlob:
    def __init__(self, k):
        self.k = term(k)
        self.sym_length = SymInt(_Z(self.k))


class _KEntry:
    """Entry k: writes / encodes to one opaque blob of Z(k) bytes."""

    def __init__(self, k):
        self.blob = _KBlob(k)

    def WriteTo(self, output):
        output.write(self.blob)

    def Encode(self):
        return self.blob


class _AbsView:
    def __init__(self, owner):
        self.owner = owner
        self.sym_length = SymInt(owner.nbytes)


class _AbsIO:
    """Abstraction of the payload buffer: what was written before the first entry (`head`, atoms), which entries were written in which order
    (`log`, a symbolic-length list of entry indices), how many bytes in all (`nbytes`), and obligations about size prefixes."""

    prefixed = False
    uleb_entries = False       # FunctionSection: an entry IS one unsigned LEB128 integer (a type index)
    allow_tail = False         # Code.Encode: raw bytes may follow the entries (the end opcode); nothing may follow them

    def __init__(self, initial=b""):
        from pyvc.sym import SymList
        self.head = []
        self.log = SymList(z3.K(z3.IntSort(), z3.IntVal(-1)), 0)
        self.nbytes = z3.IntVal(0)
        self.pend = None
        self.phase = "head"
        self.goals = []
        self.problems = []
        self.tail = []

    def write(self, x):
        if isinstance(x, leb.ULEB):
            self.nbytes = self.nbytes + leb.uleblen(x.value)
            if self.phase == "head":
                self.head.append(x)
            elif self.uleb_entries:
                self.log.append(SymInt(x.value))
            elif self.pend is None:
                self.pend = x
            else:
                self.problems.append("two integers in a row among the entries")
        elif isinstance(x, _KBlob):
            if self.tail:
                self.problems.append("an entry written after the closing bytes")
            self.phase = "entries"
            if self.prefixed:
                self.goals.append(("entry-size-prefix", (self.pend.value == _Z(x.k)) if self.pend is not None else z3.BoolVal(False)))
            elif self.pend is not None:
                self.problems.append("an integer written between the entries of a section whose entries carry no size prefix")
            self.pend = None
            self.log.append(SymInt(x.k))
            self.nbytes = self.nbytes + _Z(x.k)
        elif isinstance(x, _AbsView):
            self.problems.append("a buffer written into the payload")
        else:
            n = len(x) if isinstance(x, (bytes, bytearray)) else 1
            self.nbytes = self.nbytes + n
            if self.phase == "head":
                self.head.append(x)
            elif self.allow_tail and self.pend is None:
                self.tail.append(x)
            else:
                self.problems.append("raw bytes written among the entries")

    def getbuffer(self):
        return _AbsView(self)

    getvalue = getbuffer


class _RecIO:
    def __init__(self):
        self.rec = []

    def write(self, x):
        self.rec.append(x)


def _len3(x):
    n = getattr(x, "sym_length", None)
    return n if n is not None else leb.sym_len(x)


@family("C19.frame.unbounded", props=["C19", "C07"], functions=[W + f"::{s}.WriteTo" for s, _, _, _ in _SECTIONS] + [W + "::FunctionSection.WriteTo"],
        assumptions=[SHIMS, "modular cut: WriteInteger is replaced by its contract (C19.leb.unsigned / C19.leb.write); its precondition is an obligation of the writer",
                     "FunctionSection: entry i is the type index Z(i) in [0, 2^32), written as one uleb; the entry log then records the values written (log[i] = Z(i))",
                     "the number n >= 1 of entries is SYMBOLIC (no bound; n and the payload stay below 2^32); entry i writes / encodes to one opaque blob of Z(i) >= 0 bytes",
                     "entry loop cut mechanically (pyvc.loopcut) at the invariant Inv(k): the payload buffer holds uleb(n), then entries 0..k-1 in order (entry log: log[i] = i, proved for a fresh index), "
                     "each directly preceded by uleb(Z(i)) in the code section, T(k) bytes in all with T(0) = 0, T(k+1) = T(k) + Z(k) [+ uleblen(Z(k))]; no half-written prefix at an iteration boundary",
                     "the payload buffer is abstracted to (head atoms, entry log, byte count): raw bytes or buffers written among the entries are failures"])
def frame_unbounded(R):
    """Each section writer, for any number n >= 1 of entries: the output is [id] ++ uleb(|P|) ++ P with P = uleb(n) ++ entries in order (each code body
    preceded by uleb(|body|)) -- by induction over the entries (loop cut), not by enumerating entry counts."""
    from pyvc import loopcut
    from pyvc.sym import SymList, seq_view, All
    for sname, add, sid, prefixed in _SECTIONS + [("FunctionSection", "AddFunction", 3, False)]:
        cls = resolve(W + "::" + sname)
        FN = W + f"::{sname}.WriteTo"
        cutf = loopcut.cut(cls.WriteTo, 0)
        ints = sname == "FunctionSection"          # entries are type indices I(k) in [0, 2^32), each written as one uleb
        probe = cls()
        lists = [k for k, v in vars(probe).items() if isinstance(v, list)]
        if len(lists) != 1:
            raise Missing(f"{sname}: cannot identify the entry list ({lists})")
        lname = lists[0]
        AbsIO = type("_AbsIO_" + sname, (_AbsIO,), dict(prefixed=prefixed, uleb_entries=ints))
        FakeIO = type("FakeIO", (), dict(BytesIO=AbsIO))

        def cut_ctx(stub, FakeIO=FakeIO):
            return patched(_mod(), bytes=sym_bytes, len=_len3, io=FakeIO, WriteInteger=stub)

        def T_axioms(ctx, k, n, prefixed=prefixed, ints=ints):
            k = term(k)
            step = leb.uleblen(_Z(k)) if ints else _Z(k) + (leb.uleblen(_Z(k)) if prefixed else 0)
            ctx.assume(z3.And(_TS(z3.IntVal(0)) == 0, z3.Implies(k >= 0, z3.And(_Z(k) >= 0, _TS(k + 1) == _TS(k) + step))))

        def section(n, cls=cls, lname=lname):
            sec = cls()
            vars(sec)[lname] = _SymEntries(n)
            return sec

        def havoc(ctx, n, k, AbsIO=AbsIO, ints=ints):
            c = AbsIO()
            c.phase = "entries"
            c.head = [leb.ULEB(n.t)]
            LOG = z3.Array("LOG", z3.IntSort(), z3.IntSort())
            c.log = SymList(LOG, k)
            c.nbytes = leb.uleblen(n.t) + _TS(term(k))
            inv = All(0, k, (lambda i: LOG[i] == _Z(i)) if ints else (lambda i: LOG[i] == i))
            return c, inv

        names = {}

        def run_init(ctx, names=names):
            n = ctx.int("n")
            ctx.assume(z3.And(n.t >= 1, n.t < 2 ** 32))
            sec, out, stub = section(n), _RecIO(), _LebCut()
            with cut_ctx(stub):
                kind, _, loc = cutf.prologue(sec, out)
                it = cutf.iterable(**{k: v for k, v in loc.items() if k in cutf.params})
            bufs = [k for k, v in loc.items() if isinstance(v, _AbsIO)]
            if kind != "next" or len(bufs) != 1:
                return [("init.reaches-the-loop", False, f"prologue ended with {kind}; payload buffers {bufs}")]
            names["buf"] = bufs[0]
            c = loc[bufs[0]]
            return [("init.count-first", z3.And(z3.BoolVal(len(c.head) == 1 and isinstance(c.head[0], leb.ULEB) and not c.problems), c.head[0].value == n.t) if c.head and isinstance(c.head[0], leb.ULEB) else False),
                    ("init.no-entry-yet", z3.And(c.log.n == 0, c.nbytes == leb.uleblen(n.t))),
                    ("init.nothing-written-to-the-output", not out.rec),
                    ("init.ranges-over-all-entries", (it.n.t == n.t) if isinstance(it, _SymEntries) and it.base is vars(sec)[lname] else False),
                    ("init.leb-precondition", z3.And(*stub.requires))]

        def replay(model, clause, sname=sname, add=add):
            n = max(1, min(int(model.get("n", 3)), 5000))
            return script("""
                import io, nsl.WebAssembly as W
                {{dec}}
                class E:
                    def __init__(s, n): s.n = n
                    def WriteTo(s, o): o.write(b'\\x2a' * s.n)
                    def Encode(s): return memoryview(b'\\x2a' * s.n)
                def ulen(v):
                    n = 1
                    while v >= 128: v >>= 7; n += 1
                    return n
                bad = None
                for sizes in [[1] * {{n}}, [0, 130, 2], [200] * 130, [3], [20000, 1]] + ([[70000, 5, 2 ** 31 + 3, 2 ** 32 - 1]] if {{sname}} == 'FunctionSection' else []):
                    sec = getattr(W, {{sname}})()
                    for n in sizes: getattr(sec, {{add}})(n if {{sname}} == 'FunctionSection' else E(n))
                    out = io.BytesIO(); sec.WriteTo(out); bs = out.getvalue()
                    size, p = udec(bs, 1); cnt, q = udec(bs, p)
                    expected = (q - p) + sum((ulen(n) if {{sname}} == 'FunctionSection' else n + (ulen(n) if {{sname}} == 'CodeSection' else 0)) for n in sizes)
                    if bs[0] != getattr(W, {{sname}}).sectionId or size != len(bs) - p or cnt != len(sizes) or len(bs) - p != expected:
                        bad = (sizes[:6], len(sizes), 'size field', size, 'payload', len(bs) - p, 'expected', expected, 'count', cnt); break
                    if {{sname}} == 'FunctionSection':
                        pos = q
                        for n in sizes:
                            v, pos = udec(bs, pos)
                            if v != n: bad = (sizes[:6], len(sizes), 'index', n, 'written as', v); break
                        if bad: break
                    if {{sname}} == 'CodeSection':
                        pos = q
                        for n in sizes:
                            v, pos = udec(bs, pos)
                            if v != n: bad = (sizes[:6], len(sizes), 'a body of', n, 'bytes is announced as', v); break
                            pos += n
                        if bad: break
                print({{sname}}, 'first bad entry list:', bad)
                if bad: print('REPLAY-CONFIRMED')
                """.replace("{{dec}}", leb.PY_DECODERS), sname=sname, add=add, n=n)

        verify(R, f"C19.frame.unbounded.{sname}", FN, run_init, replay, label="loop-cut")
        if "buf" not in names:
            continue
        bname = names["buf"]

        def run_pres(ctx):
            n, k, j = ctx.int("n"), ctx.int("k"), ctx.int("j")
            ctx.assume(z3.And(n.t >= 1, n.t < 2 ** 32, k.t >= 0, k.t < n.t))
            T_axioms(ctx, k, n)
            c, inv = havoc(ctx, n, k)
            ctx.assume(inv.at(j.t))
            ctx.assume(z3.And(_Z(k.t) < 2 ** 32))
            sec, out, stub = section(n), _RecIO(), _LebCut()
            state = {"self": sec, "output": out, bname: c}
            with cut_ctx(stub):
                kind, _, loc = cutf.step(cut_elem_=SymInt(_Z(k.t)) if ints else _KEntry(k.t), **state)
            c2 = loc[bname]
            arr, ln = seq_view(c2.log)
            goals = [("preserve.completes-the-iteration", kind in ("next", "continue")),
                     ("preserve.same-buffer", c2 is c and not c.problems, "; ".join(map(str, c.problems))),
                     ("preserve.one-more-entry-in-order", z3.And(ln == k.t + 1, All(0, k.t + 1, (lambda i: arr[i] == _Z(i)) if ints else (lambda i: arr[i] == i)).at(j.t))),
                     ("preserve.no-half-written-prefix", c2.pend is None),
                     ("preserve.byte-count", c2.nbytes == leb.uleblen(n.t) + _TS(k.t + 1)),
                     ("preserve.nothing-written-to-the-output", not out.rec),
                     ("preserve.leb-precondition", z3.And(*stub.requires))]
            return goals + [(f"preserve.{g[0]}", g[1]) for g in c.goals]

        verify(R, f"C19.frame.unbounded.{sname}", FN, run_pres, replay, label="loop-cut")

        def run_exit(ctx, sid=sid):
            n, j = ctx.int("n"), ctx.int("j")
            ctx.assume(z3.And(n.t >= 1, n.t < 2 ** 32))
            c, inv = havoc(ctx, n, n.t)
            ctx.assume(inv.at(j.t))
            ctx.assume(z3.And(c.nbytes >= 0, c.nbytes < 2 ** 32))           # (the whole section stays below 2^32 bytes)
            sec, out, stub = section(n), _RecIO(), _LebCut()
            state = {"self": sec, "output": out, bname: c}
            with cut_ctx(stub):
                kind, val, loc = cutf.epilogue(**state)
            rec = out.rec
            shape = len(rec) == 3 and isinstance(rec[1], leb.ULEB) and isinstance(rec[2], _AbsView) and rec[2].owner is c
            arr, ln = seq_view(c.log)
            return [("exit.id-size-payload", shape, f"written to the output: {[type(x).__name__ for x in rec]}"),
                    ("exit.id", bool(rec) and isinstance(rec[0], (bytes, bytearray)) and bytes(rec[0]) == bytes([sid])),
                    ("exit.size-is-payload-length", (rec[1].value == leb.uleblen(n.t) + _TS(n.t)) if shape else False),
                    ("exit.payload-untouched", z3.And(ln == n.t, All(0, n.t, (lambda i: arr[i] == _Z(i)) if ints else (lambda i: arr[i] == i)).at(j.t), z3.BoolVal(not c.problems and c.pend is None))),
                    ("exit.leb-precondition", z3.And(*stub.requires))]

        verify(R, f"C19.frame.unbounded.{sname}", FN, run_exit, replay, label="loop-cut")


@family("C19.frame.unbounded.Code", props=["C19", "C07"], functions=[W + "::Code.Encode"],
        assumptions=[SHIMS, "modular cut: WriteInteger is replaced by its contract; Local.WriteTo / Instruction.WriteTo write one opaque blob each (their own encodings are C19.leb.* / C19.frame obligations)",
                     "the numbers n1 >= 0 of local groups and n2 >= 0 of instructions are SYMBOLIC (no bound); both loops of Code.Encode are cut mechanically (pyvc.loopcut): after k groups the buffer holds uleb(n1) and groups 0..k-1 "
                     "in order; after all groups and j instructions it holds in addition instructions 0..j-1 in order (entry ids n1..n1+j-1); byte count uleblen(n1) + T(.); the second loop starts from the state the first one's invariant describes at k = n1 "
                     "(no statement stands between the two loops: checked on the source on every run)"])
def frame_unbounded_code(R):
    """Code.Encode for any number of local groups and instructions: the body is uleb(#groups) ++ groups in order ++ instructions in order ++ 0x0B, and
    the returned buffer is exactly that -- by induction over both loops (loop cut)."""
    from pyvc import loopcut
    from pyvc.sym import SymList, seq_view, All
    cls = resolve(W + "::Code")
    FN = W + "::Code.Encode"
    cut0, cut1 = loopcut.cut(cls.Encode, 0), loopcut.cut(cls.Encode, 1)
    R.check("C19.frame.unbounded.Code.loops-adjacent", FN, cut1.info["statements_before"] == cut0.info["statements_before"] + 1,
            detail=f"statements before the loops: {cut0.info['statements_before']} / {cut1.info['statements_before']}")
    if cut1.info["statements_before"] != cut0.info["statements_before"] + 1:
        return
    AbsIO = type("_AbsIO_Code", (_AbsIO,), dict(allow_tail=True))
    FakeIO = type("FakeIO", (), dict(BytesIO=AbsIO))

    def cut_ctx(stub):
        return patched(_mod(), bytes=sym_bytes, len=_len3, io=FakeIO, WriteInteger=stub)

    def code(n1, n2):
        c = cls()
        lists = [k for k, v in vars(c).items() if isinstance(v, list)]
        if len(lists) != 2:
            raise Missing(f"Code: expected two lists (local groups, instructions), found {lists}")
        return c, lists

    def axioms(ctx, k):
        k = term(k)
        ctx.assume(z3.And(_TS(z3.IntVal(0)) == 0, z3.Implies(k >= 0, z3.And(_Z(k) >= 0, _TS(k + 1) == _TS(k) + _Z(k)))))

    def havoc(n1, k):
        c = AbsIO()
        c.phase = "entries"
        c.head = [leb.ULEB(n1.t)]
        LOG = z3.Array("LOG", z3.IntSort(), z3.IntSort())
        c.log = SymList(LOG, k)
        c.nbytes = leb.uleblen(n1.t) + _TS(term(k))
        return c, All(0, k, lambda i: LOG[i] == i)

    names = {}

    def run_init(ctx):
        n1, n2 = ctx.int("n1"), ctx.int("n2")
        ctx.assume(z3.And(n1.t >= 0, n1.t < 2 ** 32, n2.t >= 0))
        c, lists = code(n1, n2)
        e1, e2 = _SymEntries(n1), _SymEntries(n2)
        # which list is which is decided by what the two loops range over
        for a, b in ((0, 1), (1, 0)):
            vars(c)[lists[a]], vars(c)[lists[b]] = e1, e2
            stub = _LebCut()
            with cut_ctx(stub):
                kind, _, loc = cut0.prologue(c)
                it0 = cut0.iterable(**{k: v for k, v in loc.items() if k in cut0.params})
                it1 = cut1.iterable(**{k: v for k, v in loc.items() if k in cut1.params})
            if getattr(it0, "base", None) is e1 and getattr(it1, "base", None) is e2:
                names["locals"], names["instrs"] = lists[a], lists[b]
                break
        bufs = [k for k, v in loc.items() if isinstance(v, _AbsIO)]
        if "locals" not in names or len(bufs) != 1:
            return [("init.reaches-the-loops", False, f"buffers {bufs}")]
        names["buf"] = bufs[0]
        b = loc[bufs[0]]
        return [("init.group-count-first", z3.And(z3.BoolVal(len(b.head) == 1 and not b.problems), b.head[0].value == n1.t) if b.head and isinstance(b.head[0], leb.ULEB) else False),
                ("init.no-entry-yet", z3.And(b.log.n == 0, b.nbytes == leb.uleblen(n1.t))),
                ("init.ranges-over-all-groups-and-instructions", z3.And(it0.n.t == n1.t, it1.n.t == n2.t)),
                ("init.leb-precondition", z3.And(*stub.requires))]

    def replay(model, clause):
        return script("""
            import io, nsl.WebAssembly as W
            {{dec}}
            class I:
                def __init__(s, n): s.n = n
                def WriteTo(s, o): o.write(b'\\x2a' * s.n)
            bad = None
            for nl, sizes in ((0, []), (1, [3]), (3, [1] * 200), (130, [2, 0, 5]), (300, [1] * 300), (2, [1] * max(1, min(int({{n2}}), 20000)))):
                c = W.Code()
                for k in range(nl): c.AddLocal(W.Local(W.ValueType.i32 if k % 2 else W.ValueType.f32))
                for n in sizes: c.AddInstruction(I(n))
                bs = bytes(c.Encode())
                groups, p = udec(bs, 0)
                total = 0
                for g in range(groups):
                    cnt, p = udec(bs, p); total += cnt; p += 1
                if groups != nl or total != nl or bs[p:] != b'\\x2a' * sum(sizes) + b'\\x0b':
                    bad = (nl, sizes[:5], len(sizes), 'groups', groups, 'locals declared', total, 'rest', len(bs) - p, 'expected', sum(sizes) + 1); break
            print('first bad (locals, instruction sizes):', bad)
            if bad: print('REPLAY-CONFIRMED')
            """.replace("{{dec}}", leb.PY_DECODERS), n2=int(model.get("n2", 5)))

    verify(R, "C19.frame.unbounded.Code", FN, run_init, replay, label="loop-cut")
    if "buf" not in names:
        return
    bname = names["buf"]

    def state(n1, n2, b):
        c, lists = code(n1, n2)
        vars(c)[names["locals"]], vars(c)[names["instrs"]] = _SymEntries(n1), _SymEntries(n2)
        return {"self": c, bname: b}

    for which, cutf in (("groups", cut0), ("instructions", cut1)):
        def run_pres(ctx, which=which, cutf=cutf):
            n1, n2, k, j = ctx.int("n1"), ctx.int("n2"), ctx.int("k"), ctx.int("j")
            ctx.assume(z3.And(n1.t >= 0, n1.t < 2 ** 32, n2.t >= 0))
            if which == "groups":
                ctx.assume(z3.And(k.t >= 0, k.t < n1.t))
            else:
                ctx.assume(z3.And(k.t >= n1.t, k.t < n1.t + n2.t))
            axioms(ctx, k)
            b, inv = havoc(n1, k.t)
            ctx.assume(inv.at(j.t))
            stub = _LebCut()
            with cut_ctx(stub):
                kind, _, loc = cutf.step(cut_elem_=_KEntry(k.t), **state(n1, n2, b))
            b2 = loc[bname]
            arr, ln = seq_view(b2.log)
            return [(f"{which}.completes-the-iteration", kind in ("next", "continue")),
                    (f"{which}.same-buffer", b2 is b and not b.problems and not b.tail and b.pend is None, "; ".join(map(str, b.problems))),
                    (f"{which}.one-more-entry-in-order", z3.And(ln == k.t + 1, All(0, k.t + 1, lambda i: arr[i] == i).at(j.t))),
                    (f"{which}.byte-count", b2.nbytes == leb.uleblen(n1.t) + _TS(k.t + 1)),
                    (f"{which}.leb-precondition", z3.And(*stub.requires))]

        verify(R, "C19.frame.unbounded.Code", FN, run_pres, replay, label="loop-cut")

    def run_exit(ctx):
        n1, n2, j = ctx.int("n1"), ctx.int("n2"), ctx.int("j")
        ctx.assume(z3.And(n1.t >= 0, n1.t < 2 ** 32, n2.t >= 0))
        b, inv = havoc(n1, n1.t + n2.t)
        ctx.assume(inv.at(j.t))
        stub = _LebCut()
        with cut_ctx(stub):
            kind, val, loc = cut1.epilogue(**state(n1, n2, b))
        arr, ln = seq_view(b.log)
        return [("exit.returns-the-buffer", isinstance(val, _AbsView) and val.owner is b),
                ("exit.end-opcode-last", len(b.tail) == 1 and isinstance(b.tail[0], (bytes, bytearray)) and bytes(b.tail[0]) == b"\x0b" and not b.problems, f"after the entries: {b.tail} {b.problems}"),
                ("exit.entries-untouched", z3.And(ln == n1.t + n2.t, All(0, n1.t + n2.t, lambda i: arr[i] == i).at(j.t))),
                ("exit.byte-count", b.nbytes == leb.uleblen(n1.t) + _TS(n1.t + n2.t) + 1),
                ("exit.leb-precondition", z3.And(*stub.requires))]

    verify(R, "C19.frame.unbounded.Code", FN, run_exit, replay, label="loop-cut")


# ---------------------------------------------------------------------------------------------------------------------------------
# C19.writers.frame: the writers write to their output and to nothing else -- what an instruction, a section or a code body encodes to does not
# depend on what the process has written before.

_MUTATORS = {"append", "extend", "insert", "pop", "remove", "clear", "update", "setdefault", "add", "discard", "sort", "reverse", "popitem", "__setitem__", "__delitem__", "appendleft"}

HISTORY_REPLAY = """
import io, nsl.WebAssembly as W
{{dec}}
bad = []
vals = [0, 1, 63, 64, 65, 70, 127, 128, 8191, 8192, 16383, 16384, 2 ** 20, 2 ** 27, 2 ** 31 - 1]
def enc(op, v):
    o = io.BytesIO(); W.Instruction(W.opcodes[op], (v,)).WriteTo(o); return o.getvalue()
for first, second in (("local.get", "i32.const"), ("i32.const", "local.get"), ("local.set", "i32.const")):
    for v in vals:
        enc(first, v)
        b = enc(second, v)
        got = (sdec if second == "i32.const" else udec)(b, 1)[0]
        if got != v: bad.append((first, second, v, b.hex(), got))
print('(written before, instruction, immediate, bytes, decodes to):', bad[:6])
if bad: print('REPLAY-CONFIRMED')
"""


@family("C19.writers.frame", props=["C19", "C07"], functions=[W + "::Instruction.WriteTo", W + "::PackInteger", W + "::PackSignedInteger", W + "::WriteInteger", W + "::WriteSignedInteger", W + "::WriteString", W + "::Code.Encode"],
        assumptions=["syntactic frame condition, decided on the source of every Pack* / Write* function and every WriteTo / Encode method of nsl.WebAssembly on every run: no store to an attribute or an element of, "
                     "and no mutating method call (append, update, setdefault, ...) on, anything but objects the function itself created (locals bound to a call or a literal); `output.write` is the one permitted effect. "
                     "Locals that alias existing state (bound to a name, an attribute or an element) count as that state",
                     "Local.SetCount and the Add* methods are builders, not writers: outside this obligation"])
def writers_frame(R):
    """Every writer's result is a function of its arguments and the object it encodes: it updates no object-, class- or module-level state, so an
    immediate, a size field or a name encodes the same way whatever was written before in the process (the symbolic obligations C19.leb.* and
    C19.frame.* run each writer in a fresh state)."""
    import ast as pyast, inspect, textwrap
    m = _mod()
    targets = {}
    for name, obj in vars(m).items():
        if inspect.isfunction(obj) and obj.__module__ == m.__name__ and (name.startswith("Pack") or name.startswith("Write")):
            targets[name] = obj
        elif inspect.isclass(obj) and obj.__module__ == m.__name__:
            for mn in ("WriteTo", "Encode"):
                f = obj.__dict__.get(mn)
                if inspect.isfunction(f):
                    targets[f"{name}.{mn}"] = f
    rp = dict(script=HISTORY_REPLAY.replace("{{dec}}", leb.PY_DECODERS))
    for qual, fn in sorted(targets.items()):
        try:
            fd = pyast.parse(textwrap.dedent(inspect.getsource(fn)).lstrip("﻿")).body[0]
        except (OSError, SyntaxError) as e:
            R.undecided(f"C19.writers.frame[{qual}]", W + "::" + qual, f"no source: {e}")
            continue
        params = {a.arg for a in fd.args.args + fd.args.kwonlyargs}
        fresh, tainted = set(), set()
        for node in pyast.walk(fd):
            tg = []
            if isinstance(node, pyast.Assign):
                tg = [(t, node.value) for t in node.targets]
            elif isinstance(node, pyast.AnnAssign) and node.value is not None:
                tg = [(node.target, node.value)]
            elif isinstance(node, (pyast.For, pyast.comprehension)):
                tg = [(node.target, None)]
            elif isinstance(node, pyast.withitem) and node.optional_vars is not None:
                tg = [(node.optional_vars, node.context_expr)]
            for t, v in tg:
                for nm in ([t] if isinstance(t, pyast.Name) else [e for e in pyast.walk(t) if isinstance(e, pyast.Name)] if isinstance(t, (pyast.Tuple, pyast.List)) else []):
                    if v is not None and isinstance(v, (pyast.Call, pyast.List, pyast.Dict, pyast.Set, pyast.Constant, pyast.Tuple, pyast.ListComp, pyast.DictComp, pyast.SetComp, pyast.BinOp, pyast.JoinedStr, pyast.Compare, pyast.UnaryOp)):
                        fresh.add(nm.id)
                    else:
                        tainted.add(nm.id)       # bound to existing state (a name, attribute, element, loop element)
        own = (fresh - tainted) - params

        def root(node):
            while isinstance(node, (pyast.Attribute, pyast.Subscript)):
                node = node.value
            return node.id if isinstance(node, pyast.Name) else None

        problems = []
        for node in pyast.walk(fd):
            stores = []
            if isinstance(node, pyast.Assign):
                stores = node.targets
            elif isinstance(node, (pyast.AugAssign, pyast.AnnAssign)):
                stores = [node.target]
            elif isinstance(node, pyast.Delete):
                stores = node.targets
            for t in stores:
                for e in ([t] if not isinstance(t, (pyast.Tuple, pyast.List)) else t.elts):
                    if isinstance(e, (pyast.Attribute, pyast.Subscript)) and root(e) not in own:
                        problems.append(f"line {e.lineno}: stores to {pyast.unparse(e)}")
            if isinstance(node, (pyast.Global, pyast.Nonlocal)):
                problems.append(f"line {node.lineno}: {pyast.unparse(node)}")
            if isinstance(node, pyast.Call) and isinstance(node.func, pyast.Attribute) and node.func.attr in _MUTATORS and root(node.func.value) not in own:
                problems.append(f"line {node.lineno}: {pyast.unparse(node.func)}(...) updates state the function did not create")
            if isinstance(node, pyast.Call) and isinstance(node.func, pyast.Name) and node.func.id in ("setattr", "delattr"):
                problems.append(f"line {node.lineno}: {node.func.id}(...)")
        oid = f"C19.writers.frame[{qual}]"
        if problems:
            R.fail(oid, W + "::" + qual, "; ".join(problems), replay=rp, backend="frame-check")
        else:
            R.ok(oid, W + "::" + qual, "frame-check", detail="writes only to its output and to objects it created")
    R.check("C19.writers.frame.writers-found", W, len(targets) >= 12, detail=f"{len(targets)} writers")
