"""C19 (and the byte-level parts of C06/C07): contracts on nsl.WebAssembly writers.

Every obligation runs the *real* writer on symbolic integers / opaque strings
and proves that a standard LEB128 decoder (contracts/leb.py) applied to the
bytes it produced recovers what was written, for the full 32-bit ranges."""
from __future__ import annotations

import z3

from pyvc.core import family, resolve, Missing
from pyvc.sym import SymInt, sym_bytes, term, is_sym
from pyvc.util import patched, script
from pyvc.verify import verify
from . import leb

W = "nsl.WebAssembly"
SHIMS = "shims bound in nsl.WebAssembly globals during verification: bytes->sym_bytes, len->sym_len, io->ChunkIO recorder"


def _mod():
    import nsl.WebAssembly as m
    return m


def _shimmed():
    m = _mod()
    return patched(m, bytes=sym_bytes, len=leb.sym_len, io=leb.FakeIO)


def _out_atoms(res):
    return leb.flatten(res)


# ---------------------------------------------------------------------------
@family("C19.leb.unsigned", props=["C19", "C06", "C07"], functions=[W + "::PackInteger", W + "::WriteInteger"],
        assumptions=[SHIMS, "math.ceil(bit_length()/7) evaluated over the reals (A2): exact, the quotient of two small integers"])
def leb_unsigned(R):
    """forall v in [0,2^32): PackInteger(v) is well-formed unsigned LEB128, <=5 bytes, decodes to v."""
    m = _mod()
    f = resolve(W + "::PackInteger")
    wi = resolve(W + "::WriteInteger")

    def run(ctx):
        v = ctx.int("v")
        ctx.assume(v >= 0)
        ctx.assume(v < 2 ** 32)
        with _shimmed():
            res = f(v)
        atoms = _out_atoms(res)
        val, pos, wf = leb.udec_stream(atoms, 0)
        return [("wellformed", z3.And(*wf)), ("decodes", val == v.t), ("consumed", pos == len(atoms)),
                ("length", len(atoms) <= 5)]

    def replay(model, clause):
        return script("""
            import nsl.WebAssembly as W
            {{dec}}
            v = {{v}}
            bs = W.PackInteger(v)
            d, pos = udec(bs)
            print('PackInteger', v, '->', bs.hex(), 'decodes to', d)
            if d != v or pos != len(bs) or len(bs) > 5: print('REPLAY-CONFIRMED')
            """.replace("{{dec}}", leb.PY_DECODERS), v=model.get("v", 0))

    verify(R, "C19.leb.unsigned", W + "::PackInteger", run, replay)

    # canary: the same clause with an off-by-one must fail (vacuity guard)
    def run_c(ctx):
        v = ctx.int("v")
        ctx.assume(v >= 0)
        ctx.assume(v < 2 ** 32)
        with _shimmed():
            res = f(v)
        atoms = _out_atoms(res)
        val, pos, wf = leb.udec_stream(atoms, 0)
        return [("c", val == v.t + 1)]

    from pyvc.sym import explore
    from pyvc import solver
    bad = 0
    for p in explore(run_c):
        if p.kind == "ok" and solver.prove(p.pc, p.out[0][1], both=False).status == "discharged":
            bad += 1
    if bad:
        R._rec("C19.leb.unsigned#canary", W + "::PackInteger", "crash", "z3", 0, "off-by-one canary was proved: vacuous")
    else:
        R.stats["canaries"] = R.stats.get("canaries", 0) + 1

    # WriteInteger writes exactly PackInteger's bytes
    def run_w(ctx):
        v = ctx.int("v")
        ctx.assume(v >= 0)
        ctx.assume(v < 2 ** 32)
        out = leb.ChunkIO()
        with _shimmed():
            wi(out, v)
        atoms = leb.flatten(out)
        val, pos, wf = leb.udec_stream(atoms, 0)
        return [("decodes", z3.And(val == v.t, pos == len(atoms), *wf))]

    verify(R, "C19.leb.write", W + "::WriteInteger", run_w)


# ---------------------------------------------------------------------------
def _instr(opname):
    m = _mod()
    try:
        return m.opcodes[opname]
    except Exception:
        raise Missing(f"opcode {opname}")


@family("C19.leb.signed", props=["C19", "C06"], functions=[W + "::Instruction.WriteTo"], assumptions=[SHIMS])
def leb_signed(R):
    """forall c in [-2^31,2^31): the immediate bytes of `i32.const c` decode, signed, to c."""
    m = _mod()
    Instr = resolve(W + "::Instruction")
    opc = _instr("i32.const")

    def run(ctx):
        c = ctx.int("c")
        ctx.assume(c >= -(2 ** 31))
        ctx.assume(c < 2 ** 31)
        out = leb.ChunkIO()
        with _shimmed():
            Instr(opc, (c,)).WriteTo(out)
        atoms = leb.flatten(out)
        goals = [("opcode", z3.And(len(atoms) >= 1, atoms[0] == opc) if atoms else False)]
        val, pos, wf = leb.sdec_stream(atoms, 1)
        goals += [("wellformed", z3.And(*wf)), ("decodes", val == c.t), ("consumed", pos == len(atoms))]
        return goals

    def replay(model, clause):
        return script("""
            import io, nsl.WebAssembly as W
            {{dec}}
            c = {{c}}
            out = io.BytesIO(); W.Instruction(W.opcodes['i32.const'], (c,)).WriteTo(out)
            bs = out.getvalue()
            d, pos = sdec(bs, 1)
            print('i32.const', c, '->', bs.hex(), 'immediate decodes (signed) to', d)
            if d != c or pos != len(bs): print('REPLAY-CONFIRMED')
            """.replace("{{dec}}", leb.PY_DECODERS), c=model.get("c", 0))

    verify(R, "C19.leb.signed", W + "::Instruction.WriteTo", run, replay)


@family("C19.leb.index", props=["C19", "C06", "C07"],
        functions=[W + "::Instruction.WriteTo", W + "::Export.WriteTo", W + "::Local.WriteTo", W + "::Table.WriteTo",
                   W + "::Memory.WriteTo"], assumptions=[SHIMS])
def leb_index(R):
    """Indices, counts and sizes are written as unsigned LEB128 that decodes to the value, over [0,2^32)."""
    m = _mod()
    Instr = resolve(W + "::Instruction")

    for opname in ("local.get", "local.set", "local.tee", "call", "global.get", "global.set", "br"):
        opc = _instr(opname)

        def run(ctx, opc=opc):
            i = ctx.int("i")
            ctx.assume(i >= 0)
            ctx.assume(i < 2 ** 32)
            out = leb.ChunkIO()
            with _shimmed():
                Instr(opc, (i,)).WriteTo(out)
            atoms = leb.flatten(out)
            val, pos, wf = leb.udec_stream(atoms, 1)
            return [("imm", z3.And(atoms[0] == opc, val == i.t, pos == len(atoms), *wf))]

        def replay(model, clause, opname=opname):
            return script("""
                import io, nsl.WebAssembly as W
                {{dec}}
                i = {{i}}
                out = io.BytesIO(); W.Instruction(W.opcodes[{{op}}], (i,)).WriteTo(out)
                bs = out.getvalue(); d, pos = udec(bs, 1)
                print({{op}}, i, '->', bs.hex(), 'decodes to', d)
                if d != i or pos != len(bs): print('REPLAY-CONFIRMED')
                """.replace("{{dec}}", leb.PY_DECODERS), i=model.get("i", 0), op=opname)

        verify(R, "C19.leb.index", W + "::Instruction.WriteTo", run, replay, label=opname)

    # an instruction without immediates writes exactly its opcode byte
    def run0(ctx):
        out = leb.ChunkIO()
        with _shimmed():
            Instr(_instr("i32.add")).WriteTo(out)
        atoms = leb.flatten(out)
        return [("bare", z3.And(len(atoms) == 1, atoms[0] == _instr("i32.add")))]

    verify(R, "C19.leb.index", W + "::Instruction.WriteTo", run0, label="no-immediate")

    # two immediates are written in order
    def run2(ctx):
        a, b = ctx.int("a"), ctx.int("b")
        for x in (a, b):
            ctx.assume(x >= 0)
            ctx.assume(x < 2 ** 32)
        out = leb.ChunkIO()
        with _shimmed():
            Instr(_instr("call_indirect"), (a, b)).WriteTo(out)
        atoms = leb.flatten(out)
        v1, p1, wf1 = leb.udec_stream(atoms, 1)
        v2, p2, wf2 = leb.udec_stream(atoms, p1)
        return [("order", z3.And(v1 == a.t, v2 == b.t, p2 == len(atoms), *(wf1 + wf2)))]

    verify(R, "C19.leb.index", W + "::Instruction.WriteTo", run2, label="two-immediates")

    # Local: count then type
    Local = resolve(W + "::Local")
    VT = resolve(W + "::ValueType")

    for vt in (VT.i32, VT.f32):
        def runl(ctx, vt=vt):
            n = ctx.int("n")
            ctx.assume(n >= 1)
            ctx.assume(n < 2 ** 32)
            out = leb.ChunkIO()
            with _shimmed():
                Local(vt, n).WriteTo(out)
            atoms = leb.flatten(out)
            v, p, wf = leb.udec_stream(atoms, 0)
            return [("local", z3.And(v == n.t, p == len(atoms) - 1, atoms[-1] == vt.value, *wf))]

        verify(R, "C19.leb.index", W + "::Local.WriteTo", runl, label=f"local-{vt.name}")

    # Export: name, kind byte 0, index
    Export = resolve(W + "::Export")

    def rune(ctx):
        i = ctx.int("i")
        ctx.assume(i >= 0)
        ctx.assume(i < 2 ** 32)
        bl = ctx.int("bl")
        ctx.assume(bl >= 0)
        ctx.assume(bl < 2 ** 32)
        name = _OpaqueStr("name", leb.Opaque("utf8(name)", bl))
        out = leb.ChunkIO()
        with _shimmed():
            Export(i, name).WriteTo(out)
        atoms = leb.flatten(out)
        n, p, wf = leb.udec_stream(atoms, 0)
        ok_name = z3.And(n == bl.t, p < len(atoms)) if p < len(atoms) and isinstance(atoms[p], leb.Opaque) and atoms[p].name == "utf8(name)" else z3.BoolVal(False)
        kind_ok = atoms[p + 1] == 0 if p + 1 < len(atoms) and not isinstance(atoms[p + 1], leb.Opaque) else z3.BoolVal(False)
        v, p2, wf2 = leb.udec_stream(atoms, p + 2)
        return [("export", z3.And(ok_name, kind_ok, v == i.t, p2 == len(atoms), *(wf + wf2)))]

    verify(R, "C19.leb.index", W + "::Export.WriteTo", rune, label="export")

    # Table: reftype, limits flag 0, min ; Memory: flag, min[, max]
    Table = resolve(W + "::Table")
    Memory = resolve(W + "::Memory")

    def runt(ctx):
        n = ctx.int("n")
        ctx.assume(n >= 0)
        ctx.assume(n < 2 ** 32)
        out = leb.ChunkIO()
        with _shimmed():
            Table(n).WriteTo(out)
        atoms = leb.flatten(out)
        v, p, wf = leb.udec_stream(atoms, 2)
        return [("table", z3.And(atoms[0] == 0x70, atoms[1] == 0, v == n.t, p == len(atoms), *wf))]

    verify(R, "C19.leb.index", W + "::Table.WriteTo", runt, label="table")

    def runm(ctx):
        lo, hi = ctx.int("lo"), ctx.int("hi")
        for x in (lo, hi):
            ctx.assume(x >= 0)
            ctx.assume(x < 2 ** 32)
        ctx.assume(hi >= 1)
        out = leb.ChunkIO()
        with _shimmed():
            Memory(lo, hi).WriteTo(out)
        atoms = leb.flatten(out)
        v, p, wf = leb.udec_stream(atoms, 1)
        v2, p2, wf2 = leb.udec_stream(atoms, p)
        return [("memory", z3.And(atoms[0] == 1, v == lo.t, v2 == hi.t, p2 == len(atoms), *(wf + wf2)))]

    verify(R, "C19.leb.index", W + "::Memory.WriteTo", runm, label="memory-minmax")

    def runm0(ctx):
        lo = ctx.int("lo")
        ctx.assume(lo >= 0)
        ctx.assume(lo < 2 ** 32)
        out = leb.ChunkIO()
        with _shimmed():
            Memory(lo).WriteTo(out)
        atoms = leb.flatten(out)
        v, p, wf = leb.udec_stream(atoms, 1)
        return [("memory", z3.And(atoms[0] == 0, v == lo.t, p == len(atoms), *wf))]

    verify(R, "C19.leb.index", W + "::Memory.WriteTo", runm0, label="memory-min")


class _OpaqueStr:
    """A name whose utf-8 encoding is an opaque blob of symbolic byte length,
    independent of its character count (so writing len(s) instead of
    len(s.encode()) cannot verify)."""

    def __init__(self, tag, blob):
        self.tag = tag
        self.blob = blob

    def encode(self, enc="utf-8", errors="strict"):
        if enc.lower().replace("-", "") != "utf8":
            from pyvc.sym import Unsupported
            raise Unsupported("name encoded with " + enc)
        return self.blob

    def __len__(self):
        from pyvc.sym import Unsupported
        raise Unsupported("character length of an opaque name")


@family("C19.string", props=["C19", "C07"], functions=[W + "::WriteString", W + "::PackString"],
        assumptions=[SHIMS, "str.encode('utf-8') is trusted; the name is an opaque string whose encoded length is an unconstrained symbol"])
def string(R):
    """WriteString(out, s) appends uleb(|utf8(s)|) ++ utf8(s)."""
    ws = resolve(W + "::WriteString")

    def run(ctx):
        bl = ctx.int("bl")
        ctx.assume(bl >= 0)
        ctx.assume(bl < 2 ** 32)
        s = _OpaqueStr("s", leb.Opaque("utf8(s)", bl))
        out = leb.ChunkIO()
        with _shimmed():
            ws(out, s)
        atoms = leb.flatten(out)
        n, p, wf = leb.udec_stream(atoms, 0)
        body = (p == len(atoms) - 1) and isinstance(atoms[-1], leb.Opaque) and atoms[-1].name == "utf8(s)"
        return [("prefix", z3.And(n == bl.t, *wf)), ("body", z3.BoolVal(bool(body)))]

    def replay(model, clause):
        return script("""
            import io, nsl.WebAssembly as W
            {{dec}}
            s = 'é' * max(1, min({{bl}} // 2, 200))
            out = io.BytesIO(); W.WriteString(out, s); bs = out.getvalue()
            n, pos = udec(bs)
            print(repr(s[:8]), len(s.encode()), '->', bs[:8].hex(), 'prefix', n)
            if n != len(s.encode('utf-8')) or bs[pos:] != s.encode('utf-8'): print('REPLAY-CONFIRMED')
            """.replace("{{dec}}", leb.PY_DECODERS), bl=model.get("bl", 2))

    verify(R, "C19.string", W + "::WriteString", run, replay)


# ---------------------------------------------------------------------------
# framing of sections and code bodies

class _Entry:
    """An entry object whose WriteTo writes one opaque blob of symbolic length."""

    def __init__(self, name, length):
        self.blob = leb.Opaque(name, length)

    def WriteTo(self, output):
        output.write(self.blob)

    def Encode(self):
        io_ = leb.ChunkIO()
        io_.write(self.blob)
        return io_.getbuffer()


def _frame_goals(atoms, section_id, entries, per_entry_size_prefix=False):
    """[id] ++ uleb(|P|) ++ P  with  P = uleb(count) ++ entries (each optionally size-prefixed)."""
    goals = []
    if not atoms:
        return [("id", z3.BoolVal(False))]
    goals.append(("id", atoms[0] == section_id if not isinstance(atoms[0], leb.Opaque) else z3.BoolVal(False)))
    size, p, wf = leb.udec_stream(atoms, 1)
    payload = atoms[p:]
    goals.append(("size", z3.And(size == term(leb.atoms_len(payload)), *wf)))
    cnt, q, wf2 = leb.udec_stream(atoms, p)
    goals.append(("count", z3.And(cnt == len(entries), *wf2)))
    pos = q
    ok = True
    conj = []
    for e in entries:
        if per_entry_size_prefix:
            bs, pos, wf3 = leb.udec_stream(atoms, pos)
            conj += wf3
            conj.append(bs == e.blob.length.t)
        if pos < len(atoms) and atoms[pos] is e.blob:
            pos += 1
        else:
            ok = False
            break
    goals.append(("entries", z3.And(z3.BoolVal(ok and pos == len(atoms)), *conj)))
    return goals


_SECTIONS = [
    ("TypeSection", "AddType", 1, False),
    ("TableSection", "Add", 4, False),
    ("MemorySection", "Add", 5, False),
    ("ExportSection", "Add", 7, False),
    ("CodeSection", "Add", 10, True),
]


@family("C19.frame", props=["C19", "C07"],
        functions=[W + f"::{s}.WriteTo" for s, _, _, _ in _SECTIONS] + [W + "::FunctionSection.WriteTo", W + "::Code.Encode"],
        assumptions=[SHIMS, "entries are opaque blobs of unconstrained symbolic byte length; 0..3 entries per section are executed (the entry loop body is the same code for every entry)"])
def frame(R):
    """Each section writer appends nothing, or [id] ++ uleb(|payload|) ++ payload with payload = uleb(count) ++ entries;
    each code body is uleb(|body|) ++ body."""
    for sname, add, sid, prefixed in _SECTIONS:
        cls = resolve(W + "::" + sname)
        for k in (0, 1, 2, 3):
            def run(ctx, k=k, cls=cls, add=add, sid=sid, prefixed=prefixed, sname=sname):
                sec = cls()
                entries = []
                for j in range(k):
                    n = ctx.int(f"n{j}")
                    ctx.assume(n >= 0)
                    ctx.assume(n < 2 ** 28)
                    e = _Entry(f"e{j}", n)
                    entries.append(e)
                    getattr(sec, add)(e)
                out = leb.ChunkIO()
                with _shimmed():
                    sec.WriteTo(out)
                atoms = leb.flatten(out)
                if k == 0 and not atoms:
                    return [("empty-omitted", z3.BoolVal(True))]
                real_id = getattr(cls, "sectionId", None)
                g = _frame_goals(atoms, sid, entries, prefixed)
                g.append(("section-id-constant", z3.BoolVal(real_id == sid)))
                return g

            def replay(model, clause, sname=sname, add=add, k=k):
                sizes = [max(0, min(int(model.get(f"n{j}", 1)), 100000)) for j in range(k)]
                return script("""
                    import io, nsl.WebAssembly as W
                    {{dec}}
                    class E:
                        def __init__(s, n): s.n = n
                        def WriteTo(s, o): o.write(b'\\x2a' * s.n)
                        def Encode(s): return memoryview(b'\\x2a' * s.n)
                    sec = getattr(W, {{sname}})()
                    sizes = {{sizes}}
                    for n in sizes: getattr(sec, {{add}})(E(n))
                    out = io.BytesIO(); sec.WriteTo(out); bs = out.getvalue()
                    if bs:
                        size, p = udec(bs, 1); cnt, q = udec(bs, p)
                        print({{sname}}, sizes, 'id', bs[0], 'size field', size, 'actual payload', len(bs) - p, 'count', cnt)
                        if size != len(bs) - p or cnt != len(sizes): print('REPLAY-CONFIRMED')
                    """.replace("{{dec}}", leb.PY_DECODERS), sname=sname, add=add, sizes=sizes)

            verify(R, f"C19.frame.{sname}", W + f"::{sname}.WriteTo", run, replay, label=f"{k}-entries")

    # FunctionSection: entries are type indices (LEB) rather than blobs
    FS = resolve(W + "::FunctionSection")
    for k in (0, 1, 2, 3):
        def runf(ctx, k=k):
            sec = FS()
            idx = []
            for j in range(k):
                i = ctx.int(f"i{j}")
                ctx.assume(i >= 0)
                ctx.assume(i < 2 ** 32)
                idx.append(i)
                sec.AddFunction(i)
            out = leb.ChunkIO()
            with _shimmed():
                sec.WriteTo(out)
            atoms = leb.flatten(out)
            if k == 0 and not atoms:
                return [("empty-omitted", z3.BoolVal(True))]
            goals = [("id", atoms[0] == 3)]
            size, p, wf = leb.udec_stream(atoms, 1)
            goals.append(("size", z3.And(size == len(atoms) - p, *wf)))
            cnt, q, wf2 = leb.udec_stream(atoms, p)
            goals.append(("count", z3.And(cnt == k, *wf2)))
            conj = []
            for i in idx:
                v, q, wf3 = leb.udec_stream(atoms, q)
                conj += wf3 + [v == i.t]
            goals.append(("entries", z3.And(z3.BoolVal(q == len(atoms)), *conj)))
            return goals

        verify(R, "C19.frame.FunctionSection", W + "::FunctionSection.WriteTo", runf, label=f"{k}-entries")

    # Code.Encode: uleb(#local groups) ++ groups ++ instructions ++ 0x0B
    Code = resolve(W + "::Code")
    Local = resolve(W + "::Local")
    VT = resolve(W + "::ValueType")
    for nl, ni in ((0, 0), (1, 2), (2, 1)):
        def runc(ctx, nl=nl, ni=ni):
            c = Code()
            kinds = [VT.i32, VT.f32]
            for j in range(nl):
                c.AddLocal(Local(kinds[j % 2]))
            instrs = []
            for j in range(ni):
                n = ctx.int(f"n{j}")
                ctx.assume(n >= 0)
                ctx.assume(n < 2 ** 28)
                e = _Entry(f"ins{j}", n)
                instrs.append(e)
                c.AddInstruction(e)
            with _shimmed():
                buf = c.Encode()
            atoms = leb.flatten(buf)
            groups, p, wf = leb.udec_stream(atoms, 0)
            # walk the declared groups, summing their counts
            total = z3.IntVal(0)
            conj = list(wf)
            g = 0
            while p < len(atoms) and not isinstance(atoms[p], leb.Opaque) and g < 8 and not (ni == 0 and p == len(atoms) - 1):
                cnt, p, wf2 = leb.udec_stream(atoms, p)
                conj += wf2
                total = total + cnt
                p += 1   # value type byte
                g += 1
            goals = [("local-groups", z3.And(groups == g, *conj))]
            ok = True
            for e in instrs:
                if p < len(atoms) and atoms[p] is e.blob:
                    p += 1
                else:
                    ok = False
            goals.append(("instructions-in-order", z3.BoolVal(ok)))
            goals.append(("end-opcode", z3.BoolVal(p == len(atoms) - 1) if p < len(atoms) and not isinstance(atoms[p], leb.Opaque) and ok else z3.BoolVal(False)))
            if p < len(atoms) and not isinstance(atoms[p], leb.Opaque):
                goals.append(("end-byte", atoms[p] == 0x0B))
            return goals

        verify(R, "C19.frame.Code", W + "::Code.Encode", runc, label=f"{nl}-locals,{ni}-instrs")
