"""C02 / C14: contracts on the IR bookkeeping of nsl.LinearIR (Uses, ReplaceUses,
UpdateUses, _Traverse, GetPreviousInstruction, RegisterValue, CreateConstant)
and on the two optimisation visitors."""
from __future__ import annotations

import collections
import itertools

import z3

from pyvc.core import family, resolve, Missing
from pyvc.util import script
from . import types_c as tc

L = "nsl.LinearIR"


def IR():
    import nsl.LinearIR as m
    return m


def fresh_function(nargs=2):
    ir = IR()
    f = ir.Function("f", ir.FunctionType(ir.IntegerType(), collections.OrderedDict((f"p{i}", ir.IntegerType()) for i in range(nargs))))
    return f, f.CreateBasicBlock()


def val(bb, t=None):
    ir = IR()
    return bb.AddInstruction(ir.DeclareVariableInstruction(t or ir.IntegerType()))


def instruction_shapes():
    """label -> builder(f, bb) returning (instruction, [(operand name, getter)], other-attribute getters)."""
    ir = IR()
    I, F = ir.IntegerType(), ir.FloatType()
    V4 = ir.VectorType(F, 4)
    M3 = ir.MatrixType(ir.VectorType(F, 3), 3)
    AT = ir.ArrayType(I, [3])
    ST = ir.StructureType(collections.OrderedDict([("a", I)]), name="S")
    out = collections.OrderedDict()

    def binary(f, bb):
        a, b = val(bb), val(bb)
        i = ir.BinaryInstruction(ir.OpCode.ADD, I, a, b)
        return i, [("v1", lambda: i.Values[0], a), ("v2", lambda: i.Values[1], b)]

    def compare(f, bb):
        a, b = val(bb), val(bb)
        i = ir.CompareInstruction(ir.OpCode.CMP_LT, I, a, b)
        vals = lambda k: i._CompareInstruction__values[k]
        return i, [("v1", lambda: vals(0), a), ("v2", lambda: vals(1), b)]

    def branch_cond(f, bb):
        p = val(bb)
        t, e = f.CreateBasicBlock(), f.CreateBasicBlock()
        i = ir.BranchInstruction(t, e, p)
        return i, [("trueBlock", lambda: i.TrueBlock, t), ("falseBlock", lambda: i.FalseBlock, e), ("predicate", lambda: i.Predicate, p)]

    def branch_uncond(f, bb):
        t = f.CreateBasicBlock()
        i = ir.BranchInstruction(t)
        return i, [("trueBlock", lambda: i.TrueBlock, t)]

    def unary(f, bb):
        a = val(bb)
        i = ir.UnaryInstruction(ir.OpCode.UA_SUB, I, a)
        return i, [("value", lambda: i.Value, a)]

    def cast(f, bb):
        a = val(bb)
        i = ir.CastInstruction(a, F)
        return i, [("value", lambda: i.Value, a)]

    def ret(f, bb):
        a = val(bb)
        i = ir.ReturnInstruction(a)
        return i, [("value", lambda: i.Value, a)]

    def ret_void(f, bb):
        i = ir.ReturnInstruction()
        return i, []

    def construct(f, bb):
        a, b, c = val(bb, F), val(bb, F), val(bb, ir.VectorType(F, 2))
        i = ir.ConstructPrimitiveInstruction(V4, [a, b, c])
        return i, [("item0", lambda: i.Values[0], a), ("item1", lambda: i.Values[1], b), ("item2", lambda: i.Values[2], c)]

    def member_load(f, bb):
        s = val(bb, ST)
        i = ir.MemberAccessInstruction(I, s, "a")
        return i, [("variable", lambda: i.Variable, s)]

    def member_store(f, bb):
        s, v = val(bb, ST), val(bb)
        i = ir.MemberAccessInstruction(I, s, "a")
        i.SetStore(v)
        return i, [("variable", lambda: i.Variable, s), ("store", lambda: i.Store, v)]

    def shuffle(f, bb):
        a, b = val(bb, V4), val(bb, V4)
        i = ir.ShuffleInstruction(V4, a, b, [0, 5, 2, 7])
        return i, [("first", lambda: i.First, a), ("second", lambda: i.Second, b)]

    def var_load(f, bb):
        i = ir.VariableAccessInstruction(I, "x", ir.VariableAccessScope.FUNCTION_LOCAL)
        return i, []

    def var_store(f, bb):
        v = val(bb)
        i = ir.VariableAccessInstruction(I, "x", ir.VariableAccessScope.FUNCTION_LOCAL)
        i.SetStore(v)
        return i, [("store", lambda: i.Store, v)]

    def call(f, bb):
        a, b = val(bb), val(bb)
        i = ir.CallInstruction(I, "g", [a, b])
        return i, [("arg0", lambda: i.Arguments[0], a), ("arg1", lambda: i.Arguments[1], b)]

    def indexed(cls, ct, et, store):
        def mk(f, bb):
            c, ix = val(bb, ct), val(bb)
            i = cls(et if not store or cls is ir.ArrayAccessInstruction else ct, c, ix)
            ops = [("array", lambda: i.Array, c), ("index", lambda: i.Index, ix)]
            if store:
                s = val(bb, et)
                i.SetStore(s)
                ops.append(("store", lambda: i.Store, s))
            return i, ops
        return mk

    def declare(f, bb):
        i = ir.DeclareVariableInstruction(I, "x", ir.VariableAccessScope.FUNCTION_LOCAL)
        return i, []

    out["BinaryInstruction"] = binary
    out["CompareInstruction"] = compare
    out["BranchInstruction/conditional"] = branch_cond
    out["BranchInstruction/unconditional"] = branch_uncond
    out["UnaryInstruction"] = unary
    out["CastInstruction"] = cast
    out["ReturnInstruction/value"] = ret
    out["ReturnInstruction/void"] = ret_void
    out["ConstructPrimitiveInstruction"] = construct
    out["MemberAccessInstruction/load"] = member_load
    out["MemberAccessInstruction/store"] = member_store
    out["ShuffleInstruction"] = shuffle
    out["VariableAccessInstruction/load"] = var_load
    out["VariableAccessInstruction/store"] = var_store
    out["CallInstruction"] = call
    out["ArrayAccessInstruction/load"] = indexed(ir.ArrayAccessInstruction, AT, I, False)
    out["ArrayAccessInstruction/store"] = indexed(ir.ArrayAccessInstruction, AT, I, True)
    out["VectorAccessInstruction/load"] = indexed(ir.VectorAccessInstruction, V4, F, False)
    out["VectorAccessInstruction/store"] = indexed(ir.VectorAccessInstruction, V4, F, True)
    out["MatrixAccessInstruction/load"] = indexed(ir.MatrixAccessInstruction, M3, ir.VectorType(F, 3), False)
    out["MatrixAccessInstruction/store"] = indexed(ir.MatrixAccessInstruction, M3, ir.VectorType(F, 3), True)
    out["DeclareVariableInstruction"] = declare
    return out


def _attrs(i, skip=()):
    d = {}
    for k, v in vars(i).items():
        d[k] = ("seq", [id(x) for x in v]) if isinstance(v, list) else (v if isinstance(v, (int, str, type(None), bool, float)) else id(v))
    return d


@family("IR.uses", props=["C02", "C14", "C05"], functions=[L + "::*.Uses", L + "::*.ReplaceUses", L + "::Instruction._ReplaceUsesInList"],
        assumptions=["one obligation per instruction class (checked by reflection: every subclass of LinearIR.Instruction has a shape); operands are the Value-typed constructor/setter arguments"])
def ir_uses(R):
    """For every instruction class: set(i.Uses) is exactly the set of REFERENCES of its operand values (blocks and predicate included for
    branches); i.ReplaceUses(r, new) replaces exactly the operands whose reference is r by the VALUE new and changes nothing else
    (reference, parent, opcode, other operands, other fields); a reference the instruction does not use changes nothing; no exception."""
    ir = IR()
    shapes = instruction_shapes()
    # reflection: every concrete Instruction subclass is covered
    def subclasses(c):
        out = []
        for s in c.__subclasses__():
            out.append(s)
            out += subclasses(s)
        return out
    covered = {k.split("/")[0] for k in shapes}
    for c in subclasses(ir.Instruction):
        if c.__name__.startswith("_"):
            continue
        R.check(f"IR.uses.covered[{c.__name__}]", L + "::" + c.__name__, c.__name__ in covered, detail=f"instruction class {c.__name__} has no Uses/ReplaceUses contract shape")

    for label, mk in shapes.items():
        f, bb = fresh_function()
        ins, ops = mk(f, bb)
        bb.AddInstruction(ins)
        cls = type(ins).__name__
        fn = L + "::" + cls
        try:
            uses = list(ins.Uses)
            want = sorted({o.Reference for _, _, o in ops})
            ok = all(isinstance(u, int) for u in uses) and sorted(set(uses)) == want
            det = f"Uses = {[u if isinstance(u, int) else type(u).__name__ for u in uses]}, operand references {want}"
        except Exception as e:
            ok, det = False, f"Uses raised {type(e).__name__}: {e}"
        R.check(f"IR.uses[{label}]", fn + ".Uses", ok, detail=det)
        for k, (name, get, orig) in enumerate(ops):
            f2, bb2 = fresh_function()
            ins2, ops2 = mk(f2, bb2)
            bb2.AddInstruction(ins2)
            isblock = isinstance(ops2[k][2], ir.BasicBlock)
            new = f2.CreateBasicBlock() if isblock else val(bb2, ops2[k][2].Type)
            before = _attrs(ins2)
            try:
                ins2.ReplaceUses(ops2[k][2].Reference, new)
                after = [g() for _, g, _ in ops2]
                want = [new if j == k else ops2[j][2] for j in range(len(ops2))]
                ok = all(a is w for a, w in zip(after, want))
                det = f"after ReplaceUses(ref of {name}, new): operands are {['new' if a is new else ('old' if a is w0 else repr(a)) for a, w0 in zip(after, [o for _, _, o in ops2])]}"
                # nothing else changed
                aft = _attrs(ins2)
                other = [a for a in aft if aft[a] != before.get(a) and not _holds(ins2, a, new)]
                if ok and other:
                    ok, det = False, f"ReplaceUses changed other fields: {other}"
                if ok and sorted(set(ins2.Uses)) != sorted({w.Reference for w in want}):
                    ok, det = False, f"Uses after the replacement = {sorted(set(ins2.Uses))}, expected {sorted({w.Reference for w in want})}"
            except Exception as e:
                ok, det = False, f"ReplaceUses raised {type(e).__name__}: {e}"
            R.check(f"IR.replace[{label},{name}]", fn + ".ReplaceUses", ok, detail=det)
        # unrelated reference: no change
        f3, bb3 = fresh_function()
        ins3, ops3 = mk(f3, bb3)
        bb3.AddInstruction(ins3)
        other = val(bb3)
        new = val(bb3)
        before = _attrs(ins3)
        try:
            ins3.ReplaceUses(other.Reference, new)
            ok = _attrs(ins3) == before
            det = "ReplaceUses with a reference the instruction does not use changed it"
        except Exception as e:
            ok, det = False, f"ReplaceUses(unrelated) raised {type(e).__name__}: {e}"
        R.check(f"IR.replace.unrelated[{label}]", fn + ".ReplaceUses", ok, detail=det)
    # the same value in two operand positions: both are replaced
    f, bb = fresh_function()
    v = val(bb, ir.VectorType(ir.FloatType(), 4))
    sh = bb.AddInstruction(ir.ShuffleInstruction(v.Type, v, v, [0, 1, 2, 3]))
    new = val(bb, v.Type)
    sh.ReplaceUses(v.Reference, new)
    R.check("IR.replace.both-positions[ShuffleInstruction]", L + "::ShuffleInstruction.ReplaceUses", sh.First is new and sh.Second is new,
            detail="a value used as both operands must be replaced in both positions")
    a = val(bb)
    bi = bb.AddInstruction(ir.BinaryInstruction(ir.OpCode.MUL, ir.IntegerType(), a, a))
    n2 = val(bb)
    bi.ReplaceUses(a.Reference, n2)
    R.check("IR.replace.both-positions[BinaryInstruction]", L + "::BinaryInstruction.ReplaceUses", bi.Values[0] is n2 and bi.Values[1] is n2, detail="x*x: both operands must be replaced")


def _holds(ins, attr, new):
    v = vars(ins)[attr]
    return v is new or (isinstance(v, list) and any(x is new for x in v))


@family("IR.bookkeeping", props=["C02", "C14", "C05", "C06", "C09"],
        functions=[L + "::BasicBlock.UpdateUses", L + "::Function.UpdateUses", L + "::Function.ReplaceUses", L + "::BasicBlock.GetPreviousInstruction", L + "::Function.RegisterValue",
                   L + "::Function.CreateConstant", L + "::Function.CreateBasicBlock", L + "::BasicBlock.AddInstruction", L + "::VariableAccessInstruction.WithVariable",
                   L + "::BasicBlock._Traverse", L + "::BasicBlock.Replace", L + "::BasicBlock.ReplaceUses", L + "::BasicBlock.__Replace"],
        assumptions=["block counts 1-3 and block lengths 0-4 are enumerated (the bookkeeping loops are executed, not cut at an invariant)"])
def ir_bookkeeping(R):
    """Function.UpdateUses: uses[r] lists ALL instructions of ALL blocks with r among their operands.  GetPreviousInstruction: the instruction
    immediately before in the same block (None for the first).  RegisterValue / CreateBasicBlock / CreateConstant / AddInstruction allocate
    pairwise distinct references; CreateConstant(T, v) returns a constant of value v AND type T, the same object for the same (T, v).
    WithVariable keeps reference, type, store operand, parent and scope.  BasicBlock._Traverse with pending forwardings and removals leaves no
    operand referring to a removed instruction or to a forwarded reference, replaces in place (same reference) or removes, keeps everything else."""
    ir = IR()
    I, F = ir.IntegerType(), ir.FloatType()
    # ---- UpdateUses over several blocks
    for nb in (1, 2, 3):
        f, bb = fresh_function()
        blocks = [bb] + [f.CreateBasicBlock() for _ in range(nb - 1)]
        shared = val(blocks[0])
        users = []
        for b in blocks:
            x = val(b)
            users.append(b.AddInstruction(ir.BinaryInstruction(ir.OpCode.ADD, I, shared, x)))
            users.append(b.AddInstruction(ir.ReturnInstruction(shared)))
        f.UpdateUses()
        fu = f._Function__uses
        got = fu.get(shared.Reference, []) if hasattr(fu, "get") else []
        R.check(f"IR.updateuses[{nb}-blocks]", L + "::Function.UpdateUses", sorted(map(id, got)) == sorted(map(id, users)),
                detail=f"uses of a value used in {nb} block(s): {len(got)} users recorded, {len(users)} exist")
        for b in blocks:
            bu = b.Uses.get(shared.Reference, [])
            R.check(f"IR.updateuses.block[{nb}-blocks,bb{b.Reference}]", L + "::BasicBlock.UpdateUses", sorted(map(id, bu)) == sorted(id(u) for u in users if u.Parent is b),
                    detail="per-block use list is wrong")
    # Function.ReplaceUses rewires users in every block
    f, bb = fresh_function()
    b2 = f.CreateBasicBlock()
    a, n = val(bb), val(bb)
    u1 = bb.AddInstruction(ir.ReturnInstruction(a))
    u2 = b2.AddInstruction(ir.ReturnInstruction(a))
    pr = b2.AddInstruction(ir.BranchInstruction(bb, b2, a))
    f.UpdateUses()
    try:
        f.ReplaceUses({a.Reference: n})
        ok = u1.Value is n and u2.Value is n and pr.Predicate is n
        det = f"after Function.ReplaceUses: return(bb0)={'new' if u1.Value is n else 'old'}, return(bb1)={'new' if u2.Value is n else 'old'}, branch predicate={'new' if pr.Predicate is n else repr(pr.Predicate)}"
    except Exception as e:
        ok, det = False, f"raised {type(e).__name__}: {e}"
    R.check("IR.function.replaceuses", L + "::Function.ReplaceUses", ok, detail=det)

    # ---- GetPreviousInstruction
    f, bb = fresh_function()
    b2 = f.CreateBasicBlock()
    xs = [val(bb) for _ in range(4)]
    ys = [val(b2) for _ in range(2)]
    ok = bb.GetPreviousInstruction(xs[0]) is None and all(bb.GetPreviousInstruction(xs[i]) is xs[i - 1] for i in range(1, 4)) and b2.GetPreviousInstruction(ys[0]) is None \
        and b2.GetPreviousInstruction(ys[1]) is ys[0] and bb.GetPreviousInstruction(ys[0]) is None
    R.check("IR.prev", L + "::BasicBlock.GetPreviousInstruction", ok, detail="previous instruction must be the immediate predecessor in the SAME block, None for the first and for foreign instructions")

    # ---- allocation
    f, bb = fresh_function()
    b2 = f.CreateBasicBlock()
    vs = [val(bb), val(b2)]
    c1 = f.CreateConstant(I, 1)
    c1b = f.CreateConstant(I, 1)
    c2 = f.CreateConstant(F, 1.0)
    c3 = f.CreateConstant(F, 2.5)
    c0 = f.CreateConstant(I, 0)
    c0f = f.CreateConstant(F, 0.0)
    vs.append(val(bb))
    refs = [bb.Reference, b2.Reference] + [v.Reference for v in vs] + [c.Reference for c in (c1, c2, c3, c0, c0f)]
    R.check("IR.alloc.distinct", L + "::Function.RegisterValue", len(set(refs)) == len(refs) and all(r >= 0 for r in refs), detail=f"references {refs} are not pairwise distinct")
    R.check("IR.constant.same", L + "::Function.CreateConstant", c1 is c1b and c1.Value == 1 and isinstance(c1.Type, ir.IntegerType), detail="same (type, value) must give the same constant")
    R.check("IR.constant.typed[1 vs 1.0]", L + "::Function.CreateConstant", isinstance(c2.Type, ir.FloatType) and isinstance(c2.Value, float) and c2 is not c1,
            detail=f"CreateConstant(float, 1.0) after CreateConstant(int, 1) returned a constant of type {c2.Type} / value {c2.Value!r}",
            replay=script("""
                import io, contextlib
                from nsl import Compiler, LinearIR, VM
                src = 'export function f(int a) -> float { int b = (a + 1); float c = 1.0; return c; }'
                with contextlib.redirect_stdout(io.StringIO()):
                    r = Compiler.Compiler().Compile(src)
                consts = [(str(c.Type), c.Value) for c in r.IRModule.Functions['f'].Constants]
                print(src, 'constants:', consts)
                if ('float', 1.0) not in [(t, v) for t, v in consts if isinstance(v, float)]: print('REPLAY-CONFIRMED')
                """))
    R.check("IR.constant.typed[0 vs 0.0]", L + "::Function.CreateConstant", isinstance(c0f.Type, ir.FloatType) and c0f is not c0, detail="0 and 0.0 share one constant")
    # a constant has THE TYPE IT WAS ASKED FOR, whatever was created before: int 7 and uint 7 are two constants (the WebAssembly backend picks
    # signed / unsigned opcodes from the operand type; the typing of unsigned arithmetic relies on it)
    for order in ("int-first", "uint-first"):
        f2, _bb2 = fresh_function()
        U = ir.IntegerType(unsigned=True)
        if order == "int-first":
            ci, cu = f2.CreateConstant(I, 7), f2.CreateConstant(U, 7)
        else:
            cu, ci = f2.CreateConstant(U, 7), f2.CreateConstant(I, 7)
        ok = isinstance(ci.Type, ir.IntegerType) and not ci.Type.Unsigned and isinstance(cu.Type, ir.IntegerType) and cu.Type.Unsigned and ci is not cu
        R.check(f"IR.constant.typed[int 7 vs uint 7,{order}]", L + "::Function.CreateConstant", ok,
                detail=f"CreateConstant(int, 7) has type {ci.Type}, CreateConstant(uint, 7) has type {cu.Type} ({'one shared object' if ci is cu else 'two objects'})")
    # every constant CreateConstant has ever handed out stays a constant OF THE FUNCTION (instructions keep it as an operand), whatever is
    # requested afterwards -- in particular for requests that compare equal in Python (1 == 1.0 == True, 0 == 0.0 == -0.0; the lowering of
    # `x++` on a float asks for (float, 1) with an int 1, a float literal for (float, 1.0)): all ordered pairs of requests, three types
    reqs = [(tn, t, v) for tn, t in (("int", I), ("uint", ir.IntegerType(unsigned=True)), ("float", F)) for v in (0, 1, 0.0, 1.0, 2, 2.0)]
    badpairs = []
    for (tn1, t1, v1) in reqs:
        for (tn2, t2, v2) in reqs:
            f3, _bb3 = fresh_function()
            ca = f3.CreateConstant(t1, v1)
            cb = f3.CreateConstant(t2, v2)
            ca2 = f3.CreateConstant(t1, v1)
            listed = list(f3.Constants)
            ok = (any(c is ca for c in listed) and any(c is cb for c in listed) and any(c is ca2 for c in listed)
                  and str(ca.Type) == str(t1) and str(cb.Type) == str(t2) and str(ca2.Type) == str(t1) and ca.Value == v1 and cb.Value == v2 and ca2.Value == v1
                  and len(set(c.Reference for c in listed)) == len(listed))
            if not ok:
                badpairs.append(f"({tn1}, {v1!r}) then ({tn2}, {v2!r})")
    R.check("IR.constant.stays-listed", L + "::Function.CreateConstant", not badpairs,
            detail=f"after these request sequences a constant that was handed out is no longer in Function.Constants, or has another type / value, or shares a reference: {badpairs[:6]}"
                   f" ({len(badpairs)} of {len(reqs) ** 2} ordered pairs)",
            replay=script("""
                import io, contextlib
                from nsl import Compiler, LinearIR, VM
                bad = []
                for src in ('export function f(float a) -> float { float x = a; x++; return (x + 1.0); }',
                            'export function f(float a) -> float { float x = (a + 1.0); x++; return x; }',
                            'export function f(int a) -> float { float x = 1.0; int y = (a + 1); x--; return (x + y); }'):
                    for opt in (False, True):
                        with contextlib.redirect_stdout(io.StringIO()):
                            r = Compiler.Compiler().Compile(src, {'optimize': opt})
                        lk = LinearIR.Linker(); lk.AddModule(r.IRModule)
                        try:
                            VM.VirtualMachine(lk.Link()).Invoke('f', a=2)
                        except KeyError as e:
                            bad.append((src, opt, 'KeyError ' + str(e)))
                print(bad[:3])
                if bad: print('REPLAY-CONFIRMED')
                """))
    R.check("IR.constant.listed", L + "::Function.Constants", sorted(map(id, f.Constants)) == sorted(map(id, {id(c): c for c in (c1, c2, c3, c0, c0f)}.values())), detail="Constants does not list every created constant once")
    # WithVariable
    st = val(bb)
    va = ir.VariableAccessInstruction(I, "p1", ir.VariableAccessScope.FUNCTION_ARGUMENT)
    va.SetStore(st)
    bb.AddInstruction(va)
    w = va.WithVariable(1)
    R.check("IR.withvariable", L + "::VariableAccessInstruction.WithVariable", w.Variable == 1 and w.Reference == va.Reference and w.Store is st and w.Parent is bb and w.Scope == va.Scope
            and w.OpCode == va.OpCode and w.Type is va.Type, detail="WithVariable must keep reference, type, store operand, parent, scope and opcode")
    ld = bb.AddInstruction(ir.VariableAccessInstruction(F, "p0", ir.VariableAccessScope.FUNCTION_ARGUMENT))
    w2 = ld.WithVariable(0)
    R.check("IR.withvariable.load", L + "::VariableAccessInstruction.WithVariable", w2.Store is None and w2.OpCode == ir.OpCode.LOAD and w2.Reference == ld.Reference and w2.Type is ld.Type, detail="load copy")

    # ---- _Traverse with pending forwardings / removals (chains of length 1-3, users of several kinds, in this and another block)
    for chain in (1, 2, 3):
        for user_kind in ("return", "binary", "branch", "member", "store", "call", "other-block"):
            f, bb = fresh_function()
            b2 = f.CreateBasicBlock()
            src = val(bb, ir.StructureType(collections.OrderedDict([("a", I)]), name="S") if user_kind == "member" else I)
            loads = []
            cur = src
            for k in range(chain):
                s = ir.VariableAccessInstruction(cur.Type, f"v{k}", ir.VariableAccessScope.FUNCTION_LOCAL)
                s.SetStore(cur)
                bb.AddInstruction(s)
                l = bb.AddInstruction(ir.VariableAccessInstruction(cur.Type, f"v{k}", ir.VariableAccessScope.FUNCTION_LOCAL))
                loads.append(l)
                cur = l
            last = loads[-1]
            if user_kind == "return":
                user = bb.AddInstruction(ir.ReturnInstruction(last)); get = lambda: [user.Value]
            elif user_kind == "binary":
                user = bb.AddInstruction(ir.BinaryInstruction(ir.OpCode.ADD, I, last, last)); get = lambda: list(user.Values)
            elif user_kind == "branch":
                user = bb.AddInstruction(ir.BranchInstruction(b2, bb, last)); get = lambda: [user.Predicate]
            elif user_kind == "member":
                user = bb.AddInstruction(ir.MemberAccessInstruction(I, last, "a")); get = lambda: [user.Variable]
            elif user_kind == "store":
                user = ir.VariableAccessInstruction(I, "z", ir.VariableAccessScope.FUNCTION_LOCAL); user.SetStore(last); bb.AddInstruction(user); get = lambda: [user.Store]
            elif user_kind == "call":
                user = bb.AddInstruction(ir.CallInstruction(I, "g", [last])); get = lambda: list(user.Arguments)
            else:
                user = b2.AddInstruction(ir.ReturnInstruction(last)); get = lambda: [user.Value]
            f.UpdateUses()
            keep = [i for i in bb.Instructions if i not in loads]

            def trav(instrs, loads=loads, bb=bb, src=src):
                prev = src
                for k, l in enumerate(loads):
                    stored = bb.GetPreviousInstruction(l).Store
                    bb.ReplaceUses(l, stored)
                    bb.Replace(l, None)
                return instrs

            try:
                bb._Traverse(trav)
                live = set(map(id, f.Instructions)) | set(map(id, f.Constants))
                ops = get()
                ok = all(o is src for o in ops) and [id(i) for i in bb.Instructions] == [id(i) for i in keep]
                det = f"after forwarding {chain} load(s) into a {user_kind} user: operand is {'the stored value' if all(o is src for o in ops) else [type(o).__name__ + ('(removed)' if id(o) not in live else '') for o in ops]}; block kept {len(bb.Instructions)}/{len(keep)} instructions"
            except Exception as e:
                ok, det = False, f"_Traverse raised {type(e).__name__}: {e}"
            srcs = {1: "a = p; return a;", 2: "a = p; b = a; return b;", 3: "a = p; b = a; c = b; return c;"}
            rp = script("""
                import io, contextlib
                from nsl import Compiler, LinearIR, VM
                src = 'export function f(int p) -> int { int a; int b; int c; %s }' % {{body}}
                out = []
                for opt in (False, True):
                    with contextlib.redirect_stdout(io.StringIO()):
                        r = Compiler.Compiler().Compile(src, {'optimize': opt})
                    l = LinearIR.Linker(); l.AddModule(r.IRModule)
                    try:
                        out.append(VM.VirtualMachine(l.Link()).Invoke('f', p=7))
                    except Exception as e:
                        out.append('raised %s: %s' % (type(e).__name__, e))
                print(src, 'unoptimised / optimised:', out)
                if out[0] != out[1]: print('REPLAY-CONFIRMED')
                """, body=srcs[chain]) if user_kind == "return" else None
            R.check(f"IR.traverse[chain{chain},{user_kind}]", L + "::BasicBlock._Traverse", ok, detail=det, replay=rp)
    # the use lists need not be current when a traversal starts: an earlier pass (RewriteFunctionArgAccess) exchanges instructions for copies
    f, bb = fresh_function()
    src = val(bb)
    st = ir.VariableAccessInstruction(I, "v", ir.VariableAccessScope.FUNCTION_LOCAL)
    st.SetStore(src)
    bb.AddInstruction(st)
    ld = bb.AddInstruction(ir.VariableAccessInstruction(I, "v", ir.VariableAccessScope.FUNCTION_LOCAL))
    user = ir.VariableAccessInstruction(I, "p0", ir.VariableAccessScope.FUNCTION_ARGUMENT)
    user.SetStore(ld)
    bb.AddInstruction(user)
    f.UpdateUses()
    copies = {}

    def exchange(instrs):
        out = []
        for i in instrs:
            if i is user:
                copies[id(i)] = i.WithVariable(0)
                out.append(copies[id(i)])
            else:
                out.append(i)
        return out

    bb._Traverse(exchange)
    newuser = copies[id(user)]

    def fwd(instrs):
        bb.ReplaceUses(ld, st.Store)
        bb.Replace(ld, None)
        return instrs

    try:
        bb._Traverse(fwd)
        ok = newuser in bb.Instructions and newuser.Store is src and ld not in bb.Instructions
        det = f"after forwarding, the exchanged store has operand {'the stored value' if newuser.Store is src else repr(newuser.Store)}"
    except Exception as e:
        ok, det = False, f"raised {type(e).__name__}: {e}"
    R.check("IR.traverse.after-exchange", L + "::BasicBlock._Traverse", ok, detail=det,
            replay=script("""
                import io, contextlib
                from nsl import Compiler, LinearIR, VM
                src = 'export function f(int a) -> int { int b; b = 5; a = b; return a; }'
                out = []
                for opt in (False, True):
                    try:
                        with contextlib.redirect_stdout(io.StringIO()):
                            r = Compiler.Compiler().Compile(src, {'optimize': opt})
                        l = LinearIR.Linker(); l.AddModule(r.IRModule)
                        out.append(VM.VirtualMachine(l.Link()).Invoke('f', a=1))
                    except BaseException as e:
                        out.append('raised %s: %s' % (type(e).__name__, e))
                print(src, 'unoptimised / optimised:', out)
                if out[0] != out[1]: print('REPLAY-CONFIRMED')
                """))
    # replacement by another instruction keeps the reference and the position
    f, bb = fresh_function()
    a = val(bb)
    c = bb.AddInstruction(ir.CastInstruction(a, F))
    u = bb.AddInstruction(ir.ReturnInstruction(c))
    f.UpdateUses()
    ref = c.Reference
    newi = ir.CastInstruction(a, F)

    def trav2(instrs):
        bb.Replace(c, newi)
        return instrs

    bb._Traverse(trav2)
    R.check("IR.traverse.replace-in-place", L + "::BasicBlock._Traverse", bb.Instructions[1] is newi and newi.Reference == ref and u.Value is newi,
            detail=f"replacement instruction: position ok={bb.Instructions[1] is newi}, reference {newi.Reference} (expected {ref}), user rewired={u.Value is newi}")
    # replacement by a constant
    f, bb = fresh_function()
    k = f.CreateConstant(I, 3)
    c = bb.AddInstruction(ir.CastInstruction(k, F))
    u = bb.AddInstruction(ir.ReturnInstruction(c))
    u2 = bb.AddInstruction(ir.BinaryInstruction(ir.OpCode.ADD, F, c, c))
    f.UpdateUses()
    kf = f.CreateConstant(F, 3.0)

    def trav3(instrs):
        bb.Replace(c, kf)
        return instrs

    bb._Traverse(trav3)
    R.check("IR.traverse.replace-by-constant", L + "::BasicBlock._Traverse", c not in bb.Instructions and u.Value is kf and u2.Values[0] is kf and u2.Values[1] is kf,
            detail="an instruction replaced by a constant must disappear and all its users must refer to the constant")


# ---------------------------------------------------------------------------
# the two optimisation visitors

LAS = "nsl.passes.OptimizeLoadAfterStore::OptimizeLoadAfterStoreVisitor"
OCC = "nsl.passes.OptimizeConstantCasts::OptimizeConstantCastVisitor"


def _pending(bb):
    return dict(getattr(bb, "_BasicBlock__replaceUses")), dict(getattr(bb, "_BasicBlock__replacements"))


@family("IR.opt.las", props=["C02", "C14", "C15", "C12", "C04", "C01"], functions=[LAS + ".v_VariableAccessInstruction", L + "::BasicBlock.GetPreviousInstruction"],
        assumptions=["instruction sequences enumerated: [store?] [0-2 intervening instructions of every kind] load, in one or two blocks; names are unique across scopes (C12), so a same-name store in another scope is left unconstrained"])
def opt_las(R):
    """Soundness of load-after-store forwarding: whenever the visitor forwards a load L of variable x to a value v and removes L, there is a
    store of v to x earlier IN THE SAME BLOCK and no instruction between that store and L can change x (no other store to x; for a global, no call); a load at
    the start of a block is never forwarded; a store is never touched; forwarded and removed are always registered together."""
    ir = IR()
    cls = resolve(LAS)
    I = ir.IntegerType()
    S = ir.VariableAccessScope

    def store(bb, name, v, scope=S.FUNCTION_LOCAL):
        s = ir.VariableAccessInstruction(I, name, scope)
        s.SetStore(v)
        return bb.AddInstruction(s)

    def load(bb, name, scope=S.FUNCTION_LOCAL):
        return bb.AddInstruction(ir.VariableAccessInstruction(I, name, scope))

    middles = {
        "none": lambda bb, v, sc: [],
        "binary": lambda bb, v, sc: [bb.AddInstruction(ir.BinaryInstruction(ir.OpCode.ADD, I, v, v))],
        "call": lambda bb, v, sc: [bb.AddInstruction(ir.CallInstruction(I, "g", [v]))],
        "store-same": lambda bb, v, sc: [store(bb, "x", bb.AddInstruction(ir.BinaryInstruction(ir.OpCode.ADD, I, v, v)), sc)][-1:],
        "store-other": lambda bb, v, sc: [store(bb, "y", v, sc)],
        "load-other": lambda bb, v, sc: [load(bb, "y", sc)],
        "declare": lambda bb, v, sc: [bb.AddInstruction(ir.DeclareVariableInstruction(I, "z", S.FUNCTION_LOCAL))],
        # a declaration of the SAME name between the store and the load creates a fresh, zero-initialised variable (sibling scopes reusing a name)
        "declare-same": lambda bb, v, sc: [bb.AddInstruction(ir.DeclareVariableInstruction(I, "x", S.FUNCTION_LOCAL))],
        "call+binary": lambda bb, v, sc: [bb.AddInstruction(ir.CallInstruction(I, "g", [])), bb.AddInstruction(ir.BinaryInstruction(ir.OpCode.ADD, I, v, v))],
    }
    for scope in (S.FUNCTION_LOCAL, S.GLOBAL, S.FUNCTION_ARGUMENT):
        for has_store in (True, False):
            for mname, mk in middles.items():
                f, bb = fresh_function()
                v = val(bb)
                st = store(bb, "x", v, scope) if has_store else None
                mid = mk(bb, v, scope)
                ld = load(bb, "x", scope)
                user = bb.AddInstruction(ir.ReturnInstruction(ld))
                f.UpdateUses()
                vis = cls()
                vis.v_Generic(ld, None)
                ru, rp = _pending(bb)
                forwarded = ld.Reference in ru
                removed = ld.Reference in rp and rp[ld.Reference] is None
                label = f"{scope.name},{'store' if has_store else 'nostore'},{mname}"
                # what is the last store to x before the load, and is the way from it to the load free of calls?
                seq = bb.Instructions
                last_store = None
                clean = True
                for ins in seq[: seq.index(ld)]:
                    if isinstance(ins, ir.VariableAccessInstruction) and ins.Store is not None and ins.Variable == "x" and ins.Scope == scope:
                        last_store, clean = ins, True
                    elif isinstance(ins, ir.CallInstruction) and scope == S.GLOBAL:
                        clean = False          # only a global can be changed by a callee
                    elif isinstance(ins, ir.DeclareVariableInstruction) and ins.Name == "x" and scope == S.FUNCTION_LOCAL:
                        last_store, clean = None, False      # the variable was re-created: nothing stored before is its value
                valid = last_store is not None and clean and forwarded and ru[ld.Reference] is last_store.Store
                R.check(f"IR.opt.las.sound[{label}]", LAS + ".v_VariableAccessInstruction", (not forwarded) or valid,
                        detail=f"load of x forwarded to {'the value of a store that is not the last store to x / across a call' if forwarded else ''} (sequence: {[type(i).__name__ + ('!' if getattr(i, 'Store', None) is not None else '') for i in seq]})")
                R.check(f"IR.opt.las.paired[{label}]", LAS + ".v_VariableAccessInstruction", forwarded == removed and len(ru) <= 1 and len(rp) <= 1,
                        detail=f"forwarding registered={forwarded}, removal registered={removed}, other pending entries: {len(ru)} / {len(rp)}")
    # Aggregates: a STORE gives the variable its own copy of an array / struct (VM.step.STORE.no-sharing-with-the-source), so the value of the
    # load that follows is NOT the stored object; arrays and structs are then updated in place through the loaded object.  Forwarding such a
    # load to the stored value would redirect those writes to the source of the assignment.
    st_t = ir.StructureType(collections.OrderedDict([("a", I)]), name="S")
    for tl, vt in (("int[2]", ir.ArrayType(I, [2])), ("int[2][3]", ir.ArrayType(I, [2, 3])), ("struct", st_t)):
        for scope in (S.FUNCTION_LOCAL, S.GLOBAL, S.FUNCTION_ARGUMENT):
            f, bb = fresh_function()
            v = val(bb, vt)
            sti = ir.VariableAccessInstruction(vt, "x", scope)
            sti.SetStore(v)
            bb.AddInstruction(sti)
            ld = bb.AddInstruction(ir.VariableAccessInstruction(vt, "x", scope))
            bb.AddInstruction(ir.ReturnInstruction(ld))
            f.UpdateUses()
            cls().v_Generic(ld, None)
            ru, rp = _pending(bb)
            R.check(f"IR.opt.las.aggregates[{tl},{scope.name}]", LAS + ".v_VariableAccessInstruction", not ru and not rp,
                    detail=f"a load of an {tl} variable directly after a store to it was forwarded to the stored value (pending use replacements {list(ru)}, replacements {list(rp)})")
    # a load that opens a block is never forwarded, whatever precedes it in layout order or follows it in its own block
    for variant in ("previous-block-ends-with-store", "own-block-ends-with-store", "only-instruction"):
        f, bb = fresh_function()
        v = val(bb)
        if variant == "previous-block-ends-with-store":
            store(bb, "x", v)
            b2 = f.CreateBasicBlock()
            ld = load(b2, "x")
            b2.AddInstruction(ir.ReturnInstruction(ld))
            blk = b2
        elif variant == "own-block-ends-with-store":
            b2 = f.CreateBasicBlock()
            ld = load(b2, "x")
            s2 = bb  # keep linter quiet
            w = b2.AddInstruction(ir.BinaryInstruction(ir.OpCode.ADD, I, ld, ld))
            store(b2, "x", w)
            blk = b2
        else:
            b2 = f.CreateBasicBlock()
            ld = load(b2, "x")
            blk = b2
        f.UpdateUses()
        vis = cls()
        try:
            vis.v_Generic(ld, None)
            ru, rp = _pending(blk)
            ok, det = not ru and not rp, f"pending forwardings {list(ru)} removals {list(rp)}"
        except Exception as e:
            ok, det = False, f"raised {type(e).__name__}: {e}"
        rpl = script("""
            import io, contextlib
            from nsl import Compiler, LinearIR, VM
            src = 'export function f(int a) -> int { int x = 1; if (a > 0) { x = (x + a); } return x; }'
            out = []
            for a in (5, -5):
                res = []
                for opt in (False, True):
                    with contextlib.redirect_stdout(io.StringIO()):
                        r = Compiler.Compiler().Compile(src, {'optimize': opt})
                    l = LinearIR.Linker(); l.AddModule(r.IRModule)
                    try:
                        res.append(VM.VirtualMachine(l.Link()).Invoke('f', a=a))
                    except Exception as e:
                        res.append('raised %s: %s' % (type(e).__name__, e))
                out.append(res)
            print(src, 'a=5 / a=-5 (unoptimised, optimised):', out)
            if any(r[0] != r[1] for r in out): print('REPLAY-CONFIRMED')
            """)
        R.check(f"IR.opt.las.block-start[{variant}]", LAS + ".v_VariableAccessInstruction", ok, detail=f"a load at the start of a block must never be forwarded: {det}", replay=rpl)
    # stores are left alone
    f, bb = fresh_function()
    v = val(bb)
    s1 = store(bb, "x", v)
    s2 = store(bb, "x", v)
    vis = cls()
    vis.v_Generic(s2, None)
    ru, rp = _pending(bb)
    R.check("IR.opt.las.store-untouched", LAS + ".v_VariableAccessInstruction", not ru and not rp, detail="a store must not be forwarded or removed")


@family("IR.opt.cc", props=["C02", "C05", "C06", "C09"], functions=[OCC + ".v_CastInstruction", "nsl.VM::ExecutionContext.__Execute"],
        assumptions=["constants enumerated over {0, 1, -1, 7, 2.5, -2.5, 1e6} x target types {float, int, uint}; the folded value is compared with what the VM's own CAST arm computes for the same operand"])
def opt_cc(R):
    """For every scalar target type and constant c the visitor leaves the cast alone or replaces it by a constant OF THE TARGET TYPE whose value
    is exactly what executing the cast yields; it never raises (accept/reject parity with the unoptimised pipeline); casts of non-constants are untouched."""
    ir = IR()
    from . import vm_c
    cls = resolve(OCC)
    for c in (0, 1, -1, 7, 2.5, -2.5, 1e6):
        for tk in ("f", "i", "u"):
            f, bb = fresh_function()
            st = ir.FloatType() if isinstance(c, float) else ir.IntegerType()
            k = f.CreateConstant(st, c)
            ci = bb.AddInstruction(ir.CastInstruction(k, vm_c.T(tk)))
            bb.AddInstruction(ir.ReturnInstruction(ci))
            f.UpdateUses()
            vis = cls()
            label = f"{c!r}->{ {'f': 'float', 'i': 'int', 'u': 'uint'}[tk] }"
            try:
                vis.v_Generic(ci, None)
                ru, rp = _pending(bb)
                err = None
            except Exception as e:
                err = e
            if err is not None:
                R.check(f"IR.opt.cc.total[{label}]", OCC + ".v_CastInstruction", False, detail=f"raised {type(err).__name__}: {err}",
                        replay=script("""
                            import io, contextlib
                            from nsl import Compiler
                            src = 'export function f() -> int2 { return int2(1.5, 2); }'
                            res = []
                            for opt in (False, True):
                                try:
                                    with contextlib.redirect_stdout(io.StringIO()):
                                        res.append(Compiler.Compiler().Compile(src, {'optimize': opt}) is not None)
                                except BaseException as e:
                                    res.append('raised ' + type(e).__name__)
                            print(src, 'accepted without/with optimize:', res)
                            if res[0] != res[1]: print('REPLAY-CONFIRMED')
                            """))
                continue
            if ci.Reference not in rp:
                R.check(f"IR.opt.cc[{label}]", OCC + ".v_CastInstruction", not rp and not ru, detail="cast left in place")
                continue
            new = rp[ci.Reference]
            # what does the VM compute for this cast?
            h = vm_c.Harness({"p": vm_c.T("i")})
            src_v = h.value(st)
            cin = h.add(ir.CastInstruction(src_v, vm_c.T(tk)))
            h.start([0], {src_v: c}, cin)
            h.step()
            want = h.post["localScope"][cin.Reference]
            ok = isinstance(new, ir.ConstantValue) and new.Value == want and type(new.Value) is type(want) and type(new.Type) is type(vm_c.T(tk)) \
                and getattr(new.Type, "Unsigned", None) == getattr(vm_c.T(tk), "Unsigned", None)
            R.check(f"IR.opt.cc[{label}]", OCC + ".v_CastInstruction", ok,
                    detail=f"cast folded to {getattr(new, 'Value', new)!r} of type {getattr(new, 'Type', None)}, executing the cast gives {want!r} of type {vm_c.T(tk)}")
    # non-constant operand: untouched
    f, bb = fresh_function()
    a = val(bb)
    ci = bb.AddInstruction(ir.CastInstruction(a, ir.FloatType()))
    cls().v_Generic(ci, None)
    ru, rp = _pending(bb)
    R.check("IR.opt.cc.non-constant", OCC + ".v_CastInstruction", not ru and not rp, detail="a cast of a non-constant must be left alone")


@family("P.pipeline", props=["C02", "C05", "C11", "C12", "C13", "C09", "C10", "C01"],
        functions=["nsl.Compiler::Compiler.__init__", "nsl.Compiler::Compiler.Compile", "nsl.Compiler::Compiler.__RunPass", "nsl.Pass::MakePassFromVisitor"],
        assumptions=["the real Compile runs with a recorder around the real Compiler.__RunPass (behaviour preserved); for the stop obligations a stand-in failing pass is handed to the real __RunPass"])
def pipeline(R):
    """Compile runs every AST pass of the list in order on the parsed tree; returns no Result if any pass returns False or raises, and then runs
    nothing after it (no lowering); the pass list contains the typing pass before every validator and before AddImplicitCasts, and
    RewriteAssignEqual before typing; the IR passes flagged IsOptimization run iff `optimize` is set, the others always; wasm only on request."""
    import io, contextlib
    from nsl import Compiler as C
    from nsl.Pass import PassFlags
    src = "export function f(int a) -> int { int b = a; b += 1; return b; }"

    def instrument(comp, log, fail_at=None, fail_how=None):
        # Recorder around the real Compiler.__RunPass (every AST and IR pass goes through it); for a failure a stand-in pass is handed to the
        # real __RunPass in place of the real one.  Independent of where the pass objects are created (constructor or per compilation).
        import types
        real = getattr(C.Compiler, "_Compiler__RunPass")

        class Failing:
            Name = "stand-in"
            Flags = PassFlags.Default

            def Process(self, root, ctx=None, output=None):
                if fail_how == "raise":
                    raise RuntimeError("stand-in pass failure")
                return False

        def run_pass(self, data, passIndex, p, kind, debug=False):
            log.append((kind, passIndex))
            if fail_at == (kind, passIndex):
                p = Failing()
            return real(self, data, passIndex, p, kind, debug)

        setattr(comp, "_Compiler__RunPass", types.MethodType(run_pass, comp))

    def names(comp):
        out = []
        for p in comp.astPasses:
            v = getattr(p, "Visitor", None) or getattr(p, "visitor", None)
            out.append(type(v).__name__ if v is not None else type(p).__name__)
        return out

    c = C.Compiler()
    nm = names(c)
    need = ["RewriteAssignEqualVisitor", "UpdateLocationsVisitor", "ComputeTypeVisitor", "ValidateArrayAccessTypeVisitor", "ValidateArrayOutOfBoundsAccessVisitor",
            "ValidateExportedFunctionsVisitor", "ValidateFlowStatementVisitor", "ValidateSwizzleMaskVisitor", "ValidateVariableNamesVisitor", "AddImplicitCastVisitor"]
    for n in need:
        R.check(f"P.ast-passes.present[{n}]", "nsl.Compiler::Compiler.__init__", n in nm, detail=f"pass list {nm}")
    if all(n in nm for n in need):
        ct = nm.index("ComputeTypeVisitor")
        R.check("P.ast-passes.order", "nsl.Compiler::Compiler.__init__", nm.index("RewriteAssignEqualVisitor") < ct and all(nm.index(n) > ct for n in need[3:]),
                detail=f"typing must run after the compound-assignment rewrite and before every validator and the cast pass: {nm}")
        # the validators judge the program AS WRITTEN: the cast pass wraps a float index in an implicit int cast, so it must run after them
        cp = nm.index("AddImplicitCastVisitor")
        R.check("P.ast-passes.validators-before-casts", "nsl.Compiler::Compiler.__init__", all(nm.index(n) < cp for n in need[3:9]),
                detail=f"every validator must run before the implicit-cast pass: {nm}")
    irn = [(getattr(p, "Name", "?"), bool(p.Flags & PassFlags.IsOptimization)) for p in c.irPasses]
    R.check("P.ir-passes.flags", "nsl.Compiler::Compiler.__init__", ("rewrite-function-arg-accessor", False) in irn and ("optimize-constant-cast", True) in irn and ("optimize-load-after-store", True) in irn,
            detail=f"IR passes and optimisation flags: {irn}")
    for opt in (False, True):
        comp = C.Compiler()
        log = []
        instrument(comp, log)
        with contextlib.redirect_stdout(io.StringIO()):
            r = comp.Compile(src, {"optimize": opt})
        ast_run = [i for k, i in log if k == "AST"]
        ir_run = [i for k, i in log if k == "IR"]
        want_ir = [i for i, p in enumerate(comp.irPasses) if opt or not (p.Flags & PassFlags.IsOptimization)]
        R.check(f"P.run.ast[optimize={opt}]", "nsl.Compiler::Compiler.Compile", r is not None and ast_run == list(range(len(comp.astPasses))), detail=f"AST passes run: {ast_run}")
        R.check(f"P.run.gate[optimize={opt}]", "nsl.Compiler::Compiler.Compile", ir_run == want_ir, detail=f"IR passes run {ir_run}, expected {want_ir}")
        R.check(f"P.run.wasm[optimize={opt}]", "nsl.Compiler::Compiler.Compile", r is not None and r.WasmModule is None, detail="a wasm module was generated without the wasm option")
    ncomp = len(C.Compiler().astPasses)
    for how in ("false", "raise"):
        for k in range(ncomp):
            comp = C.Compiler()
            log = []
            instrument(comp, log, fail_at=("AST", k), fail_how=how)
            try:
                with contextlib.redirect_stdout(io.StringIO()):
                    r = comp.Compile(src, {"optimize": True})
            except BaseException:
                r = None
            after = [x for x in log if x[0] == "IR" or (x[0] == "AST" and x[1] > k)]
            R.check(f"P.run.stop[{how},ast{k}]", "nsl.Compiler::Compiler.__RunPass", r is None and not after,
                    detail=f"AST pass {k} failed ({how}) but Compile {'returned a module' if r is not None else 'stopped'}; passes run afterwards: {after}")
    # VisitorPass.Process returns the validator's verdict
    from nsl import Pass, Visitor
    for verdict in (True, False):
        v = Visitor.DefaultVisitor()
        p = Pass.MakePassFromVisitor(v, "x", validator=lambda vis, verdict=verdict: verdict)
        import nsl.ast as a
        with contextlib.redirect_stdout(io.StringIO()):
            got = p.Process(a.Module())
        R.check(f"P.process[{verdict}]", "nsl.Pass::MakePassFromVisitor", got is verdict, detail=f"Process returned {got!r} for a validator returning {verdict}")
