"""Sidecar contracts for Anteru/nsl.  One module per area, named *_c.py; each
registers obligation families with pyvc.core.family.  /repo is never edited by
these: targets are addressed as 'module::QualName'."""
